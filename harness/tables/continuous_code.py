"""T1 (code level) for the two continuous spaces: the bounds tests, torus corrections, distance / heading /
difference-vector formulas, the range-query conditions, the growth rule, the re-indexing expression and the
compaction slice bounds and the argpartition index are TRANSLATED from the working tree into executable Gallina
(harness/pyexpr.py) on every run; the remaining glue statements (dictionaries, object attributes, exceptions,
NumPy array plumbing) are checked verbatim as statement skeletons.  Proofs/ContBridge.v proves that the
translated definitions are the functions the hand-written models (Model/ContGeom.v, ContLegacy.v, ContExp.v) use.

Reading of the NumPy code ("the same expression shape over Z"): every coordinate is a multiple of 1/16 held as
a scaled integer; a vectorised expression is read PER AXIS (np.abs -> Z.abs, np.minimum -> Z.min, np.sign ->
Z.sgn, np.mod / % -> mod, X[:, 0] / X[i] / X[mask] -> the coordinate of that axis, `&` / `~` on masks -> && /
negb, the masked two-way assignment  out = zeros; out[m] = a[m]; out[~m] = b[~m]  ->  if m then a else b);
sqrt is read as "the squared quantity" (distances are compared squared in the models)."""
import ast
import copy
from fractions import Fraction

import pyexpr
import translate as T

LEG = "mesa/space.py"
EXP = "mesa/experimental/continuous_space/continuous_space.py"
AGT = "mesa/experimental/continuous_space/continuous_space_agents.py"
HEADER = ""


class B(T.Broken):
    pass


def _cls(path, name):
    return T._find_class(T._parse(path), name)


def _fn(path, cls, name, params=None, last=True):
    c = _cls(path, cls)
    fs = [n for n in c.body if isinstance(n, ast.FunctionDef) and n.name == name]
    if not fs:
        raise T.Broken(f"{cls}.{name} not found")
    f = fs[-1] if last else fs[0]
    if params is not None and [a.arg for a in f.args.args] != params:
        raise T.Broken(f"unexpected parameters of {cls}.{name}: {[a.arg for a in f.args.args]}")
    return _normalised(f)


def _normalised(f):
    """the function with its LOCAL variables renamed v0, v1, ... in order of first binding and the docstring dropped
    (pyexpr.normalized_statements): everything below - translation and skeletons - is insensitive to the names of
    locals, to docstrings, comments and formatting"""
    g = copy.deepcopy(f)
    g.body = ast.parse("\n".join(pyexpr.normalized_statements(f))).body
    return g


_MSG = __import__("re").compile(r"raise (\w+)\((?:f?'(?:[^'\\]|\\.)*'|f?\"(?:[^\"\\]|\\.)*\")\)")


def _nomsg(text):
    """exception MESSAGE texts are not part of the skeleton"""
    return _MSG.sub(r"raise \1(<msg>)", text)


def _stmts(fn):
    return [s for s in fn.body
            if not (isinstance(s, ast.Expr) and isinstance(s.value, ast.Constant) and isinstance(s.value.value, str))]


# ------------------------------------------------------------------ the per-axis reading of NumPy code
class Axis(ast.NodeTransformer):
    """rewrites a (copy of a) statement / expression into the scalar subset pyexpr understands"""

    IDENT = {"np.array", "np.asanyarray", "np.asarray", "bool", "tuple"}

    def __init__(self, vec_names=(), sqrt_is_square=False):
        self.vec = set(vec_names)
        self.sqrt = sqrt_is_square

    def visit_Attribute(self, n):
        self.generic_visit(n)
        # self.space.X -> self.X   (the agent reads its space)
        if isinstance(n.value, ast.Attribute) and ast.unparse(n.value) == "self.space":
            return ast.Attribute(value=ast.Name(id="self", ctx=ast.Load()), attr=n.attr, ctx=n.ctx)
        return n

    def visit_Subscript(self, n):
        src = ast.unparse(n)
        if src == "self.dimensions[:, 0]":
            return ast.Name(id="lo", ctx=ast.Load())
        if src == "self.dimensions[:, 1]":
            return ast.Name(id="hi", ctx=ast.Load())
        self.generic_visit(n)
        if isinstance(n.value, ast.Name) and n.value.id in self.vec:
            return n.value                      # X[i], X[:, i], X[mask] : the coordinate of the axis read
        return n

    def visit_Call(self, n):
        name = ast.unparse(n.func)
        if name in ("tuple",) and len(n.args) == 1 and isinstance(n.args[0], ast.GeneratorExp):
            g = n.args[0]
            if len(g.generators) == 1 and ast.unparse(g.generators[0].iter) == "range(2)" and not g.generators[0].ifs:
                return self.visit(g.elt)         # tuple(f(v[i]) for i in range(2)) : f(v) on every axis
        self.generic_visit(n)
        if name in self.IDENT and len(n.args) == 1 and not n.keywords:
            return n.args[0]
        if isinstance(n.func, ast.Attribute) and n.func.attr == "all" and not n.args:
            return n.func.value                  # (mask).all() : every axis (the model folds && over the axes)
        if name == "np.abs" and len(n.args) == 1:
            return ast.Call(func=ast.Name(id="abs", ctx=ast.Load()), args=n.args, keywords=[])
        if name == "np.minimum" and len(n.args) == 2:
            if n.keywords and not (len(n.keywords) == 1 and n.keywords[0].arg == "out"
                                   and ast.unparse(n.keywords[0].value) == ast.unparse(n.args[0])):
                raise pyexpr.Unsupported("np.minimum with unexpected keywords")
            return ast.Call(func=ast.Name(id="min", ctx=ast.Load()), args=n.args, keywords=[])
        if name == "np.mod" and len(n.args) == 2 and not n.keywords:
            return ast.BinOp(left=n.args[0], op=ast.Mod(), right=n.args[1])
        if name == "np.sign" and len(n.args) == 1:
            return ast.Call(func=ast.Name(id="sign", ctx=ast.Load()), args=n.args, keywords=[])
        if name in ("math.sqrt", "np.sqrt") and len(n.args) == 1 and self.sqrt:
            return n.args[0]                     # squared reading
        return n

    def visit_BinOp(self, n):
        self.generic_visit(n)
        if isinstance(n.op, ast.BitAnd):
            return ast.BoolOp(op=ast.And(), values=[n.left, n.right])
        return n

    def visit_UnaryOp(self, n):
        self.generic_visit(n)
        if isinstance(n.op, ast.Invert):
            return ast.UnaryOp(op=ast.Not(), operand=n.operand)
        return n

    def visit_If(self, n):
        self.generic_visit(n)
        # `if isinstance(..): A else: A'` with A and A' equal after the rewrite (tuple vs ndarray packaging)
        if isinstance(n.test, ast.Call) and ast.unparse(n.test.func) == "isinstance" and n.orelse:
            if [ast.unparse(s) for s in n.body] == [ast.unparse(s) for s in n.orelse]:
                return n.body
            raise pyexpr.Unsupported("isinstance branches differ")
        return n


def _axis(stmts, vec=(), sqrt=False):
    out = []
    for s in copy.deepcopy(list(stmts)):
        r = Axis(vec, sqrt).visit(s)
        out += r if isinstance(r, list) else [r]
    for s in out:
        ast.fix_missing_locations(s)
    return out


def _premask(stmts):
    """replace the masked two-way assignment by a conditional expression (on the original AST)"""
    out = []
    i = 0
    stmts = list(stmts)
    while i < len(stmts):
        s = stmts[i]
        if (isinstance(s, ast.Assign) and isinstance(s.value, ast.Call) and ast.unparse(s.value.func) == "np.zeros"
                and i + 2 < len(stmts)):
            name = ast.unparse(s.targets[0])
            a, b = stmts[i + 1], stmts[i + 2]
            try:
                m = ast.unparse(a.targets[0].slice)
                ok = (ast.unparse(a.targets[0].value) == name and ast.unparse(b.targets[0].value) == name
                      and ast.unparse(b.targets[0].slice) == f"~{m}"
                      and ast.unparse(a.value.slice) == m and ast.unparse(b.value.slice) == f"~{m}"
                      and ast.unparse(s.value.args[0]) == ast.unparse(a.value.value) + ".shape")
            except AttributeError:
                ok = False
            if not ok:
                raise pyexpr.Unsupported("np.zeros(...) not followed by the masked two-way assignment")
            new = ast.Assign(targets=[ast.Name(id=name, ctx=ast.Store())],
                             value=ast.IfExp(test=ast.Name(id=m, ctx=ast.Load()), body=a.value.value, orelse=b.value.value))
            out.append(new)
            i += 3
            continue
        if isinstance(s, ast.If):
            s = copy.copy(s)
            s.body = _premask(s.body)
            s.orelse = _premask(s.orelse)
        out.append(s)
        i += 1
    return out


def _sign(args):
    if len(args) != 1 or args[0][1] != "Z":
        raise pyexpr.Unsupported("sign")
    return f"(Z.sgn {args[0][0]})", "Z"


def _tr(bools=(), attrs=None, calls=None, tuples=()):
    calls = dict(calls or {})
    calls.setdefault("sign", _sign)
    return pyexpr.Tr(bool_names=list(bools), attr_map=attrs or {}, call_map=calls, tuple_names=list(tuples))


def _guard(f):
    def g():
        try:
            return f()
        except pyexpr.Unsupported as e:
            raise T.Broken(f"outside the translated subset: {e}") from None
    g.__doc__ = f.__doc__
    return g


# ------------------------------------------------------------------ legacy ContinuousSpace
def _legacy_attrs():
    """width / height / size are read off __init__: self.width = x_max - x_min etc."""
    fn = _fn(LEG, "ContinuousSpace", "__init__", ["self", "x_max", "y_max", "torus", "x_min", "y_min"])
    want = {"x_min": "x_min", "x_max": "x_max", "y_min": "y_min", "y_max": "y_max", "torus": "torus"}
    got = {}
    for s in _stmts(fn):
        if isinstance(s, ast.Assign) and len(s.targets) == 1 and ast.unparse(s.targets[0]).startswith("self."):
            got[s.targets[0].attr] = s.value
    for k, v in want.items():
        if k not in got or ast.unparse(got[k]) != v:
            raise T.Broken(f"__init__ does not store {k} as given")
    tr = _tr(bools=["torus"])
    attrs = dict(want)
    for k in ("width", "height"):
        if k not in got:
            raise T.Broken(f"__init__ does not define self.{k}")
        attrs[k] = tr.expr(got[k])[0]
    if ast.unparse(got.get("size", ast.Constant(value=0))) != "np.array((self.width, self.height))":
        raise T.Broken("self.size is not np.array((self.width, self.height))")
    return attrs


LEG_SIG = "(x_min x_max y_min y_max : Z)"


@_guard
def c_leg_oob():
    fn = _fn(LEG, "ContinuousSpace", "out_of_bounds", ["self", "pos"])
    body = _tr(bools=["torus"], attrs=_legacy_attrs(), tuples=["pos"]).body(_stmts(fn), "bool")
    return f"Definition gen_cs_out_of_bounds {LEG_SIG} (pos : Z * Z) : bool :=\n  {body}."


@_guard
def c_leg_torus_adj():
    fn = _fn(LEG, "ContinuousSpace", "torus_adj", ["self", "pos"])

    def oob(args):
        if len(args) != 1 or args[0][1] != "tuple":
            raise pyexpr.Unsupported("out_of_bounds argument")
        return f"(gen_cs_out_of_bounds x_min x_max y_min y_max {args[0][0]})", "bool"
    tr = _tr(bools=["torus"], attrs=_legacy_attrs(), tuples=["pos"], calls={"self.out_of_bounds": oob})
    body = tr.body(_axis(_stmts(fn)), "option tuple")
    return (f"Definition gen_cs_torus_adj {LEG_SIG} (torus : bool) (pos : Z * Z) : option (Z * Z) :=\n  {body}.")


@_guard
def c_leg_distance():
    fn = _fn(LEG, "ContinuousSpace", "get_distance", ["self", "pos_1", "pos_2"])
    tr = _tr(bools=["torus"], attrs=_legacy_attrs(), tuples=["pos_1", "pos_2"])
    body = tr.body(_axis(_stmts(fn), sqrt=True), "Z")
    return (f"Definition gen_cs_distance2 {LEG_SIG} (torus : bool) (pos_1 pos_2 : Z * Z) : Z :=\n  {body}.")


@_guard
def c_leg_heading():
    """per axis: one, two the coordinates of pos_1, pos_2, size the extent of the axis"""
    fn = _fn(LEG, "ContinuousSpace", "get_heading", ["self", "pos_1", "pos_2"])
    helpers = [n for n in ast.walk(fn) if isinstance(n, ast.FunctionDef) and n is not fn]
    if len(helpers) != 1 or len(helpers[0].args.args) != 2:
        raise T.Broken("expected one nested two-argument helper (get_min_abs)")
    hbody = _tr().body(_stmts(helpers[0]), "Z")
    hx, hy = (a.arg for a in helpers[0].args.args)

    def gma(args):
        if len(args) != 2 or any(k != "Z" for _, k in args):
            raise pyexpr.Unsupported("helper arguments")
        return f"(let {hx} := {args[0][0]} in let {hy} := {args[1][0]} in {hbody})", "Z"

    def strip(stmts):
        out = []
        for s in stmts:
            if isinstance(s, ast.FunctionDef):
                continue
            if isinstance(s, ast.If):
                s = copy.copy(s)
                s.body = strip(s.body)
                s.orelse = strip(s.orelse)
            out.append(s)
        return out
    stmts = _axis(strip(_stmts(fn)), vec=pyexpr.local_names(fn))
    tr = _tr(bools=["torus"], attrs={"size": "size", "torus": "torus"}, calls={helpers[0].name: gma})
    body = tr.body(stmts, "Z")
    return f"Definition gen_cs_heading_axis (size : Z) (torus : bool) (pos_1 pos_2 : Z) : Z :=\n  {body}."


def _nbr_parts():
    """the five arithmetic statements of get_neighbors, found by position and shape (names are v0, v1, ...)"""
    fn = _fn(LEG, "ContinuousSpace", "get_neighbors", ["self", "pos", "radius", "include_center"])
    st = _stmts(fn)
    if len(st) != 8:
        raise T.Broken(f"get_neighbors has {len(st)} statements, expected 8")
    deltas, tor, dists, where, nb = st[2:7]
    ok = (isinstance(deltas, ast.Assign) and isinstance(deltas.targets[0], ast.Name)
          and isinstance(tor, ast.If) and ast.unparse(tor.test) == "self.torus" and not tor.orelse
          and isinstance(dists, ast.Assign) and isinstance(dists.targets[0], ast.Name)
          and isinstance(where, ast.Assign) and isinstance(where.targets[0], ast.Tuple) and len(where.targets[0].elts) == 1
          and isinstance(nb, ast.Assign) and isinstance(nb.targets[0], ast.Name))
    if not ok:
        raise T.Broken("get_neighbors: expected deltas / if self.torus / dists / (idxs,) / neighbors statements")
    return fn, st, deltas, tor, dists, where, nb


@_guard
def c_leg_nbr_delta():
    """deltas = |cached point - query point| per axis, on a torus min(deltas, size - deltas)"""
    fn, st, deltas, tor, dists, where, nb = _nbr_parts()
    ret = ast.Return(value=ast.Name(id=deltas.targets[0].id, ctx=ast.Load()))
    stmts = _axis([deltas, tor, ret])
    # self._agent_points -> the agent's coordinate, pos -> the query coordinate
    tr = _tr(bools=["torus"], attrs={"size": "size", "torus": "torus", "_agent_points": "agent_point"})
    body = tr.body(stmts, "Z")
    return f"Definition gen_cs_nbr_delta (size : Z) (torus : bool) (agent_point pos : Z) : Z :=\n  {body}."


@_guard
def c_leg_nbr_dist2():
    """dists = deltas[:, 0] ** 2 + deltas[:, 1] ** 2  with the two axis readings d0, d1"""
    fn, st, deltas, tor, dists, where, nb = _nbr_parts()
    dname = deltas.targets[0].id

    class Two(ast.NodeTransformer):
        def visit_Subscript(self, n):
            src = ast.unparse(n)
            if src == dname + "[:, 0]":
                return ast.Name(id="d0", ctx=ast.Load())
            if src == dname + "[:, 1]":
                return ast.Name(id="d1", ctx=ast.Load())
            raise pyexpr.Unsupported("unexpected subscript " + src)
    e = Two().visit(copy.deepcopy(dists.value))
    t, k = _tr().expr(e)
    if k != "Z":
        raise pyexpr.Unsupported("dists is not a number")
    return f"Definition gen_cs_nbr_dist2 (d0 d1 : Z) : Z :=\n  {t}."


@_guard
def c_leg_nbr_select():
    """np.where(dists <= radius ** 2) and the comprehension filter  include_center or dists[x] > 0"""
    fn, st, deltas, tor, dists, where, nb = _nbr_parts()
    w = where.value
    if not (isinstance(w, ast.Call) and ast.unparse(w.func) == "np.where" and len(w.args) == 1):
        raise T.Broken("(idxs,) is not np.where(<condition>)")
    lc = nb.value
    dn = dists.targets[0].id
    ix = ast.unparse(where.targets[0].elts[0])
    if not (isinstance(lc, ast.ListComp) and len(lc.generators) == 1 and isinstance(lc.generators[0].target, ast.Name)
            and ast.unparse(lc.elt) == f"self._index_to_agent[{lc.generators[0].target.id}]"
            and ast.unparse(lc.generators[0].iter) == ix and len(lc.generators[0].ifs) == 1):
        raise T.Broken("neighbors is not [self._index_to_agent[x] for x in idxs if <condition>]")
    tr = _tr(bools=["include_center"])
    c1 = tr.bexpr(_axis([ast.Expr(value=w.args[0])], vec=[dn])[0].value)
    c2 = tr.bexpr(_axis([ast.Expr(value=lc.generators[0].ifs[0])], vec=[dn])[0].value)
    return (f"Definition gen_cs_nbr_select ({dn} radius : Z) (include_center : bool) : bool :=\n  ({c1} && {c2}).")


def _skel(name, fn, want, mapper=None):
    """statement-for-statement comparison of an (already normalised: locals v0, v1, ...) function, exception
    message texts abstracted; `mapper` replaces the statements that are translated elsewhere by placeholders"""
    got = [ast.unparse(s) for s in _stmts(fn)]
    if mapper:
        got = [mapper(g) for g in got]
    got = [_nomsg(g) for g in got]
    if got != want:
        diff = [f"{a!r} != {b!r}" for a, b in zip(got, want) if a != b] or [f"{len(got)} statements, expected {len(want)}"]
        raise T.Broken(f"statement skeleton of {name} changed: {diff[0][:220]}")


def c_leg_skeleton():
    """the glue of the legacy class: dictionaries, agent.pos, cache invalidation - statement for statement what
    Model/ContLegacy.v transcribes (place_agent as repaired: validate first)"""
    C = "ContinuousSpace"
    _skel("place_agent", _fn(LEG, C, "place_agent", ["self", "agent", "pos"]), [
        "pos = self.torus_adj(pos)", "self._invalidate_agent_cache()", "self._agent_to_index[agent] = None", "agent.pos = pos"])
    _skel("move_agent", _fn(LEG, C, "move_agent", ["self", "agent", "pos"]), [
        "pos = self.torus_adj(pos)", "agent.pos = pos",
        "if self._agent_points is not None:\n    v0 = self._agent_to_index[agent]\n    self._agent_points[v0] = pos"])
    _skel("remove_agent", _fn(LEG, C, "remove_agent", ["self", "agent"]), [
        "if agent not in self._agent_to_index:\n    raise Exception(<msg>)",
        "del self._agent_to_index[agent]", "self._invalidate_agent_cache()", "agent.pos = None"])
    _skel("_invalidate_agent_cache", _fn(LEG, C, "_invalidate_agent_cache", ["self"]), [
        "self._agent_points = None", "self._index_to_agent = {}"])
    _skel("_build_agent_cache", _fn(LEG, C, "_build_agent_cache", ["self"]), [
        "self._index_to_agent = {}",
        "for v0, v1 in enumerate(self._agent_to_index):\n    self._agent_to_index[v1] = v0\n    self._index_to_agent[v0] = v1",
        "self._agent_points = np.array([v1.pos for v1 in self._agent_to_index], dtype=float)"])
    fn, st, deltas, tor, dists, where, nb = _nbr_parts()
    _skel("get_neighbors", fn, [
        "if not self._agent_to_index:\n    return []",
        "if self._agent_points is None:\n    self._build_agent_cache()",
        "<deltas>", "<torus>", "<dists>", "<where>", "<neighbors>", "return v3"],
        mapper=lambda g: {ast.unparse(deltas): "<deltas>", ast.unparse(tor): "<torus>", ast.unparse(dists): "<dists>",
                          ast.unparse(where): "<where>", ast.unparse(nb): "<neighbors>"}.get(g, g))
    return "Definition gen_cs_legacy_skeleton_ok : bool := true."


# ------------------------------------------------------------------ experimental ContinuousSpace
def _exp_attrs():
    fn = _fn(EXP, "ContinuousSpace", "__init__")
    got = {}
    for s in _stmts(fn):
        if isinstance(s, (ast.Assign, ast.AnnAssign)):
            t = s.targets[0] if isinstance(s, ast.Assign) else s.target
            if ast.unparse(t).startswith("self.") and s.value is not None:
                got[t.attr] = ast.unparse(s.value)
    want = {"size": "self.dimensions[:, 1] - self.dimensions[:, 0]", "ndims": "self.dimensions.shape[0]",
            "torus": "torus", "dimensions": "np.asanyarray(dimensions)", "_n_agents": "0", "active_agents": "[]",
            "agent_positions": "self._agent_positions[0:0]", "_agent_to_index": "{}"}
    for k, v in want.items():
        if got.get(k) != v:
            raise T.Broken(f"__init__: self.{k} = {got.get(k)!r}, expected {v!r}")
    return {"size": "(hi - lo)", "torus": "torus"}


@_guard
def c_exp_in_bounds():
    fn = _fn(EXP, "ContinuousSpace", "in_bounds", ["self", "point"])
    _exp_attrs()
    src = ast.unparse(_stmts(fn)[0])
    if ".all()" not in src:
        raise T.Broken("in_bounds does not take .all() over the axes")
    body = _tr().body(_axis(_stmts(fn), vec=["point"]), "bool")
    return f"Definition gen_cs_in_bounds_axis (lo hi point : Z) : bool :=\n  {body}."


@_guard
def c_exp_torus_correct():
    fn = _fn(EXP, "ContinuousSpace", "torus_correct", ["self", "point"])
    body = _tr(attrs=_exp_attrs()).body(_axis(_stmts(fn), vec=["point"]), "Z")
    return f"Definition gen_cs_torus_correct_axis (lo hi point : Z) : Z :=\n  {body}."


def _add_parts():
    fn = _fn(EXP, "ContinuousSpace", "_add_agent", ["self", "agent"])
    ifs = [s for s in _stmts(fn) if isinstance(s, ast.If)]
    if len(ifs) != 1:
        raise T.Broken("_add_agent: expected one `if` (the growth branch)")
    return fn, ifs[0]


@_guard
def c_exp_growth():
    """fraction = 0.2; n = max(int(round(fraction * self._n_agents)), 1): over Z, int(round((p/q) * e)) is
    (2 p e + q) / (2 q) (no half-way case exists for an odd q; checked), the guard is  shape[0] <= index"""
    fn, branch = _add_parts()
    if len(branch.body) != 3 or not all(isinstance(x, ast.Assign) for x in branch.body):
        raise T.Broken("growth branch: expected `fraction = <float>`, `n = ...`, `self._agent_positions = ...`")
    frac, nst = [branch.body[0]], [branch.body[1]]
    if not (isinstance(frac[0].targets[0], ast.Name) and isinstance(nst[0].targets[0], ast.Name)
            and isinstance(frac[0].value, ast.Constant) and isinstance(frac[0].value.value, float)):
        raise T.Broken("growth branch: expected `fraction = <float>` and `n = ...`")
    fname = frac[0].targets[0].id
    fr = Fraction(str(frac[0].value.value))
    if fr.denominator % 2 == 0:
        raise T.Broken("fraction with an even denominator: round() has half-way cases")

    class R(ast.NodeTransformer):
        hits = 0

        def visit_Call(self, n):
            self.generic_visit(n)
            if ast.unparse(n.func) == "int" and len(n.args) == 1 and isinstance(n.args[0], ast.Call) \
                    and ast.unparse(n.args[0].func) == "round" and len(n.args[0].args) == 1:
                m = n.args[0].args[0]
                if isinstance(m, ast.BinOp) and isinstance(m.op, ast.Mult):
                    sides = [m.left, m.right]
                    f = [x for x in sides if ast.unparse(x) == fname]
                    o = [x for x in sides if ast.unparse(x) != fname]
                    if len(f) == 1 and len(o) == 1:
                        R.hits += 1
                        num = ast.BinOp(left=ast.BinOp(left=ast.Constant(value=2 * fr.numerator), op=ast.Mult(), right=o[0]),
                                        op=ast.Add(), right=ast.Constant(value=fr.denominator))
                        return ast.BinOp(left=num, op=ast.FloorDiv(), right=ast.Constant(value=2 * fr.denominator))
            return n
    R.hits = 0
    e = R().visit(copy.deepcopy(nst[0].value))
    ast.fix_missing_locations(e)
    if R.hits != 1:
        raise T.Broken("n is not built from int(round(fraction * <count>))")
    t, k = _tr(attrs={"_n_agents": "n_agents"}).expr(e)
    iname = _stmts(fn)[0].targets[0].id if isinstance(_stmts(fn)[0], ast.Assign) else "index"
    g = _tr(attrs={}).bexpr(ast.parse(ast.unparse(branch.test).replace("self._agent_positions.shape[0]", "capacity")
                                      .replace(iname, "index"), mode="eval").body)
    return (f"Definition gen_cs_growth (n_agents : Z) : Z :=\n  {t}.\n"
            f"Definition gen_cs_growth_guard (capacity index : Z) : bool :=\n  {g}.")


def _remove_parts():
    fn = _fn(EXP, "ContinuousSpace", "_remove_agent", ["self", "agent"])
    st = _stmts(fn)
    loops = [s for s in st if isinstance(s, ast.For)]
    copies = [s for s in st if isinstance(s, ast.Assign) and ast.unparse(s.targets[0]).startswith("self._agent_positions[")]
    if len(loops) != 1 or len(copies) != 1:
        raise T.Broken("_remove_agent: expected one for-loop and one slice assignment on _agent_positions")
    return fn, st, loops[0], copies[0]


@_guard
def c_exp_reindex():
    """the loop over active_agents[index:] writes  _agent_to_index[agent] = old_index - 1"""
    fn, st, loop, cp = _remove_parts()
    iname = st[0].targets[0].id if isinstance(st[0], ast.Assign) and isinstance(st[0].targets[0], ast.Name) else None
    if iname is None or ast.unparse(st[0].value) != "self._agent_to_index[agent]":
        raise T.Broken("_remove_agent does not start with index = self._agent_to_index[agent]")
    lv = ast.unparse(loop.target)
    if ast.unparse(loop.iter).replace("::", ":") != f"self.active_agents[{iname}:]":
        raise T.Broken("re-indexing loop is not `for agent in self.active_agents[index:]`")
    b = loop.body
    if not (len(b) == 3 and all(isinstance(x, ast.Assign) for x in b) and isinstance(b[0].targets[0], ast.Name)
            and ast.unparse(b[0].value) == f"self._agent_to_index[{lv}]"
            and ast.unparse(b[1].targets[0]) == f"self._agent_to_index[{lv}]"
            and isinstance(b[2].targets[0], ast.Subscript) and ast.unparse(b[2].targets[0].value) == "self._index_to_agent"
            and ast.unparse(b[2].value) == lv):
        raise T.Broken("unexpected re-indexing loop body")
    old = b[0].targets[0].id
    t, k = _tr().expr(b[1].value)
    t2, k2 = _tr().expr(b[2].targets[0].slice)
    return (f"Definition gen_cs_reindex ({old} : Z) : Z :=\n  {t}.\n"
            f"Definition gen_cs_reindex_i2a ({old} : Z) : Z :=\n  {t2}.")


@_guard
def c_exp_compact():
    """self._agent_positions[a : b] = self._agent_positions[c : d]  -> ((a, b), (c, d)) over index, n"""
    fn, st, loop, cp = _remove_parts()
    dst, src = cp.targets[0], cp.value
    if not (isinstance(src, ast.Subscript) and ast.unparse(src.value) == "self._agent_positions"
            and isinstance(dst.slice, ast.Slice) and isinstance(src.slice, ast.Slice)
            and dst.slice.step is None and src.slice.step is None and None not in (dst.slice.lower, dst.slice.upper, src.slice.lower, src.slice.upper)):
        raise T.Broken("compaction is not a plain slice-to-slice copy within _agent_positions")
    tr = _tr(attrs={"_n_agents": "n"})
    parts = [tr.expr(x) for x in (dst.slice.lower, dst.slice.upper, src.slice.lower, src.slice.upper)]
    if any(k != "Z" for _, k in parts):
        raise pyexpr.Unsupported("slice bounds")
    a, b, c, d = (p[0] for p in parts)
    iname = st[0].targets[0].id if isinstance(st[0], ast.Assign) and isinstance(st[0].targets[0], ast.Name) else "index"
    return f"Definition gen_cs_compact ({iname} n : Z) : (Z * Z) * (Z * Z) :=\n  (({a}, {b}), ({c}, {d}))."


@_guard
def c_exp_diff():
    """calculate_difference_vector per axis (position: the agent's coordinate, point: the query coordinate)"""
    fn = _fn(EXP, "ContinuousSpace", "calculate_difference_vector", ["self", "point", "agents"])
    st = _stmts(fn)
    if not (len(st) >= 3 and ast.unparse(st[0]) == "point = np.asanyarray(point)" and isinstance(st[1], ast.Assign)
            and isinstance(st[1].targets[0], ast.Name)):
        raise T.Broken("expected `point = np.asanyarray(point)` and `positions = ...` before the arithmetic")
    pname = st[1].targets[0].id
    keep = st[2:]
    stmts = _axis(_premask(keep), vec=[n for n in pyexpr.local_names(fn) if n != pname])
    body = _tr(bools=["torus"], attrs=_exp_attrs()).body(stmts, "Z")
    return (f"Definition gen_cs_diff_axis (lo hi : Z) (torus : bool) ({pname} point : Z) : Z :=\n  {body}.")


def _dist_parts():
    fn = _fn(EXP, "ContinuousSpace", "calculate_distances", ["self", "point", "agents"])
    st = _stmts(fn)
    ifs = [s for s in st if isinstance(s, ast.If) and ast.unparse(s.test) == "self.torus"]
    if len(ifs) != 1 or not ifs[0].orelse:
        raise T.Broken("calculate_distances: expected `if self.torus: ... else: ...`")
    return fn, st, ifs[0]


@_guard
def c_exp_dist():
    """torus branch of calculate_distances per axis: delta = |point - positions|; delta = min(delta, size - delta)"""
    fn, st, branch = _dist_parts()
    ds = list(branch.body[:2])
    if not (len(ds) == 2 and all(isinstance(x, ast.Assign) and isinstance(x.targets[0], ast.Name) for x in ds)
            and ds[0].targets[0].id == ds[1].targets[0].id):
        raise T.Broken("torus branch does not start with the two `delta = ...` statements")
    dn = ds[0].targets[0].id
    pn = st[1].body[0].targets[0].id if isinstance(st[1], ast.If) and isinstance(st[1].body[0], ast.Assign) else "positions"
    stmts = _axis(ds + [ast.Return(value=ast.Name(id=dn, ctx=ast.Load()))], vec=[])
    body = _tr(attrs=_exp_attrs()).body(stmts, "Z")
    return f"Definition gen_cs_dist_axis (lo hi : Z) (point {pn} : Z) : Z :=\n  {body}."


@_guard
def c_exp_kth():
    """indices = np.argpartition(dists, k - 1)[:k] -> (kth, how many are kept)"""
    fn = _fn(EXP, "ContinuousSpace", "get_k_nearest_agents", ["self", "point", "k"])
    all_st = _stmts(fn)
    st = [s for s in all_st if isinstance(s, ast.Assign) and "np.argpartition" in ast.unparse(s.value)]
    if len(st) != 1 or not (isinstance(all_st[0], ast.Assign) and isinstance(all_st[0].targets[0], ast.Tuple)):
        raise T.Broken("expected `dists, agents = ...` and one `indices = np.argpartition(...)`")
    dname = ast.unparse(all_st[0].targets[0].elts[0])
    v = st[0].value
    if not (isinstance(v, ast.Subscript) and isinstance(v.slice, ast.Slice) and v.slice.lower is None and v.slice.step is None
            and isinstance(v.value, ast.Call) and ast.unparse(v.value.func) == "np.argpartition"
            and len(v.value.args) == 2 and ast.unparse(v.value.args[0]) == dname and not v.value.keywords):
        raise T.Broken("indices is not np.argpartition(dists, <kth>)[:<count>]")
    tr = _tr()
    a, _ = tr.expr(v.value.args[1])
    b, _ = tr.expr(v.slice.upper)
    return f"Definition gen_cs_kth (k : Z) : Z * Z :=\n  ({a}, {b})."


@_guard
def c_exp_radius():
    """logical = distances <= radius   (un-squared: the models compare 0 <= r and d^2 <= r^2)"""
    fn = _fn(EXP, "ContinuousSpace", "get_agents_in_radius", ["self", "point", "radius"])
    all_st = _stmts(fn)
    st = [s for s in all_st if isinstance(s, ast.Assign) and isinstance(s.value, ast.Compare)]
    if len(st) != 1 or not (isinstance(all_st[0], ast.Assign) and isinstance(all_st[0].targets[0], ast.Tuple)):
        raise T.Broken("expected `distances, agents = ...` and one `logical = <comparison>`")
    dname = ast.unparse(all_st[0].targets[0].elts[0])
    t = _tr().bexpr(st[0].value)
    return f"Definition gen_cs_in_radius ({dname} radius : Z) : bool :=\n  {t}."


@_guard
def c_agent_setter():
    """position setter: the guards, with in_bounds(value) and torus_correct(value) as given values; the store is
    checked in the skeleton.  None = ValueError"""
    fs = [n for n in _cls(AGT, "ContinuousSpaceAgent").body if isinstance(n, ast.FunctionDef) and n.name == "position"]
    if len(fs) != 2 or [a.arg for a in fs[1].args.args] != ["self", "value"]:
        raise T.Broken("expected the position property (getter, setter)")
    st = _stmts(fs[1])
    if ast.unparse(st[-1]) != "self.space.agent_positions[self.space._agent_to_index[self]] = value":
        raise T.Broken("the setter does not end with the store through _agent_to_index")
    if ast.unparse(_stmts(fs[0])[0]) != "return self.space.agent_positions[self.space._agent_to_index[self]]" or len(_stmts(fs[0])) != 1:
        raise T.Broken("the getter is not the read through _agent_to_index")
    stmts = _axis(st[:-1] + [ast.Return(value=ast.Name(id="value", ctx=ast.Load()))])

    def inb(args):
        if len(args) != 1 or args[0][0] != "value":
            raise pyexpr.Unsupported("in_bounds argument")
        return "in_bounds_value", "bool"

    def tc(args):
        if len(args) != 1 or args[0][0] != "value":
            raise pyexpr.Unsupported("torus_correct argument")
        return "torus_correct_value", "Z"
    tr = _tr(bools=["torus", "in_bounds_value"], attrs={"torus": "torus"}, calls={"self.in_bounds": inb, "self.torus_correct": tc})
    body = tr.body(stmts, "option Z")
    return ("Definition gen_cs_setter {V : Type} (torus in_bounds_value : bool) (value torus_correct_value : V) : option V :=\n"
            f"  {body}.")


def c_exp_skeleton():
    """the glue of the experimental class and of ContinuousSpaceAgent, statement for statement what Model/ContExp.v
    transcribes - compared modulo the names of local variables (v0, v1, ...), exception message texts, docstrings,
    comments and formatting"""
    C = "ContinuousSpace"
    fn, branch = _add_parts()
    _skel("_add_agent", fn, [
        "v0 = self._n_agents", "self._n_agents += 1", "<grow>", "self._agent_to_index[agent] = v0",
        "self._index_to_agent[v0] = agent", "self.active_agents.append(agent)",
        "self.agent_positions = self._agent_positions[0:self._n_agents]", "return v0"],
        mapper=lambda g: "<grow>" if g == ast.unparse(branch) else g)
    inner = [ast.unparse(s) for s in branch.body]
    if len(inner) != 3 or inner[2] != ("self._agent_positions = np.vstack([self._agent_positions, "
                                       "np.empty((v2, self.dimensions.shape[0]))])"):
        raise T.Broken("growth branch: the array is not extended by vstack with n fresh rows")
    fn, st, loop, cp = _remove_parts()
    _skel("_remove_agent", fn, [
        "v0 = self._agent_to_index[agent]", "self._agent_to_index.pop(agent, None)", "self._index_to_agent.pop(v0, None)",
        "del self.active_agents[v0]", "<loop>", "<compact>", "self._n_agents -= 1",
        "self.agent_positions = self._agent_positions[0:self._n_agents]"],
        mapper=lambda g: {ast.unparse(loop): "<loop>", ast.unparse(cp): "<compact>"}.get(g, g))
    fn, st, branch = _dist_parts()
    _skel("calculate_distances", fn, [
        "point = np.asanyarray(point)",
        "if agents is None:\n    v0 = self.agent_positions\n    agents = self.active_agents\nelse:\n"
        "    v0 = self._agent_positions[[self._agent_to_index[v4] for v4 in agents]]\n    agents = np.asarray(agents)",
        "<metric>", "return (v2, agents)"], mapper=lambda g: "<metric>" if g == ast.unparse(branch) else g)
    rest = [ast.unparse(s) for s in branch.body[2:]]
    if rest != ["v2 = v1[:, 0] ** 2", "for v3 in range(1, self.ndims):\n    v2 += v1[:, v3] ** 2", "v2 = np.sqrt(v2)"]:
        raise T.Broken("torus branch: the squares are not summed over all axes and rooted")
    if [ast.unparse(s) for s in branch.orelse] != ["v2 = cdist(point[np.newaxis, :], v0, **kwargs)[0, :]"]:
        raise T.Broken("bounded branch is not scipy cdist of the point against the positions")
    fn = _fn(EXP, C, "calculate_difference_vector", ["self", "point", "agents"])
    pos = [ast.unparse(s) for s in _stmts(fn)[:2]]
    if pos != ["point = np.asanyarray(point)",
               "v0 = self.agent_positions if agents is None else self._agent_positions[[self._agent_to_index[v5] for v5 in agents]]"]:
        raise T.Broken("calculate_difference_vector: unexpected selection of the rows")
    if ast.unparse(_stmts(fn)[-1]) != "return v1":
        raise T.Broken("calculate_difference_vector does not return the difference")
    _skel("get_agents_in_radius", _fn(EXP, C, "get_agents_in_radius", ["self", "point", "radius"]), [
        "v0, v1 = self.calculate_distances(point)", "<logical>",
        "v1 = list(compress(v1, v2))", "return (v1, v0[v2])"], mapper=lambda g: "<logical>" if g.startswith("v2 = ") else g)
    fnk = _fn(EXP, C, "get_k_nearest_agents", ["self", "point", "k"])
    _skel("get_k_nearest_agents", fnk, [
        "v0, v1 = self.calculate_distances(point)", "<indices>", "v1 = [v1[v3] for v3 in v2]",
        "return (v1, v0[v2])"], mapper=lambda g: "<indices>" if g.startswith("v2 = ") else g)
    # ContinuousSpaceAgent: creation, removal and the two neighbour wrappers (round 3 of the model)
    A = "ContinuousSpaceAgent"
    _skel("ContinuousSpaceAgent.__init__", _fn(AGT, A, "__init__", ["self", "space", "model"]), [
        "super().__init__(model)", "self.space: ContinuousSpace = space", "self.space._add_agent(self)"])
    # as repaired (fix C02-2): a second remove() finds self.space None and does nothing more
    _skel("ContinuousSpaceAgent.remove", _fn(AGT, A, "remove", ["self"]), [
        "super().remove()",
        "if self.space is not None:\n    self.space._remove_agent(self)\n    self._mesa_index = None\n    self.space = None"])
    _skel("get_neighbors_in_radius", _fn(AGT, A, "get_neighbors_in_radius", ["self", "radius"]), [
        "v0, v1 = self.space.get_agents_in_radius(self.position, radius=radius)",
        "v2 = np.asarray([v3 is not self for v3 in v0])", "v0 = list(compress(v0, v2))", "return (v0, v1[v2])"])
    _skel("get_nearest_neighbors", _fn(AGT, A, "get_nearest_neighbors", ["self", "k"]), [
        "v0, v1 = self.space.get_k_nearest_agents(self.position, k=k + 1)",
        "v2 = np.asarray([v3 is not self for v3 in v0])", "v0 = list(compress(v0, v2))", "return (v0, v1[v2])"])
    return "Definition gen_cs_exp_skeleton_ok : bool := true."


def _fb(text):
    return lambda: text


CONSTRUCTS = [
    ("cs_legacy_oob_code", LEG, c_leg_oob, _fb(f"Definition gen_cs_out_of_bounds {LEG_SIG} (pos : Z * Z) : bool := true.")),
    ("cs_legacy_torus_adj_code", LEG, c_leg_torus_adj,
     _fb(f"Definition gen_cs_torus_adj {LEG_SIG} (torus : bool) (pos : Z * Z) : option (Z * Z) := None.")),
    ("cs_legacy_distance_code", LEG, c_leg_distance,
     _fb(f"Definition gen_cs_distance2 {LEG_SIG} (torus : bool) (pos_1 pos_2 : Z * Z) : Z := -1.")),
    ("cs_legacy_heading_code", LEG, c_leg_heading,
     _fb("Definition gen_cs_heading_axis (size : Z) (torus : bool) (pos_1 pos_2 : Z) : Z := 0.")),
    ("cs_legacy_nbr_delta_code", LEG, c_leg_nbr_delta,
     _fb("Definition gen_cs_nbr_delta (size : Z) (torus : bool) (agent_point pos : Z) : Z := -1.")),
    ("cs_legacy_nbr_dist2_code", LEG, c_leg_nbr_dist2, _fb("Definition gen_cs_nbr_dist2 (d0 d1 : Z) : Z := -1.")),
    ("cs_legacy_nbr_select_code", LEG, c_leg_nbr_select,
     _fb("Definition gen_cs_nbr_select (dists radius : Z) (include_center : bool) : bool := false.")),
    ("cs_legacy_skeleton", LEG, c_leg_skeleton, _fb("Definition gen_cs_legacy_skeleton_ok : bool := false.")),
    ("cs_exp_in_bounds_code", EXP, c_exp_in_bounds, _fb("Definition gen_cs_in_bounds_axis (lo hi point : Z) : bool := false.")),
    ("cs_exp_torus_correct_code", EXP, c_exp_torus_correct, _fb("Definition gen_cs_torus_correct_axis (lo hi point : Z) : Z := point.")),
    ("cs_exp_growth_code", EXP, c_exp_growth,
     _fb("Definition gen_cs_growth (n_agents : Z) : Z := 0.\nDefinition gen_cs_growth_guard (capacity index : Z) : bool := false.")),
    ("cs_exp_reindex_code", EXP, c_exp_reindex,
     _fb("Definition gen_cs_reindex (old_index : Z) : Z := old_index.\nDefinition gen_cs_reindex_i2a (old_index : Z) : Z := old_index.")),
    ("cs_exp_compact_code", EXP, c_exp_compact, _fb("Definition gen_cs_compact (index n : Z) : (Z * Z) * (Z * Z) := ((0, 0), (0, 0)).")),
    ("cs_exp_diff_code", EXP, c_exp_diff,
     _fb("Definition gen_cs_diff_axis (lo hi : Z) (torus : bool) (positions point : Z) : Z := 0.")),
    ("cs_exp_dist_code", EXP, c_exp_dist, _fb("Definition gen_cs_dist_axis (lo hi : Z) (point positions : Z) : Z := -1.")),
    ("cs_exp_kth_code", EXP, c_exp_kth, _fb("Definition gen_cs_kth (k : Z) : Z * Z := (k, k).")),
    ("cs_exp_radius_code", EXP, c_exp_radius, _fb("Definition gen_cs_in_radius (distances radius : Z) : bool := false.")),
    ("cs_agent_setter_code", AGT, c_agent_setter,
     _fb("Definition gen_cs_setter {V : Type} (torus in_bounds_value : bool) (value torus_correct_value : V) : option V := None.")),
    ("cs_exp_skeleton", EXP, c_exp_skeleton, _fb("Definition gen_cs_exp_skeleton_ok : bool := false.")),
]
