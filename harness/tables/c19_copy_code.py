"""T1 (code level) for C19 - the copy / pickle hooks are TRANSLATED from the working tree into Gallina:

  mesa/discrete_space/cell.py   Cell.__slots__, Cell.__getstate__        -> gen_c19_cell_slots, gen_c19_cell_state_slots,
                                                                            gen_c19_cell_emptied, gen_c19_cell_state_has_dict
  mesa/discrete_space/grid.py   pickle_gridcell / unpickle_gridcell      -> gen_c19_gridcell_keeps, gen_c19_gridcell_state_has_dict,
                                                                            gen_c19_gridcell_legacy_keeps
                                Grid.__getstate__                        -> gen_c19_grid_state_keeps
                                Grid.__setstate__ (the two loops)        -> gen_c19_setstate_classes, gen_c19_setstate_descr,
                                                                            gen_c19_setstate_props
  mesa/agent.py                 AgentSet.__getstate__/__setstate__/_update -> gen_c19_aset_state_members, gen_c19_aset_update
plus verbatim statement skeletons for what is object glue (gen_c19_*_skeleton_ok).
Proofs/CopyBridge.v proves that Model/Copy.v:copy_space / copy_set are these pieces."""
import ast

import pyexpr
import translate as T

GRID = "mesa/discrete_space/grid.py"
CELL = "mesa/discrete_space/cell.py"
DSPACE = "mesa/discrete_space/discrete_space.py"
AGENT = "mesa/agent.py"
HEADER = "From Mesa Require Import Common.ListX."

# names that occur as string constants in the translated code, as the integer codes the model uses
SLOT = {"__dict__": 0, "_agents": 1, "capacity": 2, "connections": 3, "coordinate": 4, "properties": 5, "random": 6}
ATTR = {"cell_klass": 0}
LAYERNAME = {"empty": 0}


class Tr(pyexpr.Tr):
    """pyexpr + string constants as integer codes + `<loop var>.name` + the two insertion forms of the
    __setstate__ loops (rewritten to the d[key] = True form pyexpr's collector understands)."""

    def __init__(self, strings, **kw):
        super().__init__(**kw)
        self.strings = strings
        self.obj_names = set()

    def expr(self, e):
        if isinstance(e, ast.Constant) and isinstance(e.value, str):
            if e.value not in self.strings:
                raise pyexpr.Unsupported(f"string {e.value!r}")
            return pyexpr._z(self.strings[e.value]), "Z"
        if isinstance(e, ast.Attribute) and isinstance(e.value, ast.Name) and e.value.id in self.obj_names and e.attr == "name":
            return f"(lname {e.value.id})", "Z"
        if isinstance(e, ast.Tuple) and len(e.elts) == 2:
            a, _ = self.expr(e.elts[0])
            b, _ = self.expr(e.elts[1])
            return f"({a}, {b})", "tuple"
        return super().expr(e)


def _func(src, name, cls=None):
    tree = T._parse(src)
    scope = T._find_class(tree, cls) if cls else tree
    return T._find_func(scope, name)


def _norm(fn):
    """a copy of `fn` whose local variables are alpha-renamed v0, v1, ... in order of first binding
    (pyexpr.local_names; parameters keep their names): structure checks on it do not depend on how locals are called"""
    import copy

    fn2 = copy.deepcopy(fn)
    mapping = {n: f"v{i}" for i, n in enumerate(pyexpr.local_names(fn2))}
    return pyexpr._Renamer(mapping).visit(fn2)


def _msg(txt):
    """exception MESSAGE texts are not part of a skeleton"""
    import re

    return re.sub(r"raise (\w+)\((['\"]).*?\2\)", r"raise \1(<msg>)", txt)


def _stmts(fn):
    return [s for s in fn.body
            if not (isinstance(s, ast.Expr) and isinstance(s.value, ast.Constant) and isinstance(s.value.value, str))]


def _dictcomp_filter(node, strings, what):
    """`{k: v for k, v in X.items() if c1 if c2}`  ->  (text of X, Gallina `fun k => c1 && c2`)"""
    if not (isinstance(node, ast.DictComp) and len(node.generators) == 1):
        raise T.Broken(f"{what}: expected one dict comprehension")
    g = node.generators[0]
    if g.is_async or not (isinstance(g.target, ast.Tuple) and len(g.target.elts) == 2
                          and all(isinstance(x, ast.Name) for x in g.target.elts)):
        raise T.Broken(f"{what}: expected `for k, v in ...`")
    k, v = g.target.elts[0].id, g.target.elts[1].id
    if not (isinstance(node.key, ast.Name) and node.key.id == k and isinstance(node.value, ast.Name) and node.value.id == v):
        raise T.Broken(f"{what}: the comprehension must map k to v unchanged")
    if not (isinstance(g.iter, ast.Call) and isinstance(g.iter.func, ast.Attribute) and g.iter.func.attr == "items" and not g.iter.args):
        raise T.Broken(f"{what}: expected iteration over <dict>.items()")
    tr = Tr(strings)
    try:
        conds = [tr.bexpr(c) for c in g.ifs]
    except pyexpr.Unsupported as e:
        raise T.Broken(f"{what}: filter outside the translated subset: {e}") from None
    body = "true"
    for c in conds:
        body = c if body == "true" else f"({body} && {c})"
    return ast.unparse(g.iter.func.value), f"fun {k} : Z => {body}"


# ------------------------------------------------------------------ cell.py
def _cell_slots():
    cls = T._find_class(T._parse(CELL), "Cell")
    for st in cls.body:
        if isinstance(st, ast.Assign) and ast.unparse(st.targets[0]) == "__slots__":
            try:
                names = [e.value for e in st.value.elts]
            except AttributeError:
                raise T.Broken("Cell.__slots__ is not a literal list of strings") from None
            for n in names:
                if n not in SLOT:
                    raise T.Broken(f"Cell has a slot {n!r} the copy model does not know")
            return names
    raise T.Broken("Cell.__slots__ not found")


def c_cell_slots():
    return "Definition gen_c19_cell_slots : list Z := [" + "; ".join(str(SLOT[n]) for n in _cell_slots()) + "]."


CELL_GETSTATE_SKELETON = [
    "state = (<dict part>, {k: getattr(self, k) for k in <slots>})",
    "state[1][<key>] = {}",
    "return state",
]


DICTKEY = {"empty": 0, "neighborhood": 1}


def _cell_getstate():
    """(Gallina: has_dict, dict filter, slot filter; emptied keys) - both for `state = (self.__dict__, {...})` and for the
    repaired form with filtering comprehensions"""
    fn = _norm(_func(CELL, "__getstate__", "Cell"))
    sts = _stmts(fn)
    slot_iter = "self.__slots__"
    # the repaired form first collects the slots of the whole class hierarchy (a superset of Cell.__slots__ for subclasses)
    def mro_slots(st):
        if not (isinstance(st, ast.Assign) and len(st.targets) == 1 and isinstance(st.targets[0], ast.Name)
                and isinstance(st.value, ast.ListComp) and len(st.value.generators) == 2):
            return False
        g1, g2 = st.value.generators
        return (not g1.ifs and not g2.ifs and isinstance(g1.target, ast.Name) and isinstance(g2.target, ast.Name)
                and ast.unparse(g1.iter) == "type(self).__mro__"
                and ast.unparse(g2.iter) == f"getattr({g1.target.id}, '__slots__', ())"
                and ast.unparse(st.value.elt) == g2.target.id)
    if sts and mro_slots(sts[0]):
        # re-normalise the rest as if the helper variable were not there
        fn2 = _func(CELL, "__getstate__", "Cell")
        body = _stmts(fn2)
        helper = body[0].targets[0].id
        fn2.body = body[1:]
        sts = _stmts(_norm(fn2))
        slot_iter = helper
    if len(sts) < 2 or not isinstance(sts[0], ast.Assign) or ast.unparse(sts[0].targets[0]) != "v0" \
            or not (isinstance(sts[0].value, ast.Tuple) and len(sts[0].value.elts) == 2):
        raise T.Broken("Cell.__getstate__: expected `state = (<dict>, {<slots>})` first")
    d, sl = sts[0].value.elts
    dict_keeps = "fun _ : Z => true"
    if ast.unparse(d) == "self.__dict__":
        has_dict = True
    elif isinstance(d, ast.Constant) and d.value is None:
        has_dict = False
    elif isinstance(d, ast.DictComp):
        src, dict_keeps = _dictcomp_filter(d, DICTKEY, "Cell.__getstate__ (instance dict)")
        if src != "self.__dict__":
            raise T.Broken("Cell.__getstate__: the first state component filters something else than self.__dict__")
        has_dict = True
    else:
        raise T.Broken("Cell.__getstate__: first state component is neither self.__dict__ (filtered) nor None")
    if not (isinstance(sl, ast.DictComp) and len(sl.generators) == 1 and isinstance(sl.generators[0].target, ast.Name)
            and ast.unparse(sl.key) == sl.generators[0].target.id
            and ast.unparse(sl.value) == f"getattr(self, {sl.generators[0].target.id})"):
        raise T.Broken("Cell.__getstate__: second state component is not {k: getattr(self, k) for k in ...}")
    it = ast.unparse(sl.generators[0].iter)
    if it != slot_iter:
        raise T.Broken(f"Cell.__getstate__ iterates over {it}, not over the slots of the class")
    tr = Tr(SLOT)
    kvar = sl.generators[0].target.id
    ifs = []
    for c in sl.generators[0].ifs:
        # `hasattr(self, k)` only skips slots that were never assigned: no effect on an initialised cell
        parts = c.values if (isinstance(c, ast.BoolOp) and isinstance(c.op, ast.And)) else [c]
        parts = [q for q in parts if ast.unparse(q) != f"hasattr(self, {kvar})"]
        ifs += parts
    try:
        conds = [tr.bexpr(c) for c in ifs]
    except pyexpr.Unsupported as e:
        raise T.Broken(f"Cell.__getstate__: slot filter outside the translated subset: {e}") from None
    body = "true"
    for c in conds:
        body = c if body == "true" else f"({body} && {c})"
    slot_keeps = f"fun {sl.generators[0].target.id} : Z => {body}"
    emptied = []
    for st in sts[1:-1]:
        ok = (isinstance(st, ast.Assign) and isinstance(st.targets[0], ast.Subscript)
              and ast.unparse(st.targets[0].value) == "v0[1]" and isinstance(st.targets[0].slice, ast.Constant)
              and ast.unparse(st.value) == "{}")
        if not ok:
            raise T.Broken(f"Cell.__getstate__: unexpected statement {ast.unparse(st)[:60]!r}")
        key = st.targets[0].slice.value
        if key not in SLOT:
            raise T.Broken(f"Cell.__getstate__ empties an unknown slot {key!r}")
        emptied.append(SLOT[key])
    if ast.unparse(sts[-1]) != "return v0":
        raise T.Broken("Cell.__getstate__ does not end with `return state`")
    return has_dict, dict_keeps, slot_keeps, emptied


def c_cell_state():
    has_dict, dict_keeps, slot_keeps, emptied = _cell_getstate()
    return ("Definition gen_c19_cell_state_has_dict : bool := " + ("true" if has_dict else "false") + ".\n"
            f"Definition gen_c19_cell_dict_keeps : Z -> bool := {dict_keeps}.\n"
            f"Definition gen_c19_cell_state_slots : list Z := filter ({slot_keeps}) gen_c19_cell_slots.\n"
            "Definition gen_c19_cell_emptied : list Z := [" + "; ".join(map(str, emptied)) + "].")


ADD_AGENT_SKELETON = [
    "v0 = len(self._agents)",
    "self.empty = False",
    "if self.capacity and v0 >= self.capacity:\n    raise Exception(<msg>)",
    "self._agents.append(agent)",
]
REMOVE_AGENT_SKELETON = ["self._agents.remove(agent)", "self.empty = self.is_empty"]


def c_cell_add_remove():
    """Cell.add_agent / remove_agent as transcribed by Model/Copy.v:add_agent / remove_agent (count, `empty` write BEFORE
    the capacity test, append;  remove, `empty` write) - modulo local names, the message text, docstrings, comments"""
    for name, want in (("add_agent", ADD_AGENT_SKELETON), ("remove_agent", REMOVE_AGENT_SKELETON)):
        fn = _norm(_func(CELL, name, "Cell"))
        if [a.arg for a in fn.args.args] != ["self", "agent"]:
            raise T.Broken(f"Cell.{name}: unexpected parameters")
        got = [_msg(ast.unparse(st)) for st in _stmts(fn)]
        if got != want:
            diff = [f"{a!r} != {b!r}" for a, b in zip(got, want) if a != b] or [f"{len(got)} statements, expected {len(want)}"]
            raise T.Broken(f"statement skeleton of Cell.{name} changed: " + diff[0][:200])
    return "Definition gen_c19_cell_add_remove_skeleton_ok : bool := true."


# ------------------------------------------------------------------ grid.py: the copyreg hook
# skeletons are compared modulo the names of local variables (v0, v1, ... in order of first binding), docstrings, comments
PICKLE_SKELETON = [
    "v0, v1 = obj.__getstate__()",
    "v1 = <filtered slots>",
    "return (unpickle_gridcell, (obj.__class__.__bases__[0],), (<dict part>, v1))",
]
UNPICKLE_SKELETON = [
    "v0 = type('GridCell', (parent,), {'_mesa_properties': set()})",
    "v1 = v0.__new__(v0)",
    "if fields is not None:\n    for v2, v3 in fields[1].items():\n        if <legacy filter>:\n            setattr(v1, v2, v3)",
    "return v1",
]


def _pickle_parts():
    fn = _norm(_func(GRID, "pickle_gridcell"))
    sts = _stmts(fn)
    if [a.arg for a in fn.args.args] != ["obj"] or len(sts) != 3:
        raise T.Broken("pickle_gridcell: expected (obj) and three statements")
    if ast.unparse(sts[0]) != PICKLE_SKELETON[0]:
        raise T.Broken("pickle_gridcell: first statement changed: " + ast.unparse(sts[0])[:80])
    if not (isinstance(sts[1], ast.Assign) and ast.unparse(sts[1].targets[0]) == "v1"):
        raise T.Broken("pickle_gridcell: expected `slots = {...}`")
    src, keeps = _dictcomp_filter(sts[1].value, SLOT, "pickle_gridcell")
    if src != "v1":
        raise T.Broken("pickle_gridcell filters something else than the slots state")
    r = sts[2]
    if not (isinstance(r, ast.Return) and isinstance(r.value, ast.Tuple) and len(r.value.elts) == 3
            and isinstance(r.value.elts[2], ast.Tuple) and len(r.value.elts[2].elts) == 2):
        raise T.Broken("pickle_gridcell: expected `return f, (base,), (dict part, slots)`")
    d = r.value.elts[2].elts[0]
    if isinstance(d, ast.Constant) and d.value is None:
        has_dict = False
    elif isinstance(d, ast.Name) and d.id == "v0":
        has_dict = True
    else:
        raise T.Broken("pickle_gridcell: dict part of the state is neither None nor the __getstate__ dict")
    shape = ast.unparse(ast.Return(value=ast.Tuple(elts=[r.value.elts[0], r.value.elts[1],
                                                         ast.Tuple(elts=[ast.Name(id="DICT"), r.value.elts[2].elts[1]], ctx=ast.Load())],
                                                   ctx=ast.Load())))
    if shape.replace("DICT", "<dict part>") != PICKLE_SKELETON[2]:
        raise T.Broken("pickle_gridcell: reduce value changed: " + shape[:120])
    return keeps, has_dict


def c_gridcell_pickle():
    keeps, has_dict = _pickle_parts()
    return (f"Definition gen_c19_gridcell_keeps : Z -> bool := {keeps}.\n"
            "Definition gen_c19_gridcell_state_has_dict : bool := " + ("true" if has_dict else "false") + ".")


def c_gridcell_unpickle():
    fn = _norm(_func(GRID, "unpickle_gridcell"))
    sts = _stmts(fn)
    if [a.arg for a in fn.args.args] != ["parent", "fields"] or len(sts) != 4:
        raise T.Broken("unpickle_gridcell: expected (parent, fields=None) and four statements")
    legacy = sts[2]
    try:
        inner = legacy.body[0].body[0]
        kvar = legacy.body[0].target.elts[0].id
        cond = inner.test
        got = [ast.unparse(sts[0]), ast.unparse(sts[1]), None, ast.unparse(sts[3])]
        inner.test = ast.Name(id="LEGACY", ctx=ast.Load())
        got[2] = ast.unparse(legacy).replace("LEGACY", "<legacy filter>")
    except (AttributeError, IndexError):
        raise T.Broken("unpickle_gridcell: legacy branch changed shape") from None
    if got != UNPICKLE_SKELETON:
        diff = [f"{a!r} != {b!r}" for a, b in zip(got, UNPICKLE_SKELETON) if a != b]
        raise T.Broken("unpickle_gridcell changed: " + diff[0][:200])
    try:
        c = Tr(SLOT).bexpr(cond)
    except pyexpr.Unsupported as e:
        raise T.Broken(f"unpickle_gridcell: legacy filter outside the translated subset: {e}") from None
    return (f"Definition gen_c19_gridcell_legacy_keeps : Z -> bool := fun {kvar} : Z => {c}.\n"
            "Definition gen_c19_gridcell_reduce_skeleton_ok : bool := true.")


# ------------------------------------------------------------------ grid.py: Grid.__getstate__ / __setstate__
def c_grid_getstate():
    fn = _norm(_func(GRID, "__getstate__", "Grid"))
    sts = _stmts(fn)
    if len(sts) != 3 or ast.unparse(sts[0]) != "v0 = super().__getstate__()" or ast.unparse(sts[2]) != "return v0" \
            or not (isinstance(sts[1], ast.Assign) and ast.unparse(sts[1].targets[0]) == "v0"):
        raise T.Broken("Grid.__getstate__: expected state = super().__getstate__(); state = {...}; return state")
    src, keeps = _dictcomp_filter(sts[1].value, ATTR, "Grid.__getstate__")
    if src != "v0":
        raise T.Broken("Grid.__getstate__ filters something else than the state")
    return f"Definition gen_c19_grid_state_keeps : Z -> bool := {keeps}."


SETSTATE_SKELETON = [
    "self.__dict__ = state",
    "self._connect_cells()",
    "self.cell_klass = type(next(iter(self._cells.values())))",
    "copyreg.pickle(self.cell_klass, pickle_gridcell)",
    "<class loop over self._cells.values()>",
    "<descriptor loop over self._mesa_property_layers.values()>",
]


def _setstate_loops():
    fn = _norm(_func(GRID, "__setstate__", "Grid"))
    sts = _stmts(fn)
    if [a.arg for a in fn.args.args] != ["self", "state"]:
        raise T.Broken("Grid.__setstate__: unexpected parameters")
    got, loops = [], {}
    for st in sts:
        if isinstance(st, ast.For) and not st.orelse and isinstance(st.target, ast.Name):
            it = ast.unparse(st.iter)
            if it == "self._cells.values()":
                got.append(SETSTATE_SKELETON[4])
                loops["cells"] = st
                continue
            if it == "self._mesa_property_layers.values()":
                got.append(SETSTATE_SKELETON[5])
                loops["layers"] = st
                continue
        got.append(ast.unparse(st))
    if got != SETSTATE_SKELETON:
        diff = [f"{a!r} != {b!r}" for a, b in zip(got, SETSTATE_SKELETON) if a != b] or [f"{len(got)} statements, expected {len(SETSTATE_SKELETON)}"]
        raise T.Broken("statement skeleton of Grid.__setstate__ changed: " + diff[0][:200])
    return loops


def _rewrite_inserts(stmts, var, which):
    """rewrite the insertion statements of one kind into  D[key] = True ; drop those of the other kinds"""
    out = []
    for st in stmts:
        src = ast.unparse(st)
        kind = None
        key = None
        if isinstance(st, ast.Expr) and isinstance(st.value, ast.Call):
            c = st.value
            f = ast.unparse(c.func)
            if f == "setattr" and len(c.args) == 3 and ast.unparse(c.args[0]) == "self.cell_klass" \
                    and ast.unparse(c.args[2]) == f"PropertyDescriptor({var})":
                kind, key = "descr", ast.Tuple(elts=[c.args[1], ast.Name(id=var, ctx=ast.Load())], ctx=ast.Load())
            elif f == "self.cell_klass._mesa_properties.add" and len(c.args) == 1:
                kind, key = "props", c.args[0]
            else:
                raise T.Broken(f"Grid.__setstate__: unexpected call {src[:80]!r} in a loop")
        elif isinstance(st, ast.Assign) and ast.unparse(st.targets[0]) == f"{var}.__class__":
            kind, key = "classes", ast.Tuple(elts=[ast.Name(id=var, ctx=ast.Load()), st.value], ctx=ast.Load())
        if kind is None:
            if isinstance(st, ast.If):
                st = ast.If(test=st.test, body=_rewrite_inserts(st.body, var, which) or [ast.Pass()],
                            orelse=_rewrite_inserts(st.orelse, var, which))
            out.append(st)
        elif kind == which:
            out.append(ast.Assign(targets=[ast.Subscript(value=ast.Name(id="D", ctx=ast.Load()), slice=key, ctx=ast.Store())],
                                  value=ast.Constant(value=True)))
    return out


class CollectTr(Tr):
    """collector whose keys may be single values (props) as well as pairs"""

    def collect(self, stmts, dict_name):
        if stmts and isinstance(stmts[0], ast.Pass):
            return self.collect(stmts[1:], dict_name)
        s = stmts[0] if stmts else None
        if isinstance(s, ast.Assign) and isinstance(s.targets[0], ast.Subscript) and isinstance(s.targets[0].value, ast.Name) \
                and s.targets[0].value.id == dict_name:
            key, _ = self.expr(s.targets[0].slice)
            return f"({key} :: {self.collect(stmts[1:], dict_name)})"
        return super().collect(stmts, dict_name)


def _loop_term(loop, which, param):
    var = loop.target.id
    tr = CollectTr(LAYERNAME, attr_map={"cell_klass": "klass"}, list_names={param: "Z"})
    tr.obj_names = {var}
    tr.range_names = {}
    body = _rewrite_inserts(list(loop.body), var, which)
    new = ast.For(target=ast.Name(id=var, ctx=ast.Store()), iter=ast.Name(id=param, ctx=ast.Load()), body=body or [ast.Pass()], orelse=[])
    try:
        return tr.collect([new], "D")
    except pyexpr.Unsupported as e:
        raise T.Broken(f"Grid.__setstate__: loop outside the translated subset: {e}") from None


def c_setstate_classes():
    loops = _setstate_loops()
    t = _loop_term(loops["cells"], "classes", "cells")
    return f"Definition gen_c19_setstate_classes (klass : nat) (cells : list nat) : list (nat * nat) :=\n  {t}."


def c_setstate_descr():
    loops = _setstate_loops()
    t = _loop_term(loops["layers"], "descr", "layers")
    p = _loop_term(loops["layers"], "props", "layers")
    return (f"Definition gen_c19_setstate_descr (lname : nat -> Z) (layers : list nat) : list (Z * nat) :=\n  {t}.\n"
            f"Definition gen_c19_setstate_props (lname : nat -> Z) (layers : list nat) : list Z :=\n  {p}.\n"
            "Definition gen_c19_grid_setstate_skeleton_ok : bool := true.")


# ------------------------------------------------------------------ discrete_space.py
def c_dspace_setstate():
    cls = T._find_class(T._parse(DSPACE), "DiscreteSpace")
    names = [n.name for n in cls.body if isinstance(n, ast.FunctionDef)]
    if "__getstate__" in names or "__reduce__" in names or "__reduce_ex__" in names or "__deepcopy__" in names:
        raise T.Broken("DiscreteSpace defines its own __getstate__/__reduce__/__deepcopy__: the copy model assumes the default")
    fn = _norm(T._find_func(cls, "__setstate__"))
    got = [ast.unparse(s) for s in _stmts(fn)]
    want = ["self.__dict__ = state", "self._connect_cells()"]
    if got != want:
        raise T.Broken(f"DiscreteSpace.__setstate__ changed: {got}")
    return "Definition gen_c19_dspace_setstate_skeleton_ok : bool := true."


# ------------------------------------------------------------------ agent.py
def c_agentset():
    cls = T._find_class(T._parse(AGENT), "AgentSet")
    gs = _stmts(_norm(T._find_func(cls, "__getstate__")))
    if len(gs) != 1 or not (isinstance(gs[0], ast.Return) and isinstance(gs[0].value, ast.Dict)):
        raise T.Broken("AgentSet.__getstate__: expected a single `return {...}`")
    d = {k.value: v for k, v in zip(gs[0].value.keys, gs[0].value.values) if isinstance(k, ast.Constant)}
    if set(d) != {"agents", "random"} or ast.unparse(d["random"]) != "self.random":
        raise T.Broken("AgentSet.__getstate__: expected the keys 'agents' and 'random' (= self.random)")
    # the member list: list(self._agents.keys()) is the key list in dict order; anything else is not translated
    src = ast.unparse(d["agents"])
    if src in ("list(self._agents.keys())", "list(self._agents)", "[*self._agents.keys()]", "[*self._agents]"):
        members = "ms"
    elif src in ("list(reversed(self._agents.keys()))", "list(self._agents.keys())[::-1]"):
        members = "(rev ms)"
    else:
        raise T.Broken(f"AgentSet.__getstate__: member list {src!r} is outside the translated subset")
    ss = [ast.unparse(s) for s in _stmts(_norm(T._find_func(cls, "__setstate__")))]
    if sorted(ss) != sorted(["self.random = state['random']", "self._update(state['agents'])"]):
        raise T.Broken(f"AgentSet.__setstate__ changed: {ss}")
    up = _stmts(_norm(T._find_func(cls, "_update")))
    if len(up) != 2 or ast.unparse(up[1]) != "return self" or not isinstance(up[0], ast.Assign) \
            or ast.unparse(up[0].targets[0]) != "self._agents":
        raise T.Broken("AgentSet._update: expected `self._agents = ...; return self`")
    v = up[0].value
    if not (isinstance(v, ast.Call) and ast.unparse(v.func) == "weakref.WeakKeyDictionary" and len(v.args) == 1
            and isinstance(v.args[0], ast.DictComp)):
        raise T.Broken("AgentSet._update: expected weakref.WeakKeyDictionary({...})")
    dc = v.args[0]
    g = dc.generators[0]
    if len(dc.generators) != 1 or g.ifs or not isinstance(g.target, ast.Name) or ast.unparse(dc.key) != g.target.id \
            or not (isinstance(dc.value, ast.Constant) and dc.value.value is None) or ast.unparse(g.iter) != "agents":
        raise T.Broken("AgentSet._update: expected {agent: None for agent in agents}")
    return (f"Definition gen_c19_aset_state_members (ms : list nat) : list nat := {members}.\n"
            "Definition gen_c19_aset_update (agents : list nat) : list nat := dedup_first Nat.eqb agents.\n"
            "Definition gen_c19_aset_skeleton_ok : bool := true.")


CONSTRUCTS = [
    ("c19_cell_slots", CELL, c_cell_slots, lambda: "Definition gen_c19_cell_slots : list Z := []."),
    ("c19_cell_getstate", CELL, c_cell_state,
     lambda: "Definition gen_c19_cell_state_has_dict : bool := false.\nDefinition gen_c19_cell_dict_keeps : Z -> bool := fun _ => false.\n"
             "Definition gen_c19_cell_state_slots : list Z := [].\n"
             "Definition gen_c19_cell_emptied : list Z := []."),
    ("c19_cell_add_remove", CELL, c_cell_add_remove, lambda: "Definition gen_c19_cell_add_remove_skeleton_ok : bool := false."),
    ("c19_gridcell_pickle", GRID, c_gridcell_pickle,
     lambda: "Definition gen_c19_gridcell_keeps : Z -> bool := fun _ => false.\nDefinition gen_c19_gridcell_state_has_dict : bool := true."),
    ("c19_gridcell_unpickle", GRID, c_gridcell_unpickle,
     lambda: "Definition gen_c19_gridcell_legacy_keeps : Z -> bool := fun _ => false.\n"
             "Definition gen_c19_gridcell_reduce_skeleton_ok : bool := false."),
    ("c19_grid_getstate", GRID, c_grid_getstate, lambda: "Definition gen_c19_grid_state_keeps : Z -> bool := fun _ => false."),
    ("c19_grid_setstate_classes", GRID, c_setstate_classes,
     lambda: "Definition gen_c19_setstate_classes (klass : nat) (cells : list nat) : list (nat * nat) := []."),
    ("c19_grid_setstate_descr", GRID, c_setstate_descr,
     lambda: "Definition gen_c19_setstate_descr (lname : nat -> Z) (layers : list nat) : list (Z * nat) := [].\n"
             "Definition gen_c19_setstate_props (lname : nat -> Z) (layers : list nat) : list Z := [].\n"
             "Definition gen_c19_grid_setstate_skeleton_ok : bool := false."),
    ("c19_dspace_setstate", DSPACE, c_dspace_setstate, lambda: "Definition gen_c19_dspace_setstate_skeleton_ok : bool := false."),
    ("c19_agentset_state", AGENT, c_agentset,
     lambda: "Definition gen_c19_aset_state_members (ms : list nat) : list nat := [].\n"
             "Definition gen_c19_aset_update (agents : list nat) : list nat := [].\n"
             "Definition gen_c19_aset_skeleton_ok : bool := false."),
]
