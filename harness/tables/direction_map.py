"""T1 extractor for Grid2DMovingAgent.DIRECTION_MAP (mesa/discrete_space/cell_agent.py).

Emits  gen_direction_map : list (list Z * list Z)  - (ASCII codes of the key, move vector) in source
order.  Fail closed: the class attribute must be one dict literal whose keys are plain ASCII str
constants and whose values are tuples of int constants."""
import ast
import os

REPO = os.environ.get("VERIF_REPO", "/repo")
SRC = "mesa/discrete_space/cell_agent.py"


class _Broken(Exception):
    pass


def _broken():
    # the translator's own Broken class lives in the module that loads us; any exception is
    # treated as "broken" there, so a local one is enough
    return _Broken


def read_direction_map():
    path = os.path.join(REPO, SRC)
    with open(path) as f:
        tree = ast.parse(f.read(), filename=path)
    cls = [n for n in tree.body if isinstance(n, ast.ClassDef) and n.name == "Grid2DMovingAgent"]
    if len(cls) != 1:
        raise _Broken("class Grid2DMovingAgent not found exactly once")
    assigns = [n for n in cls[0].body if isinstance(n, ast.Assign) and len(n.targets) == 1
               and isinstance(n.targets[0], ast.Name) and n.targets[0].id == "DIRECTION_MAP"]
    if len(assigns) != 1:
        raise _Broken(f"expected exactly one class-level assignment to DIRECTION_MAP, found {len(assigns)}")
    d = assigns[0].value
    if not isinstance(d, ast.Dict):
        raise _Broken("DIRECTION_MAP is not a dict literal")
    out = []
    for k, v in zip(d.keys, d.values):
        if not (isinstance(k, ast.Constant) and isinstance(k.value, str) and k.value.isascii()):
            raise _Broken("a key is not an ASCII string constant")
        try:
            vec = ast.literal_eval(v)
        except Exception as e:  # noqa: BLE001
            raise _Broken(f"a value is not a literal: {e}") from None
        if not (isinstance(vec, tuple) and vec and all(isinstance(c, int) and not isinstance(c, bool) for c in vec)):
            raise _Broken("a value is not a tuple of ints")
        out.append((k.value, vec))
    if len({k for k, _ in out}) != len(out):
        raise _Broken("duplicate keys in the dict literal")
    # the method must still look the (lower-cased) name up in this very table
    fn = [n for n in cls[0].body if isinstance(n, ast.FunctionDef) and n.name == "move"]
    if len(fn) != 1:
        raise _Broken("Grid2DMovingAgent.move not found")
    import pyexpr

    src = "\n".join(pyexpr.normalized_statements(fn[0]))     # modulo local names, docstring, comments, formatting
    if "self.DIRECTION_MAP[direction]" not in src or "direction.lower()" not in src:
        raise _Broken("Grid2DMovingAgent.move no longer reads self.DIRECTION_MAP[direction.lower()]")
    return out


def _z(n):
    return f"({n})" if n < 0 else str(n)


def c_direction_map():
    rows = read_direction_map()
    items = []
    for name, vec in rows:
        codes = "[" + "; ".join(str(ord(ch)) for ch in name) + "]"
        v = "[" + "; ".join(_z(c) for c in vec) + "]"
        items.append(f"  ({codes}, {v}) (* {name} *)")
    return "Definition gen_direction_map : list (list Z * list Z) := [\n" + ";\n".join(items) + "\n]."


def fb_direction_map():
    return "Definition gen_direction_map : list (list Z * list Z) := []."


HEADER = ""
CONSTRUCTS = [("direction_map", SRC, c_direction_map, fb_direction_map)]
