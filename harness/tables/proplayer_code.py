"""T1 (code level) for the property-layer code: mesa/discrete_space/property_layer.py and the
PropertyLayer / _PropertyGrid classes of mesa/space.py.

The bodies of set_cells, modify_cells, modify_cell, add_property_layer, remove_property_layer,
PropertyDescriptor.__get__/__set__, the loop body of the extreme-value stage of select_cells,
get_neighborhood_mask and ufunc_requires_additional_input are TRANSLATED statement by statement from the
working tree into executable Gallina (`gen_*` in Generated/Tables.v): control flow, the order of the
validations, which exception is raised where, the ufunc-arity test, the dispatch on the kind of operation,
which array is indexed by what.  NumPy / dict / set primitives (`np.where`, `np.copyto`, `np.vectorize(f)(a)`,
masked max/min, `d[k] = v`, `del d[k]`, ...) become calls of the small list-function library of HEADER (that
library is the hand-written, trusted model of NumPy; everything around it is regenerated).
Proofs/PropLayerBridge.v proves `model function = generated function`.

The translator is a subclass of pyexpr.Tr (int / bool sub-expressions go to pyexpr unchanged); statements are
turned into a `gres` valued term: `GOk state` on normal completion, `GErr kind state` at a `raise` (kind: 1
ValueError, 2 KeyError, 3 IndexError, 4 AttributeError) with the state the code has reached.  Anything outside
the handled forms raises Unsupported -> translator-broken (fail closed)."""
import ast
import re

import pyexpr
import translate as T

PL = "mesa/discrete_space/property_layer.py"
SP = "mesa/space.py"

HEADER = r"""From Mesa Require Import Common.ListX.
(* ---- list-function model of the NumPy / dict / set primitives used by the translated property-layer code ---- *)
Definition gcoord := list Z.
Fixpoint gcoord_eqb (a b : gcoord) : bool :=
  match a, b with
  | [], [] => true
  | x :: a', y :: b' => (x =? y) && gcoord_eqb a' b'
  | _, _ => false
  end.
Definition garr := list (gcoord * Z).
Definition gmask := list (gcoord * bool).
Inductive gres (A : Type) := GOk (a : A) | GErr (kind : Z) (a : A).
Arguments GOk {A}. Arguments GErr {A}.
Definition g_norm_ix (d i : Z) : option Z :=
  if (0 <=? i) && (i <? d) then Some i
  else if (- d <=? i) && (i <? 0) then Some (i + d) else None.
Fixpoint g_norm_coord (dims : list Z) (c : gcoord) : option gcoord :=
  match dims, c with
  | [], [] => Some []
  | d :: dt, x :: ct =>
      match g_norm_ix d x, g_norm_coord dt ct with
      | Some x', Some r => Some (x' :: r)
      | _, _ => None
      end
  | _, _ => None
  end.
Fixpoint g_lookup {V : Type} (a : list (gcoord * V)) (c : gcoord) : option V :=
  match a with
  | [] => None
  | (k, x) :: t => if gcoord_eqb k c then Some x else g_lookup t c
  end.
(* a[pos] / a[pos] = v on an array of shape dims *)
Definition g_getitem (dims : list Z) (a : garr) (pos : gcoord) : option Z :=
  match g_norm_coord dims pos with Some c => g_lookup a c | None => None end.
Definition g_setitem (dims : list Z) (a : garr) (pos : gcoord) (v : Z) : option garr :=
  match g_norm_coord dims pos with
  | Some c => Some (map (fun kx => if gcoord_eqb (fst kx) c then (fst kx, v) else kx) a)
  | None => None
  end.
Definition g_ones_like (a : garr) : gmask := map (fun kx => (fst kx, true)) a.
Definition g_vec_b (f : Z -> bool) (a : garr) : gmask := map (fun kx => (fst kx, f (snd kx))) a.
Definition g_vec (f : Z -> Z) (a : garr) : garr := map (fun kx => (fst kx, f (snd kx))) a.
(* np.where(c, x, y), np.copyto(a, v), np.copyto(a, v, where=c): elementwise *)
Definition g_where (c : gmask) (x y : garr) : garr :=
  map (fun p : (gcoord * bool) * ((gcoord * Z) * (gcoord * Z)) => (fst (snd (snd p)), if snd (fst p) then snd (fst (snd p)) else snd (snd (snd p))))
      (combine c (combine x y)).
Definition g_copyto (a : garr) (v : Z) : garr := map (fun kx => (fst kx, v)) a.
Definition g_copyto_where (a : garr) (v : Z) (c : gmask) : garr :=
  map (fun p : (gcoord * Z) * (gcoord * bool) => (fst (fst p), if snd (snd p) then v else snd (fst p))) (combine a c).
Fixpoint g_shape_eqb (a b : list gcoord) : bool :=
  match a, b with
  | [], [] => true
  | x :: a', y :: b' => gcoord_eqb x y && g_shape_eqb a' b'
  | _, _ => false
  end.
Definition g_shape {V : Type} (a : list (gcoord * V)) : list gcoord := map fst a.
(* ~m, np.ma.masked_array(a, mask=m) (True = masked out), masked .max() / .min(), a == t, logical_and *)
Definition g_not (m : gmask) : gmask := map (fun kb => (fst kb, negb (snd kb))) m.
Definition g_masked (a : garr) (m : gmask) : list (option Z) :=
  map (fun p : (gcoord * Z) * (gcoord * bool) => if snd (snd p) then None else Some (snd (fst p))) (combine a m).
Definition g_ma_fold (f : Z -> Z -> Z) (l : list (option Z)) : option Z :=
  fold_left (fun acc o => match o, acc with
                          | Some v, Some w => Some (f w v)
                          | Some v, None => Some v
                          | None, _ => acc
                          end) l None.
Definition g_ma_max := g_ma_fold Z.max.
Definition g_ma_min := g_ma_fold Z.min.
Definition g_eq_opt (a : garr) (t : option Z) : gmask :=
  map (fun kx => (fst kx, match t with Some v => snd kx =? v | None => false end)) a.
Definition g_and (m e : gmask) : gmask := map (fun p : (gcoord * bool) * (gcoord * bool) => (fst (fst p), snd (fst p) && snd (snd p))) (combine m e).
(* dict / set / class attributes: names are Z codes, values object ids *)
Definition g_dict_mem (k : Z) (d : list (Z * Z)) : bool := existsb (fun kv => k =? fst kv) d.
Definition g_dict_set (d : list (Z * Z)) (k v : Z) : list (Z * Z) :=
  if g_dict_mem k d then map (fun kv => if k =? fst kv then (k, v) else kv) d else d ++ [(k, v)].
Definition g_dict_del (d : list (Z * Z)) (k : Z) : list (Z * Z) := filter (fun kv => negb (k =? fst kv)) d.
Definition g_set_mem (k : Z) (s : list Z) : bool := existsb (Z.eqb k) s.
Definition g_set_add (s : list Z) (k : Z) : list Z := if g_set_mem k s then s else s ++ [k].
Definition g_set_remove (s : list Z) (k : Z) : list Z := filter (fun x => negb (k =? x)) s.
(* hasattr(cell_klass, name): attributes every Cell has (name codes >= 100) or a descriptor installed on the class *)
Definition g_hasattr (k : Z) (descr : list (Z * Z)) : bool := (100 <=? k) || g_dict_mem k descr.
(* np.zeros(dims, dtype=bool) and mask[<the coordinates>] = True *)
Fixpoint g_all_coords (dims : list Z) : list gcoord :=
  match dims with
  | [] => [[]]
  | d :: t => flat_map (fun x => map (cons x) (g_all_coords t)) (zrange 0 (d - 1))
  end.
Definition g_zeros (dims : list Z) : gmask := map (fun c => (c, false)) (g_all_coords dims).
Definition g_set_many (m : gmask) (cs : list gcoord) : gmask :=
  map (fun kb => (fst kb, snd kb || existsb (gcoord_eqb (fst kb)) cs)) m.
"""

EXC = {"ValueError": 1, "KeyError": 2, "IndexError": 3, "AttributeError": 4}
U = pyexpr.Unsupported


class PLTr(pyexpr.Tr):
    """kinds: Z bool arr (Z array) barr (bool array) marr (masked) optZ vcond vop coords dims"""

    def __init__(self, data_attr, kinds=None, state="data", **kw):
        super().__init__(**kw)
        self.data_attr = data_attr           # "_mesa_data" / "data"
        self.kinds = dict(kinds or {})
        self.state = state                   # Gallina text of the state tuple at completion / at a raise

    # ------------------------------------------------------------ expressions
    def expr(self, e):
        u = ast.unparse(e)
        if u == f"self.{self.data_attr}" or u == "self.layer.data":
            return "data", "arr"
        if isinstance(e, ast.Name) and e.id in self.kinds:
            return e.id, self.kinds[e.id]
        if isinstance(e, ast.Constant) and isinstance(e.value, str) and e.value in ("highest", "lowest"):
            return ("0" if e.value == "highest" else "1"), "Z"
        if isinstance(e, ast.Compare) and len(e.ops) == 1:
            l, r, op = e.left, e.comparators[0], e.ops[0]
            if isinstance(op, (ast.Is, ast.IsNot)) and isinstance(r, ast.Constant) and r.value is None and isinstance(l, ast.Name):
                flag = {"condition": "has_condition", "condition_function": "has_condition", "value": "has_value"}.get(l.id)
                if flag is None:
                    raise U(f"`{u}`")
                return (f"(negb {flag})" if isinstance(op, ast.Is) else flag), "bool"
            if isinstance(op, (ast.In, ast.NotIn)):
                key, kk = self.expr(l)
                d, kd = self.expr(r)
                if kk != "Z" or kd != "dict":
                    raise U(f"membership `{u}`")
                t = f"(g_dict_mem {key} {d})"
                return (t if isinstance(op, ast.In) else f"(negb {t})"), "bool"
            if isinstance(op, (ast.Eq, ast.NotEq)):
                a, ka = self.expr(l)
                b, kb = self.expr(r)
                if ka == "arr" and kb == "optZ" and isinstance(op, ast.Eq):
                    return f"(g_eq_opt {a} {b})", "barr"
                if ka == "dims" and kb == "dims":
                    t = f"(gcoord_eqb {a} {b})"
                    return (t if isinstance(op, ast.Eq) else f"(negb {t})"), "bool"
                if ka == "shape" and kb == "shape":
                    t = f"(g_shape_eqb {a} {b})"
                    return (t if isinstance(op, ast.Eq) else f"(negb {t})"), "bool"
        if isinstance(e, ast.Attribute):
            if u in self.attr_paths:
                return self.attr_paths[u]
            if e.attr == "shape":
                a, ka = self.expr(e.value)
                if ka in ("arr", "barr"):
                    return f"(g_shape {a})", "shape"
            if e.attr == "nin" and isinstance(e.value, ast.Name):
                return "nin", "Z"
        if isinstance(e, ast.UnaryOp) and isinstance(e.op, ast.Invert):
            a, ka = self.expr(e.operand)
            if ka == "barr":
                return f"(g_not {a})", "barr"
            raise U("~ on a non-mask")
        if isinstance(e, ast.Call):
            f = ast.unparse(e.func)
            args = e.args
            kws = {k.arg: k.value for k in e.keywords}
            if f == "np.ones_like" and len(args) == 1 and list(kws) == ["dtype"] and ast.unparse(kws["dtype"]) == "bool":
                a, ka = self.expr(args[0])
                if ka == "arr":
                    return f"(g_ones_like {a})", "barr"
            if f == "np.vectorize" and len(args) == 1 and not kws and isinstance(args[0], ast.Name):
                n = args[0].id
                if n in ("condition", "condition_function"):
                    return "condition", "vcond"
                if n == "operation":
                    return "op1", "vop"
            if f == "isinstance" and len(args) == 2:
                t = (ast.unparse(args[0]), ast.unparse(args[1]))
                if t == ("operation", "np.ufunc"):
                    return "op_is_ufunc", "bool"
                if t in (("condition", "np.ufunc"), ("condition_function", "np.ufunc")):
                    return "cond_is_ufunc", "bool"
                if t[1] == "np.ndarray":
                    a, ka = self.expr(args[0])
                    if ka in ("arr", "barr"):
                        return "true", "bool"
            if f == "ufunc_requires_additional_input" and [ast.unparse(a) for a in args] == ["operation"] and not kws:
                return "(gen_ufunc_requires_additional_input op_nin)", "bool"
            if f == "is_single_argument_function" and [ast.unparse(a) for a in args] == ["operation"] and not kws:
                return "op_single_arg", "bool"
            if f == "hasattr" and len(args) == 2 and ast.unparse(args[0]) == "self.cell_klass":
                k, kk = self.expr(args[1])
                if kk == "Z":
                    return f"(g_hasattr {k} descr)", "bool"
            if f == "np.where" and len(args) == 3 and not kws:
                (c, kc), (a, ka), (b, kb) = (self.expr(x) for x in args)
                if (kc, ka, kb) == ("barr", "arr", "arr"):
                    return f"(g_where {c} {a} {b})", "arr"
            if f == "np.logical_and" and len(args) == 2 and not kws:
                (a, ka), (b, kb) = (self.expr(x) for x in args)
                if (ka, kb) == ("barr", "barr"):
                    return f"(g_and {a} {b})", "barr"
            if f == "np.ma.masked_array" and len(args) == 1 and list(kws) == ["mask"]:
                a, ka = self.expr(args[0])
                m, km = self.expr(kws["mask"])
                if (ka, km) == ("arr", "barr"):
                    return f"(g_masked {a} {m})", "marr"
            if isinstance(e.func, ast.Attribute) and e.func.attr in ("max", "min") and not args and not kws:
                a, ka = self.expr(e.func.value)
                if ka == "marr":
                    return f"(g_ma_{e.func.attr} {a})", "optZ"
            # calling the (vectorised) condition / operation
            callee = None
            if isinstance(e.func, ast.Name):
                callee = self.kinds.get(e.func.id) or {"condition": "vcond", "condition_function": "vcond", "operation": "vop"}.get(e.func.id)
            if callee == "vcond" and len(args) == 1 and not kws:
                a, ka = self.expr(args[0])
                if ka == "arr":
                    return f"(g_vec_b condition {a})", "barr"
            if callee == "vop" and not kws and 1 <= len(args) <= 2:
                a, ka = self.expr(args[0])
                fn = "op1"
                if len(args) == 2:
                    if ast.unparse(args[1]) != "value":
                        raise U("second argument of the operation is not `value`")
                    fn = "op2"
                if ka == "arr":
                    return f"(g_vec {fn} {a})", "arr"
                if ka == "Z":
                    return f"({fn} {a})", "Z"
            if f == "len" and len(args) == 1 and not kws and ast.unparse(args[0]) == "neighborhood":
                return "(Z.of_nat (length neighborhood))", "Z"
            if f == "np.zeros" and len(args) == 1 and list(kws) == ["dtype"] and ast.unparse(kws["dtype"]) == "bool":
                a = ast.unparse(args[0])
                if a in ("self.dimensions", "(self.width, self.height)"):
                    return "(g_zeros dims)", "barr"
        return super().expr(e)

    attr_paths = {}

    # ------------------------------------------------------------ statements
    def run(self, stmts):
        if not stmts:
            return f"(GOk {self.state})"
        s, rest = stmts[0], stmts[1:]
        u = ast.unparse(s)
        if isinstance(s, ast.Expr) and isinstance(s.value, ast.Constant) and isinstance(s.value.value, str):
            return self.run(rest)
        if isinstance(s, ast.Raise):
            name = ast.unparse(s.exc.func if isinstance(s.exc, ast.Call) else s.exc)
            if name not in EXC:
                raise U(f"raise {name}")
            return f"(GErr {EXC[name]} {self.state})"
        if isinstance(s, ast.Return):
            t, k = self.expr(s.value)
            return f"(GOk {t})"
        if isinstance(s, ast.If):
            c = self.bexpr(s.test)
            saved = dict(self.kinds)
            then_t = self.run(list(s.body) + ([] if self._terminates(s.body) else rest))
            self.kinds = dict(saved)
            els = list(s.orelse)
            else_t = self.run(els + ([] if (els and self._terminates(els)) else rest))
            self.kinds = saved
            return f"(if {c} then {then_t} else {else_t})"
        t = self.special(s, u, rest)
        if t is not None:
            return t
        if isinstance(s, ast.Assign) and len(s.targets) == 1:
            tgt = s.targets[0]
            tu = ast.unparse(tgt)
            if tu == f"self.{self.data_attr}":
                v, k = self.expr(s.value)
                if k != "arr":
                    raise U("the data attribute is assigned a non-array")
                return f"(let data := {v} in {self.run(rest)})"
            if isinstance(tgt, ast.Name):
                v, k = self.expr(s.value)
                self.kinds[tgt.id] = k
                if k == "bool":
                    self.bool_names.add(tgt.id)
                if k in ("vcond", "vop"):
                    return self.run(rest)        # np.vectorize(f): the same function, applied elementwise
                return f"(let {tgt.id} := {v} in {self.run(rest)})"
        raise U(f"statement `{u[:80]}`")

    def special(self, s, u, rest):
        return None


def _canon(fn, iface=None):
    """a copy of `fn` with its LOCAL variables renamed: those named in `iface` (source name -> the name the generated
    definition uses for it) and all others to v0, v1, ... in order of first binding (pyexpr.local_names).  Local
    names, docstrings, comments, formatting and exception messages are therefore not part of the tie: the generated
    text does not change when they do."""
    import copy

    iface = dict(iface or {})
    mapping = {}
    i = 0
    for n in pyexpr.local_names(fn):
        if n in iface:
            mapping[n] = iface[n]
        else:
            mapping[n] = f"v{i}"
            i += 1
    return pyexpr._Renamer(mapping).visit(copy.deepcopy(fn))


def _fn(rel, cls, name, params, iface=None):
    tree = T._parse(rel)
    fn = T._find_func(T._find_class(tree, cls) if cls else tree, name)
    got = [a.arg for a in fn.args.args]
    if got != params:
        raise T.Broken(f"unexpected parameters of {name}: {got}")
    return _canon(fn, iface)


def _wrap(f):
    def g():
        try:
            return f()
        except pyexpr.Unsupported as e:
            raise T.Broken(f"outside the translated subset: {e}") from None
    return g


# ------------------------------------------------------------------ ufunc arity
def _arity(rel, tag):
    fn = _fn(rel, None, "ufunc_requires_additional_input", ["ufunc"])
    tr = PLTr("data")
    body = [s for s in fn.body if not (isinstance(s, ast.Expr) and isinstance(s.value, ast.Constant))]
    if len(body) != 1 or not isinstance(body[0], ast.Return):
        raise T.Broken("ufunc_requires_additional_input is not a single return")
    t = tr.bexpr(body[0].value)
    return f"Definition gen_ufunc_nin_test_{tag} (nin : Z) : bool :=\n  {t}."


# ------------------------------------------------------------------ set_cells / modify_cells / modify_cell
class CopyTr(PLTr):
    def special(self, s, u, rest):
        if isinstance(s, ast.Expr) and isinstance(s.value, ast.Call) and ast.unparse(s.value.func) == "np.copyto":
            c = s.value
            if len(c.args) != 2 or ast.unparse(c.args[0]) != f"self.{self.data_attr}" or ast.unparse(c.args[1]) != "value":
                raise U(f"`{u}`")
            if not c.keywords:
                return f"(let data := g_copyto data value in {self.run(rest)})"
            if [k.arg for k in c.keywords] == ["where"]:
                m, km = self.expr(c.keywords[0].value)
                if km == "barr":
                    return f"(let data := g_copyto_where data value {m} in {self.run(rest)})"
            raise U(f"`{u}`")
        # self.data[position] = <expr>   /   current_value = self.data[position]
        if isinstance(s, ast.Assign) and len(s.targets) == 1:
            tgt, val = s.targets[0], s.value
            if isinstance(tgt, ast.Subscript) and ast.unparse(tgt.value) in (f"self.{self.data_attr}", "self.layer.data"):
                pos = self.position(tgt.slice)
                v, kv = self.expr(val)
                if kv != "Z":
                    raise U("stored value is not a scalar")
                return (f"(match g_setitem dims data {pos} {v} with None => GErr 3 {self.state} "
                        f"| Some data => {self.run(rest)} end)")
            if isinstance(tgt, ast.Name) and isinstance(val, ast.Subscript) and ast.unparse(val.value) in (f"self.{self.data_attr}", "self.layer.data"):
                pos = self.position(val.slice)
                self.kinds[tgt.id] = "Z"
                return (f"(match g_getitem dims data {pos} with None => GErr 3 {self.state} "
                        f"| Some {tgt.id} => {self.run(rest)} end)")
        return None

    def position(self, e):
        u = ast.unparse(e)
        if u in ("position", "instance.coordinate"):
            return "position"
        raise U(f"index `{u}`")


def _set_cells(rel, cls, attr, tag, extra_params):
    fn = _fn(rel, cls, "set_cells", ["self", "value", "condition"])
    tr = CopyTr(attr, kinds={"value": "Z"}, bool_names=["has_condition", "cond_is_ufunc"])
    t = tr.run(list(fn.body))
    return (f"Definition gen_set_cells_{tag} (data : garr) (value : Z) (has_condition {extra_params}: bool) "
            f"(condition : Z -> bool) : gres garr :=\n  {t}.")


def _modify_cells(rel, cls, attr, tag, cond_name):
    fn = _fn(rel, cls, "modify_cells", ["self", "operation", "value", cond_name])
    tr = CopyTr(attr, kinds={"value": "Z"}, bool_names=["has_condition", "has_value", "op_is_ufunc", "cond_is_ufunc"])
    t = tr.run(list(fn.body)).replace("gen_ufunc_requires_additional_input", f"gen_ufunc_nin_test_{tag}")
    return (f"Definition gen_modify_cells_{tag} (data : garr) (op_is_ufunc cond_is_ufunc : bool) (op_nin : Z) "
            f"(has_value has_condition : bool) (condition : Z -> bool) (op1 op2 : Z -> Z) : gres garr :=\n  {t}.")


def c_modify_cell():
    fn = _fn(SP, "PropertyLayer", "modify_cell", ["self", "position", "operation", "value"])
    tr = CopyTr("data", kinds={"value": "Z"}, bool_names=["has_value", "op_single_arg"])
    t = tr.run(list(fn.body))
    return (f"Definition gen_modify_cell_l (dims : list Z) (data : garr) (position : gcoord) (op_single_arg has_value : bool) "
            f"(op1 op2 : Z -> Z) : gres garr :=\n  {t}.")


def c_set_cell():
    fn = _fn(SP, "PropertyLayer", "set_cell", ["self", "position", "value"])
    tr = CopyTr("data", kinds={"value": "Z"})
    return f"Definition gen_set_cell_l (dims : list Z) (data : garr) (position : gcoord) (value : Z) : gres garr :=\n  {tr.run(list(fn.body))}."


# ------------------------------------------------------------------ PropertyDescriptor
def c_descr_get():
    fn = _fn(PL, "PropertyDescriptor", "__get__", ["self", "instance", "owner"])
    body = [s for s in fn.body if not (isinstance(s, ast.Expr) and isinstance(s.value, ast.Constant))]
    if len(body) != 1 or ast.unparse(body[0]) != "return self.layer.data[instance.coordinate]":
        raise T.Broken("PropertyDescriptor.__get__ is not `return self.layer.data[instance.coordinate]`: " + ast.unparse(body[0])[:80])
    # the layer's CURRENT array (read at access time) indexed by the cell's coordinate
    return "Definition gen_descr_get (dims : list Z) (data : garr) (position : gcoord) : option Z :=\n  (g_getitem dims data position)."


def c_descr_set():
    fn = _fn(PL, "PropertyDescriptor", "__set__", ["self", "instance", "value"])
    tr = CopyTr("data", kinds={"value": "Z"})
    return f"Definition gen_descr_set (dims : list Z) (data : garr) (position : gcoord) (value : Z) : gres garr :=\n  {tr.run(list(fn.body))}."


# ------------------------------------------------------------------ add / remove property layer
class TabTr(PLTr):
    """state = the tables; `layer.name` -> name, the layer object -> id"""

    def __init__(self, layer, dictattr, state):
        super().__init__("data", state=state)
        self.layer, self.dictattr = layer, dictattr
        self.attr_paths = {
            f"{layer}.name": ("name", "Z"), "property_name": ("name", "Z"),
            f"self.{dictattr}": ("grid", "dict"),
            f"{layer}.dimensions": ("ldims", "dims"), "self.dimensions": ("gdims", "dims"),
            f"{layer}.width": ("lw", "Z"), f"{layer}.height": ("lh", "Z"), "self.width": ("gw", "Z"), "self.height": ("gh", "Z"),
        }
        self.kinds = {"property_name": "Z"}

    def expr(self, e):
        if isinstance(e, ast.Name) and e.id == "property_name":
            return "name", "Z"
        return super().expr(e)

    def special(self, s, u, rest):
        L, D = self.layer, self.dictattr
        if u == f"self.{D}[{L}.name] = {L}":
            return f"(let grid := g_dict_set grid name id in {self.run(rest)})"
        if u == f"setattr(self.cell_klass, {L}.name, PropertyDescriptor({L}))":
            return f"(let descr := g_dict_set descr name id in {self.run(rest)})"
        if u == f"self.cell_klass._mesa_properties.add({L}.name)":
            return f"(let props := g_set_add props name in {self.run(rest)})"
        if u == f"del self.{D}[property_name]":
            return f"(if g_dict_mem name grid then (let grid := g_dict_del grid name in {self.run(rest)}) else GErr 2 {self.state})"
        if u == "delattr(self.cell_klass, property_name)":
            return f"(if g_dict_mem name descr then (let descr := g_dict_del descr name in {self.run(rest)}) else GErr 4 {self.state})"
        if u == "self.cell_klass._mesa_properties.remove(property_name)":
            return f"(if g_set_mem name props then (let props := g_set_remove props name in {self.run(rest)}) else GErr 2 {self.state})"
        return None


TABLES_D = "(list (Z * Z) * list (Z * Z) * list Z)"


def c_add_d():
    fn = _fn(PL, "HasPropertyLayers", "add_property_layer", ["self", "layer"])
    t = TabTr("layer", "_mesa_property_layers", "(grid, descr, props)").run(list(fn.body))
    return (f"Definition gen_add_layer_d (gdims ldims : gcoord) (name id : Z) (grid descr : list (Z * Z)) (props : list Z) "
            f": gres {TABLES_D} :=\n  {t}.")


def c_remove_d():
    fn = _fn(PL, "HasPropertyLayers", "remove_property_layer", ["self", "property_name"])
    t = TabTr("layer", "_mesa_property_layers", "(grid, descr, props)").run(list(fn.body))
    return (f"Definition gen_remove_layer_d (name : Z) (grid descr : list (Z * Z)) (props : list Z) : gres {TABLES_D} :=\n  {t}.")


def c_add_l():
    fn = _fn(SP, "_PropertyGrid", "add_property_layer", ["self", "property_layer"])
    t = TabTr("property_layer", "properties", "grid").run(list(fn.body))
    return f"Definition gen_add_layer_l (gw gh lw lh name id : Z) (grid : list (Z * Z)) : gres (list (Z * Z)) :=\n  {t}."


def c_remove_l():
    fn = _fn(SP, "_PropertyGrid", "remove_property_layer", ["self", "property_name"])
    t = TabTr("property_layer", "properties", "grid").run(list(fn.body))
    return f"Definition gen_remove_layer_l (name : Z) (grid : list (Z * Z)) : gres (list (Z * Z)) :=\n  {t}."


# ------------------------------------------------------------------ the extreme-value stage of select_cells
class ExtTr(PLTr):
    def special(self, s, u, rest):
        # <array> = self.<dict>[<name variable>].data : the lookup (KeyError) is the caller's; here the array is a parameter
        if re.fullmatch(r"prop_values = self\.(_mesa_property_layers|properties)\[property_name\]\.data", u):
            self.kinds["prop_values"] = "arr"
            return self.run(rest)
        return None


def _ext(rel, cls, tag):
    fn0 = T._find_func(T._find_class(T._parse(rel), cls), "select_cells")
    loops = [n for n in ast.walk(fn0) if isinstance(n, ast.For) and ast.unparse(n.iter) == "extreme_values.items()"]
    if len(loops) != 1 or loops[0].orelse or not (isinstance(loops[0].target, ast.Tuple) and len(loops[0].target.elts) == 2
                                                 and all(isinstance(x, ast.Name) for x in loops[0].target.elts)):
        raise T.Broken("expected one `for <name>, <mode> in extreme_values.items():` loop")
    # interface locals, whatever they are called: the combined mask (bound by the first statement of select_cells),
    # the two loop variables, the array looked up from the layer dict at the top of the loop body
    first = [st for st in fn0.body if isinstance(st, ast.Assign)]
    if not first or not isinstance(first[0].targets[0], ast.Name):
        raise T.Broken("select_cells does not start by binding the combined mask")
    namev, modev = (x.id for x in loops[0].target.elts)
    b0 = loops[0].body[0] if loops[0].body else None
    if not (isinstance(b0, ast.Assign) and isinstance(b0.targets[0], ast.Name)):
        raise T.Broken("the loop body does not start by looking up the layer's array")
    iface = {first[0].targets[0].id: "combined_mask", namev: "property_name", modev: "mode", b0.targets[0].id: "prop_values"}
    fn = _canon(fn0, iface)
    loops = [n for n in ast.walk(fn) if isinstance(n, ast.For) and ast.unparse(n.iter) == "extreme_values.items()"]
    tr = ExtTr("data", kinds={"combined_mask": "barr", "mode": "Z"}, state="combined_mask")
    t = tr.run(list(loops[0].body))
    return f"Definition gen_ext_step_{tag} (combined_mask : gmask) (prop_values : garr) (mode : Z) : gres gmask :=\n  {t}."


# ------------------------------------------------------------------ get_neighborhood_mask
class MaskTr(PLTr):
    """statements compared modulo local names (the function is alpha-normalised by _canon first: the neighbourhood and the
    mask get the names the generated definition uses, every other local is v0, v1, ...)"""

    def special(self, s, u, rest):
        if re.fullmatch(r"v\d+ = self\._cells\[coordinate\]", u):
            return self.run(rest)                 # the cell whose neighbourhood is asked for
        if re.fullmatch(r"neighborhood = (v\d+\.get_neighborhood\(include_center=include_center, radius=radius\)"
                        r"|self\.get_neighborhood\(pos, moore, include_center, radius\)"
                        r"|self\.get_neighborhood\(pos, include_center, radius\))", u):
            return self.run(rest)                 # the neighbourhood itself is C07 / C09: a parameter here
        m = re.fullmatch(r"(v\d+) = np\.array\((\[(v\d+)\.coordinate for \3 in neighborhood\]|neighborhood)\)", u)
        if m:
            self.kinds[m.group(1)] = "coords"
            return f"(let {m.group(1)} := neighborhood in {self.run(rest)})"
        m = re.fullmatch(r"(v\d+) = \[(v\d+)\[:, (v\d+)\] for \3 in range\(\2\.shape\[1\]\)\]", u)
        if m and self.kinds.get(m.group(2)) == "coords":
            self.kinds[m.group(1)] = "coords"
            return f"(let {m.group(1)} := {m.group(2)} in {self.run(rest)})"
        m = re.fullmatch(r"mask\[\*(v\d+),?\] = True", u)
        if m and self.kinds.get(m.group(1)) == "coords" and self.kinds.get("mask") == "barr":
            return f"(let mask := g_set_many mask {m.group(1)} in {self.run(rest)})"
        m = re.fullmatch(r"mask\[(v\d+)\[:, 0\], \1\[:, 1\]\] = True", u)
        if m and self.kinds.get(m.group(1)) == "coords" and self.kinds.get("mask") == "barr":
            return f"(let mask := g_set_many mask {m.group(1)} in {self.run(rest)})"
        return None


def _nmask(rel, cls, params, tag):
    tree = T._parse(rel)
    fn0 = T._find_func(T._find_class(tree, cls), "get_neighborhood_mask")
    if [a.arg for a in fn0.args.args] != params:
        raise T.Broken("unexpected parameters of get_neighborhood_mask")
    nb = [st.targets[0].id for st in fn0.body if isinstance(st, ast.Assign) and isinstance(st.targets[0], ast.Name)
          and isinstance(st.value, ast.Call) and ast.unparse(st.value.func).endswith("get_neighborhood")]
    mk = [st.targets[0].id for st in fn0.body if isinstance(st, ast.Assign) and isinstance(st.targets[0], ast.Name)
          and isinstance(st.value, ast.Call) and ast.unparse(st.value.func) == "np.zeros"]
    if len(nb) != 1 or len(mk) != 1:
        raise T.Broken("expected one `<nb> = ....get_neighborhood(...)` and one `<mask> = np.zeros(...)`")
    fn = _canon(fn0, {nb[0]: "neighborhood", mk[0]: "mask"})
    t = MaskTr("data", state="mask").run(list(fn.body))
    return f"Definition gen_nbhd_mask_{tag} (dims : list Z) (neighborhood : list gcoord) : gres gmask :=\n  {t}."


def c_nmask_hex():
    """legacy hex grids (fix C11-5): _HexGrid's own get_neighborhood_mask(pos, include_center, radius) when it has one,
    otherwise the method inherited from _PropertyGrid"""
    cls = T._find_class(T._parse(SP), "_HexGrid")
    own = any(isinstance(n, ast.FunctionDef) and n.name == "get_neighborhood_mask" for n in cls.body)
    if not own:
        return ("Definition gen_nbhd_mask_h (dims : list Z) (neighborhood : list gcoord) : gres gmask :=\n"
                "  gen_nbhd_mask_l dims neighborhood.\nDefinition gen_nbhd_mask_h_own : bool := false.")
    return (_nmask(SP, "_HexGrid", ["self", "pos", "include_center", "radius"], "h")
            + "\nDefinition gen_nbhd_mask_h_own : bool := true.")


def _fb(sig, val):
    return lambda: f"Definition {sig} := {val}."


E_ARR = "GErr 0 data"
CONSTRUCTS = [
    ("pl_ufunc_arity_d", PL, _wrap(lambda: _arity(PL, "d")), _fb("gen_ufunc_nin_test_d (nin : Z) : bool", "false")),
    ("pl_ufunc_arity_l", SP, _wrap(lambda: _arity(SP, "l")), _fb("gen_ufunc_nin_test_l (nin : Z) : bool", "false")),
    ("pl_set_cells_d", PL, _wrap(lambda: _set_cells(PL, "PropertyLayer", "_mesa_data", "d", "cond_is_ufunc ")),
     _fb("gen_set_cells_d (data : garr) (value : Z) (has_condition cond_is_ufunc : bool) (condition : Z -> bool) : gres garr", E_ARR)),
    ("pl_set_cells_l", SP, _wrap(lambda: _set_cells(SP, "PropertyLayer", "data", "l", "cond_is_ufunc ")),
     _fb("gen_set_cells_l (data : garr) (value : Z) (has_condition cond_is_ufunc : bool) (condition : Z -> bool) : gres garr", E_ARR)),
    ("pl_modify_cells_d", PL, _wrap(lambda: _modify_cells(PL, "PropertyLayer", "_mesa_data", "d", "condition")),
     _fb("gen_modify_cells_d (data : garr) (op_is_ufunc cond_is_ufunc : bool) (op_nin : Z) (has_value has_condition : bool) (condition : Z -> bool) (op1 op2 : Z -> Z) : gres garr", E_ARR)),
    ("pl_modify_cells_l", SP, _wrap(lambda: _modify_cells(SP, "PropertyLayer", "data", "l", "condition_function")),
     _fb("gen_modify_cells_l (data : garr) (op_is_ufunc cond_is_ufunc : bool) (op_nin : Z) (has_value has_condition : bool) (condition : Z -> bool) (op1 op2 : Z -> Z) : gres garr", E_ARR)),
    ("pl_modify_cell_l", SP, _wrap(c_modify_cell),
     _fb("gen_modify_cell_l (dims : list Z) (data : garr) (position : gcoord) (op_single_arg has_value : bool) (op1 op2 : Z -> Z) : gres garr", E_ARR)),
    ("pl_set_cell_l", SP, _wrap(c_set_cell),
     _fb("gen_set_cell_l (dims : list Z) (data : garr) (position : gcoord) (value : Z) : gres garr", E_ARR)),
    ("pl_descr_get", PL, _wrap(c_descr_get), _fb("gen_descr_get (dims : list Z) (data : garr) (position : gcoord) : option Z", "None")),
    ("pl_descr_set", PL, _wrap(c_descr_set),
     _fb("gen_descr_set (dims : list Z) (data : garr) (position : gcoord) (value : Z) : gres garr", E_ARR)),
    ("pl_add_layer_d", PL, _wrap(c_add_d),
     _fb(f"gen_add_layer_d (gdims ldims : gcoord) (name id : Z) (grid descr : list (Z * Z)) (props : list Z) : gres {TABLES_D}", "GErr 0 (grid, descr, props)")),
    ("pl_remove_layer_d", PL, _wrap(c_remove_d),
     _fb(f"gen_remove_layer_d (name : Z) (grid descr : list (Z * Z)) (props : list Z) : gres {TABLES_D}", "GErr 0 (grid, descr, props)")),
    ("pl_add_layer_l", SP, _wrap(c_add_l),
     _fb("gen_add_layer_l (gw gh lw lh name id : Z) (grid : list (Z * Z)) : gres (list (Z * Z))", "GErr 0 grid")),
    ("pl_remove_layer_l", SP, _wrap(c_remove_l), _fb("gen_remove_layer_l (name : Z) (grid : list (Z * Z)) : gres (list (Z * Z))", "GErr 0 grid")),
    ("pl_ext_step_d", PL, _wrap(lambda: _ext(PL, "HasPropertyLayers", "d")),
     _fb("gen_ext_step_d (combined_mask : gmask) (prop_values : garr) (mode : Z) : gres gmask", "GErr 0 combined_mask")),
    ("pl_ext_step_l", SP, _wrap(lambda: _ext(SP, "_PropertyGrid", "l")),
     _fb("gen_ext_step_l (combined_mask : gmask) (prop_values : garr) (mode : Z) : gres gmask", "GErr 0 combined_mask")),
    ("pl_nbhd_mask_d", PL, _wrap(lambda: _nmask(PL, "HasPropertyLayers", ["self", "coordinate", "include_center", "radius"], "d")),
     _fb("gen_nbhd_mask_d (dims : list Z) (neighborhood : list gcoord) : gres gmask", "GErr 0 []")),
    ("pl_nbhd_mask_l", SP, _wrap(lambda: _nmask(SP, "_PropertyGrid", ["self", "pos", "moore", "include_center", "radius"], "l")),
     _fb("gen_nbhd_mask_l (dims : list Z) (neighborhood : list gcoord) : gres gmask", "GErr 0 []")),
    ("pl_nbhd_mask_h", SP, _wrap(c_nmask_hex),
     lambda: "Definition gen_nbhd_mask_h (dims : list Z) (neighborhood : list gcoord) : gres gmask := GErr 0 [].\n"
             "Definition gen_nbhd_mask_h_own : bool := false."),
]
