"""T1 for mesa/space.py:_HexGrid.get_neighborhood - the two adjacency lists, the parity test that
selects between them, and the cache-key tuple."""
import ast

import translate as T

HEADER = ""
SRC = "mesa/space.py"


def _fn():
    tree = T._parse(SRC)
    return T._find_func(T._find_class(tree, "_HexGrid"), "get_neighborhood")


def _offset(expr, var):
    """expr is `var` or `var + k` or `var - k`"""
    if isinstance(expr, ast.Name) and expr.id == var:
        return 0
    if (isinstance(expr, ast.BinOp) and isinstance(expr.left, ast.Name) and expr.left.id == var
            and isinstance(expr.right, ast.Constant) and isinstance(expr.right.value, int)
            and isinstance(expr.op, (ast.Add, ast.Sub))):
        return expr.right.value if isinstance(expr.op, ast.Add) else -expr.right.value
    raise T.Broken(f"coordinate expression is not `{var} +/- const`: {ast.dump(expr)[:80]}")


def _adj_lists():
    fn = _fn()
    # locate  `x, y = queue.pop()`  and the  `if x % 2 == 0:` that follows it
    ifs = [n for n in ast.walk(fn) if isinstance(n, ast.If)
           and isinstance(n.test, ast.Compare) and ast.unparse(n.test) == "x % 2 == 0"]
    if len(ifs) != 1:
        raise T.Broken(f"expected exactly one `if x % 2 == 0`, found {len(ifs)}")
    unpack = [n for n in ast.walk(fn) if isinstance(n, ast.Assign) and ast.unparse(n.targets[0]) in ("x, y", "(x, y)")]
    if len(unpack) != 1 or ast.unparse(unpack[0].value) != "queue.pop()":
        raise T.Broken("expected `x, y = queue.pop()`")
    node = ifs[0]
    out = []
    for body in (node.body, node.orelse):
        if len(body) != 1 or not isinstance(body[0], ast.Assign) or ast.unparse(body[0].targets[0]) != "adjacent":
            raise T.Broken("branch is not a single `adjacent = [...]`")
        lst = body[0].value
        if not isinstance(lst, ast.List):
            raise T.Broken("adjacent is not a list literal")
        offs = []
        for e in lst.elts:
            if not isinstance(e, ast.Tuple) or len(e.elts) != 2:
                raise T.Broken("adjacent element is not a pair")
            offs.append((_offset(e.elts[0], "x"), _offset(e.elts[1], "y")))
        out.append(offs)
    return out


def c_even():
    return "Definition gen_lhex_even_col : list (Z * Z) := " + T._pairs_lit(_adj_lists()[0]) + "."


def c_odd():
    return "Definition gen_lhex_odd_col : list (Z * Z) := " + T._pairs_lit(_adj_lists()[1]) + "."


def c_key():
    fn = _fn()
    names = T._name_tuple(T._one_assignment(fn, "cache_key"))
    params = [a.arg for a in fn.args.args]
    if params != ["self", "pos", "include_center", "radius"]:
        raise T.Broken(f"unexpected parameter list {params}")
    m = {"pos": "FPos", "include_center": "FCenter", "radius": "FRadius"}
    if not all(n in m for n in names):
        raise T.Broken(f"cache_key mentions something that is not a parameter: {names}")
    return "Definition gen_hex_cache_key : list nb_field := [" + "; ".join(m[n] for n in names) + "]."


CONSTRUCTS = [
    ("lhex_even_col", SRC, c_even, lambda: "Definition gen_lhex_even_col : list (Z * Z) := []."),
    ("lhex_odd_col", SRC, c_odd, lambda: "Definition gen_lhex_odd_col : list (Z * Z) := []."),
    ("hex_cache_key", SRC, c_key, lambda: "Definition gen_hex_cache_key : list nb_field := []."),
]
