"""The run protocol shared by all properties (DESIGN.md section 2.1).

  1. T1  translate.py -> coq/Generated/Tables.v (rewritten only when the text changed)
  2.     make the .vo files the property depends on; coqc Properties/<id>.v (always re-checked);
         parse Print Assumptions; grep gate
  3. T2  corpus + fresh histories from VERIF_SEED: run on the implementation (fork pool),
         evaluate the Gallina model on the same histories with vm_compute, compare per-op hashes
  4.     the executable oracle (property as a predicate over the implementation's observations)
         over every history; the targeted enumerator when something broke / in the thorough tier
  5.     verdict: KNOWN-FINDING / VIOLATION lines, replay files
  6.     evidence/<id>.json
"""
import fcntl
import hashlib
import importlib
import json
import multiprocessing
import multiprocessing.pool
import os
import random
import re
import shutil
import subprocess
import sys
import time
import traceback

HERE = os.path.dirname(os.path.abspath(__file__))
VERIF = os.path.dirname(HERE)
COQ = os.path.join(VERIF, "coq")
REPO = os.environ.get("VERIF_REPO", "/repo")
sys.path.insert(0, HERE)

import coqlit  # noqa: E402
import fingerprint  # noqa: E402
import obshash  # noqa: E402
import translate  # noqa: E402

COQ_TIMEOUT = int(os.environ.get("VERIF_COQ_TIMEOUT", "900"))
CASES_PER_FILE = 250
ALLOWED_AXIOMS = set()  # the development is closed; see DESIGN.md section 6
FORBIDDEN = re.compile(
    r"\b(Admitted|admit|Axiom|Axioms|Parameter|Parameters|Conjecture|Conjectures)\b|Unset\s+Guard|bypass_check|type-in-type|impredicative-set|Admit\s+Obligations|Unset\s+Positivity|Unset\s+Universe"
)


# --------------------------------------------------------------------------------- utilities
def log(msg):
    sys.stderr.write(msg + "\n")
    sys.stderr.flush()


class Lock:
    def __init__(self, path):
        self.path = path

    def __enter__(self):
        self.f = open(self.path, "w")
        fcntl.flock(self.f, fcntl.LOCK_EX)
        return self

    def __exit__(self, *a):
        fcntl.flock(self.f, fcntl.LOCK_UN)
        self.f.close()


def sh(cmd, cwd=None, timeout=COQ_TIMEOUT):
    try:
        p = subprocess.run(cmd, cwd=cwd, capture_output=True, text=True, timeout=timeout)
        return p.returncode, p.stdout, p.stderr
    except subprocess.TimeoutExpired as e:
        return 124, (e.stdout or b"").decode() if isinstance(e.stdout, bytes) else (e.stdout or ""), "TIMEOUT"


def strip_comments(text):
    out = []
    depth = 0
    i = 0
    while i < len(text):
        if text.startswith("(*", i):
            depth += 1
            i += 2
        elif text.startswith("*)", i) and depth:
            depth -= 1
            i += 2
        else:
            if not depth:
                out.append(text[i])
            i += 1
    return "".join(out)


STATEMENT = re.compile(r"^\s*(?:Local\s+|Global\s+|#\[[^\]]*\]\s*)*(Theorem|Lemma|Corollary|Example|Fact|Remark|Proposition)\s+([A-Za-z0-9_']+)", re.M)


def count_obligations(files):
    """(statements, closed proofs) counted from the .v sources that were compiled"""
    st = 0
    qed = 0
    names = []
    for f in files:
        txt = strip_comments(open(os.path.join(COQ, f)).read())
        found = STATEMENT.findall(txt)
        st += len(found)
        names += [n for _, n in found]
        qed += len(re.findall(r"\b(Qed|Defined)\s*\.", txt))
    return st, qed, names


# --------------------------------------------------------------------------------- build
def ensure_makefile():
    proj = os.path.join(COQ, "_CoqProject")
    vs = []
    for d in ("Common", "Generated", "Model", "Proofs", "Properties"):
        for fn in sorted(os.listdir(os.path.join(COQ, d))):
            if fn.endswith(".v"):
                vs.append(f"{d}/{fn}")
    text = "-Q . Mesa\n" + "\n".join(vs) + "\n"
    old = open(proj).read() if os.path.exists(proj) else None
    if old != text or not os.path.exists(os.path.join(COQ, "Makefile")):
        open(proj, "w").write(text)
        rc, out, err = sh(["coq_makefile", "-f", "_CoqProject", "-o", "Makefile"], cwd=COQ)
        if rc != 0:
            raise RuntimeError("coq_makefile failed: " + err)


def grep_gate(files):
    bad = []
    for f in files:
        txt = strip_comments(open(os.path.join(COQ, f)).read())
        for m in FORBIDDEN.finditer(txt):
            bad.append(f"{f}: forbidden token {m.group(0)!r}")
    return bad


def all_coq_sources():
    out = []
    for d in ("Common", "Generated", "Model", "Proofs", "Properties"):
        for fn in sorted(os.listdir(os.path.join(COQ, d))):
            if fn.endswith(".v"):
                out.append(f"{d}/{fn}")
    return out


def build(prop):
    """returns dict(translator_broken, proof_broken (list of str), assumptions (dict thm->str),
    obligations, discharged, theorem_names)"""
    res = {"translator_broken": [], "proof_broken": [], "assumptions": {}, "build_log": ""}
    with Lock(os.path.join(COQ, ".lock")):
        text, broken = translate.translate()
        mine = [v for k, v in broken.items() if k in getattr(prop, "TABLE_CONSTRUCTS", [])]
        res["translator_broken"] = mine
        res["translator_broken_all"] = list(broken.values())
        tpath = os.path.join(COQ, "Generated", "Tables.v")
        if not os.path.exists(tpath) or open(tpath).read() != text:
            open(tpath, "w").write(text)
        ensure_makefile()
        deps = list(prop.COQ_DEPS)
        gate = grep_gate(all_coq_sources())
        if gate:
            res["proof_broken"] += gate
        targets = [d[:-2] + ".vo" for d in deps]
        rc, out, err = sh(["make", "-k", "-j16"] + targets, cwd=COQ)
        res["build_log"] = (out + err)[-4000:]
        if rc != 0:
            m = re.findall(r'File "\./([^"]+)", line (\d+)[^\n]*\n(?:[^\n]*\n)?Error:([^\n]*)', out + err)
            if m:
                for f, ln, e in m:
                    res["proof_broken"].append(f"{f}:{ln}: {e.strip()}")
            else:
                res["proof_broken"].append("make failed: " + (err or out)[-500:])
        # the property file itself is re-checked on every run and its output parsed
        pf = prop.COQ_PROPERTY_FILE
        rc2, out2, err2 = sh(["coqc", "-Q", ".", "Mesa", pf], cwd=COQ)
        if rc2 != 0:
            m = re.search(r'line (\d+)[^\n]*\n(?:[^\n]*\n)?Error:\s*([^\n]*(?:\n [^\n]*)*)', err2 + out2)
            where = f"{pf}:{m.group(1)}: {m.group(2).strip()[:300]}" if m else f"{pf}: {(err2 or out2)[-400:]}"
            thm = theorem_at(pf, int(m.group(1))) if m else None
            res["proof_broken"].append((f"theorem {thm} no longer checks: " if thm else "") + where)
        else:
            res["assumptions"] = parse_assumptions(out2)
            for thm, a in res["assumptions"].items():
                if a != "closed":
                    extra = [x for x in a if x not in ALLOWED_AXIOMS]
                    if extra:
                        res["proof_broken"].append(f"theorem {thm} depends on undeclared axioms {extra}")
        files = deps + [pf]
        st, qed, names = count_obligations([f for f in files if os.path.exists(os.path.join(COQ, f))])
        res["obligations"] = st
        # every statement of a file that coqc accepted is discharged (the grep gate excludes Admitted/admit);
        # `qed` is only used to estimate what is left when something broke
        res["discharged"] = st if not res["proof_broken"] else max(0, min(qed, st) - len(res["proof_broken"]))
        res["theorem_names"] = [n for n in names if n.startswith(prop.ID)]
    return res


def theorem_at(pf, line):
    txt = open(os.path.join(COQ, pf)).read().splitlines()
    name = None
    for i, l in enumerate(txt[:line], 1):
        m = STATEMENT.match(l)
        if m:
            name = m.group(2)
    return name


def parse_assumptions(out):
    """Print Assumptions prints either 'Closed under the global context' or 'Axioms:' + lines.
    They appear in the order of the Print Assumptions commands; we key them by order."""
    res = {}
    blocks = re.split(r"(?m)^(?=Closed under the global context|Axioms:)", out)
    k = 0
    for blk in blocks:
        if blk.startswith("Closed under"):
            res[f"#{k}"] = "closed"
            k += 1
        elif blk.startswith("Axioms:"):
            names = re.findall(r"(?m)^([A-Za-z_][\w.']*)\s*:", blk[len("Axioms:"):])
            res[f"#{k}"] = names
            k += 1
    return res


# --------------------------------------------------------------------------------- T2 model side
def model_of(prop, case):
    """the module that prints/evaluates this case on the Coq side (aggregating properties such as
    C18 delegate to the module that owns the site); default: the property module itself"""
    f = getattr(prop, "model_of", None)
    return f(case) if f else prop


def write_case_files(prop, cases, tag, mod=None):
    mod = mod or prop
    d = os.path.join(COQ, "Cases", prop.ID)
    os.makedirs(d, exist_ok=True)
    files = []
    for s in range(0, len(cases), CASES_PER_FILE):
        chunk = cases[s:s + CASES_PER_FILE]
        name = f"Cases_{prop.ID}_{tag}_{s // CASES_PER_FILE}"
        lines = [
            "From Coq Require Import ZArith List Bool Uint63.",
            "From Mesa Require Import Common.ObsHash.",
            mod.COQ_IMPORTS,
            "Import ListNotations.",
            "Open Scope Z_scope.",
            f"Definition cases : list (Z * ({mod.COQ_CASE_TYPE} * list int)) := [",
        ]
        items = []
        for idx, c in chunk:
            hashes = "[" + "; ".join(coqlit.uint(obshash.hash_obs(o)) for o in c["_obs"]) + "]"
            items.append(f"  ({idx}, ({mod.coq_case(c)},\n    {hashes}))")
        lines.append(";\n".join(items))
        lines.append("].")
        lines.append("Set Printing Width 1000000. Set Printing Depth 1000000.")
        lines.append(f"Eval vm_compute in disagreements {mod.COQ_RUN} cases.")
        path = os.path.join(d, name + ".v")
        open(path, "w").write("\n".join(lines) + "\n")
        files.append(path)
    return files


def _coqc_case_file(path):
    rc, out, err = sh(["coqc", "-Q", COQ, "Mesa", path], cwd=os.path.dirname(path))
    return path, rc, out, err


def run_model(prop, cases, tag="t2"):
    """cases: list of (index, case-with-_obs).  Returns (disagreements {idx: first op}, errors)"""
    if not cases:
        return {}, []
    groups = {}
    for idx, c in cases:
        m = model_of(prop, c)
        groups.setdefault(m.ID, (m, []))[1].append((idx, c))
    files = []
    for mid, (m, cs) in groups.items():
        files += write_case_files(prop, cs, f"{tag}_{mid}", m)
    with multiprocessing.pool.ThreadPool(min(16, len(files))) as tp:
        results = tp.map(_coqc_case_file, files)
    dis = {}
    errors = []
    for path, rc, out, err in results:
        if rc != 0:
            errors.append(f"{os.path.basename(path)}: coqc failed: {(err or out)[-600:]}")
            continue
        try:
            vals = coqlit.parse_eval_outputs(out)
            for idx, opi in vals[-1]:
                dis[idx] = opi
        except Exception as e:  # noqa: BLE001
            errors.append(f"{os.path.basename(path)}: cannot parse coqc output: {e}: {out[-300:]}")
    return dis, errors


def model_observations(prop, case):
    """full observation stream of the model for one case (for replay files)"""
    d = os.path.join(COQ, "Cases", prop.ID)
    os.makedirs(d, exist_ok=True)
    path = os.path.join(d, f"Replay_{prop.ID}_{os.getpid()}.v")
    m = model_of(prop, case)
    open(path, "w").write(
        "From Coq Require Import ZArith List Bool.\n" + m.COQ_IMPORTS + "\nImport ListNotations.\nOpen Scope Z_scope.\n"
        "Set Printing Width 1000000. Set Printing Depth 1000000.\n"
        f"Eval vm_compute in {m.COQ_RUN} ({m.coq_case(case)}).\n"
    )
    rc, out, err = sh(["coqc", "-Q", COQ, "Mesa", path], cwd=d)
    if rc != 0:
        return None, (err or out)[-800:]
    try:
        return coqlit.parse_eval_outputs(out)[-1], None
    except Exception as e:  # noqa: BLE001
        return None, f"parse error {e}"


# --------------------------------------------------------------------------------- T2 impl side
_PROP = None


def _impl_worker(case):
    try:
        r = _PROP.run_impl(case)
        r.setdefault("failures", [])
        return r
    except Exception:  # noqa: BLE001
        return {"obs": [], "failures": [{"key": "driver-exception", "op": -1,
                                         "what": "the driver could not run this history on the implementation: "
                                                 + traceback.format_exc()[-1500:]}]}


def run_impl_many(prop, cases, procs=16):
    global _PROP
    _PROP = prop
    if getattr(prop, "SERIAL_IMPL", False) or len(cases) < 4:
        return [_impl_worker(c) for c in cases]
    ctx = multiprocessing.get_context("fork")
    with ctx.Pool(procs) as pool:
        return pool.map(_impl_worker, cases, chunksize=max(1, len(cases) // (procs * 8)))


# --------------------------------------------------------------------------------- shrinking
def shrink(prop, case, key):
    """greedy delta-debugging on case['ops'] keeping a failure with the same key"""
    if not getattr(prop, "SHRINK", True) or "ops" not in case:
        return case

    def fails(c):
        r = _impl_worker(c)
        return any(f["key"] == key for f in r["failures"])

    global _PROP
    _PROP = prop
    cur = dict(case)
    budget = 200
    changed = True
    while changed and budget > 0:
        changed = False
        n = len(cur["ops"])
        chunk = max(1, n // 2)
        while chunk >= 1 and budget > 0:
            i = 0
            while i < len(cur["ops"]) and budget > 0:
                cand = dict(cur)
                cand["ops"] = cur["ops"][:i] + cur["ops"][i + chunk:]
                budget -= 1
                if len(cand["ops"]) < len(cur["ops"]) and fails(cand):
                    cur = cand
                    changed = True
                else:
                    i += chunk
            chunk //= 2
    return cur


# --------------------------------------------------------------------------------- findings
def load_known():
    p = os.path.join(VERIF, "known_findings.json")
    if not os.path.exists(p):
        return []
    return json.load(open(p)).get("findings", [])


def clean_case(c):
    return {k: v for k, v in c.items() if not k.startswith("_")}


def write_replay(prop_id, payload):
    os.makedirs(os.path.join(VERIF, "replays"), exist_ok=True)
    h = hashlib.sha1(json.dumps(payload, sort_keys=True, default=str).encode()).hexdigest()[:10]
    path = os.path.join(VERIF, "replays", f"{prop_id}-{h}.json")
    json.dump(payload, open(path, "w"), indent=1, default=str)
    return path


# --------------------------------------------------------------------------------- main protocol
def load_prop(prop_id):
    return importlib.import_module(f"props.{prop_id}")


def run_check(prop_id, tier, seed):
    t0 = time.time()
    prop = load_prop(prop_id)
    known = [k for k in load_known() if k["property"] == prop_id]
    known_keys = {k["key"]: k for k in known if k.get("status") == "known"}
    lines = []
    tie_breaks = []   # (kind, description, case or None)

    # 1 + 2
    b = build(prop)
    for tb in b["translator_broken"]:
        tie_breaks.append(("translator", tb, None))
    for pb in b["proof_broken"]:
        tie_breaks.append(("proof", pb, None))
    log(f"[{prop_id}] build: obligations={b.get('obligations')} proof_broken={len(b['proof_broken'])} translator_broken={len(b['translator_broken'])}")

    # the hand-transcribed source functions moved?  then search harder (never a verdict by itself)
    moved = fingerprint.changed(REPO, prop_id, fingerprint.funcs_of(prop))
    gen_tier = tier
    if moved and tier == "quick" and os.environ.get("VERIF_NO_ESCALATE") != "1":
        gen_tier = "thorough"
        log(f"[{prop_id}] source of modelled functions changed ({', '.join(moved[:4])}...): escalating generators to thorough")

    # 3: corpus first, then fresh histories
    rng = random.Random(seed * 1000003 + sum(map(ord, prop_id)))
    corpus = []
    cdir = os.path.join(HERE, "corpus", prop_id)
    if os.path.isdir(cdir):
        for fn in sorted(os.listdir(cdir)):
            if fn.endswith(".json"):
                corpus.append(json.load(open(os.path.join(cdir, fn))))
    fresh = prop.gen_cases(rng, gen_tier)
    cases = corpus + fresh
    impl = run_impl_many(prop, cases)
    failures = []  # (case, failure)
    model_cases = []
    for i, (c, r) in enumerate(zip(cases, impl)):
        c["_obs"] = r["obs"]
        if "ops_for_model" in r:
            c["_ops_for_model"] = r["ops_for_model"]
        for f in r["failures"]:
            if f["key"].startswith(prop_id + "/") or f["key"] == "driver-exception":
                failures.append((c, f))
        if not getattr(prop, "NO_MODEL_RUN", False) and not any(f["key"] == "driver-exception" for f in r["failures"]):
            if r.get("model", True):
                model_cases.append((i, c))
    log(f"[{prop_id}] impl: {len(cases)} histories ({len(corpus)} corpus), {sum(len(c['_obs']) for c in cases)} ops, oracle failures={len(failures)}  t={time.time()-t0:.1f}s")
    dis, merrs = ({}, [])
    if not any(k == "proof" and "make failed" in d for k, d, _ in tie_breaks) or True:
        dis, merrs = run_model(prop, model_cases)
    for e in merrs:
        tie_breaks.append(("correspondence", "model evaluation failed: " + e, None))
    for idx, opi in sorted(dis.items()):
        tie_breaks.append(("correspondence", f"model and implementation disagree at operation {opi} of history {idx}", cases[idx]))
    log(f"[{prop_id}] model: {len(model_cases)} histories evaluated, disagreements={len(dis)}  t={time.time()-t0:.1f}s")

    # 4: targeted enumerator
    enum_n = 0
    if hasattr(prop, "enumerate_cases") and (tie_breaks or gen_tier == "thorough" or getattr(prop, "ENUM_ALWAYS", False)):
        ecases = list(prop.enumerate_cases(gen_tier, broken=bool(tie_breaks)))
        eimpl = run_impl_many(prop, ecases)
        enum_n = len(ecases)
        for c, r in zip(ecases, eimpl):
            c["_obs"] = r["obs"]
            for f in r["failures"]:
                if f["key"].startswith(prop_id + "/") or f["key"] == "driver-exception":
                    failures.append((c, f))
        log(f"[{prop_id}] enumerator: {enum_n} cases, failures now {len(failures)}  t={time.time()-t0:.1f}s")
    else:
        ecases = []

    # 5: verdict
    violations = 0
    by_key = {}
    for c, f in failures:
        by_key.setdefault(f["key"], (c, f))
    known_hit = []
    for key, (c, f) in sorted(by_key.items()):
        if key in known_keys:
            lines.append(f"KNOWN-FINDING: property={prop_id} {key}: {known_keys[key]['what']}")
            known_hit.append(key)
            continue
        small = shrink(prop, c, key)
        small.pop("_ops_for_model", None)
        r = _impl_worker(small)
        if "ops_for_model" in r:
            small["_ops_for_model"] = r["ops_for_model"]
        ff = next((x for x in r["failures"] if x["key"] == key), f)
        mobs, merr = (None, None)
        if not getattr(prop, "NO_MODEL_RUN", False):
            mobs, merr = model_observations(prop, small)
        path = write_replay(prop_id, {
            "property": prop_id, "kind": "failing-input", "key": key, "what": ff["what"], "op": ff.get("op"),
            "case": clean_case(small), "impl_observations": r["obs"], "model_observations": mobs, "model_error": merr,
            "replay_cmd": f"./check {prop_id} --replay <this file>",
        })
        lines.append(f"VIOLATION property={prop_id} replay={path}")
        violations += 1
    # tie breaks not explained by a failing input
    unexplained = tie_breaks if not violations else []
    if tie_breaks and not violations:
        kinds = sorted({k for k, _, _ in tie_breaks})
        first_case = next((c for _, _, c in tie_breaks if c is not None), None)
        mobs = None
        if first_case is not None:
            mobs, _ = model_observations(prop, first_case)
        path = write_replay(prop_id, {
            "property": prop_id, "kind": "tie-broken", "broken": [d for _, d, _ in tie_breaks][:20],
            "what": "no failing input was found by the oracle or the targeted enumerator; the property is no longer shown to hold: "
                    + "; ".join(kinds),
            "case": clean_case(first_case) if first_case else None,
            "impl_observations": first_case.get("_obs") if first_case else None,
            "model_observations": mobs,
            "searched": {"histories": len(cases), "enumerated": enum_n},
        })
        lines.append(f"VIOLATION property={prop_id} replay={path} no-failing-input-found")
        violations += 1

    # thorough tier: independent re-check of the compiled property file with coqchk, axioms listed
    coqchk = None
    if tier == "thorough" and os.environ.get("VERIF_NO_COQCHK") != "1" and not any(k == "proof" for k, _, _ in tie_breaks):
        lib = "Mesa." + prop.COQ_PROPERTY_FILE[:-2].replace("/", ".")
        rc, out, err = sh(["coqchk", "-o", "-Q", ".", "Mesa", lib], cwd=COQ, timeout=1800)
        txt = out + err
        m = re.search(r"\* Axioms:(.*?)\n\s*\n\* Constants", txt, re.S)
        coqchk = {"rc": rc, "axioms": (m.group(1).strip() if m else "unparsed"), "ok": "Modules were successfully checked" in txt}
        log(f"[{prop_id}] coqchk rc={rc} axioms={coqchk['axioms'][:80]}  t={time.time()-t0:.1f}s")
        if rc != 0 or not coqchk["ok"]:
            path = write_replay(prop_id, {"property": prop_id, "kind": "tie-broken", "what": "coqchk rejected the compiled property file", "log": txt[-2000:]})
            lines.append(f"VIOLATION property={prop_id} replay={path} no-failing-input-found")
            violations += 1

    # 6: evidence
    wall = time.time() - t0
    hist = {}
    errs = {}
    distinct = set()
    for c in cases + ecases:
        for k in prop.op_kinds(c):
            hist[k] = hist.get(k, 0) + 1
        for o in c.get("_obs", []):
            if o and o[0] == -1:
                errs[str(o[1:2])] = errs.get(str(o[1:2]), 0) + 1
        if prop.nontrivial(c):
            distinct.add(hashlib.sha1(json.dumps(clean_case(c), sort_keys=True, default=str).encode()).hexdigest())
    samples = [clean_case(c) for c in (fresh[:2] + ecases[:1])]
    ev = {
        "property_id": prop_id, "tier": tier, "seed": seed, "level": "proof",
        "coverage": {
            "obligations": b.get("obligations", 0), "discharged": b.get("discharged", 0),
            "checker_cmd": f"cd /verif/coq && make -k -j16 {' '.join(d[:-2]+'.vo' for d in prop.COQ_DEPS)} && coqc -Q . Mesa {prop.COQ_PROPERTY_FILE}",
            "trusted_base": prop.TRUSTED_BASE,
            "property_theorems": b.get("theorem_names", []),
            "print_assumptions": b.get("assumptions", {}),
            "coqchk": coqchk,
            "translator_constructs": getattr(prop, "TABLE_CONSTRUCTS", []),
            "modelled_source_functions": [f"{a}::{b}" for a, b in fingerprint.funcs_of(prop)],
            "modelled_source_functions_changed_since_baseline": moved,
            "evaluations": sum(len(c.get("_obs", [])) for c in cases + ecases),
            "histories": len(cases), "corpus_histories": len(corpus), "enumerated_cases": enum_n,
            "traces_validated_against_impl": len(model_cases),
            "disagreements_checked": len(model_cases), "disagreements_found": len(dis),
            "distinct_nontrivial": len(distinct), "rule": prop.RULE,
            "samples": samples, "operation_histogram": hist, "error_observation_histogram": errs,
            "oracle_failures": len(failures), "known_findings_hit": known_hit,
            "tie_breaks": [d for _, d, _ in tie_breaks][:20],
        },
        "assumptions": prop.ASSUMPTIONS, "wall_s": round(wall, 2), "violations": violations,
    }
    os.makedirs(os.path.join(VERIF, "evidence"), exist_ok=True)
    json.dump(ev, open(os.path.join(VERIF, "evidence", f"{prop_id}.json"), "w"), indent=1, default=str)
    for l in lines:
        print(l)
    print(f"[{prop_id}] tier={tier} seed={seed} theorems={len(b.get('theorem_names', []))} obligations={b.get('obligations')} "
          f"histories={len(cases)}+{enum_n} disagreements={len(dis)} violations={violations} wall={wall:.1f}s")
    shutil.rmtree(os.path.join(COQ, "Cases", prop_id), ignore_errors=True)
    return 1 if violations else 0


def run_replay(prop_id, path):
    prop = load_prop(prop_id)
    global _PROP
    _PROP = prop
    payload = json.load(open(path))
    case = payload.get("case")
    print(json.dumps({k: v for k, v in payload.items() if k not in ("case", "impl_observations", "model_observations")}, indent=1))
    if case is None:
        print("this replay names a broken theorem / translator construct; there is no history to re-run")
        return 0
    build(prop)
    r = _impl_worker(case)
    if "ops_for_model" in r:
        case["_ops_for_model"] = r["ops_for_model"]
    mobs, merr = (None, None)
    if not getattr(prop, "NO_MODEL_RUN", False):
        mobs, merr = model_observations(prop, case)
    ops = case.get("ops", [])
    for i, o in enumerate(r["obs"]):
        m = mobs[i] if mobs and i < len(mobs) else None
        flag = "" if m is None or list(m) == list(o) else "   <-- differs"
        print(f"op {i}: {ops[i] if i < len(ops) else ''}\n    impl : {o}\n    model: {m}{flag}")
    for f in r["failures"]:
        print(f"ORACLE FAILURE key={f['key']} op={f.get('op')}: {f['what']}")
    if merr:
        print("model error:", merr)
    return 1 if r["failures"] else 0
