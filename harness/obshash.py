"""The observation hash of coq/Common/ObsHash.v, same three lines."""
M = 1 << 63


def hash_obs(obs):
    acc = 7
    for z in obs:
        acc = (acc * 1000003 + int(z) + 1) % M
    return acc


VECTORS = [([], 7), ([1, -2, 3000000000000, -99999999999999999999], 3026753437253277097), ([1, 2], 7000044000072), ([3], 7000025)]
