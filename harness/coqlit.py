"""Printers for Gallina literals (used when the harness writes Cases files) and a parser for
the values `Eval vm_compute` prints back (lists / pairs / options of Z, bool)."""
import re


def z(n):
    n = int(n)
    return f"({n})" if n < 0 else str(n)


def b(v):
    return "true" if v else "false"


def lst(items):
    """items: already printed Gallina terms"""
    return "[" + "; ".join(items) + "]"


def zlist(ns):
    return lst([z(n) for n in ns])


def pair(a, c):
    return f"({a}, {c})"


def zpair(p):
    return pair(z(p[0]), z(p[1]))


def opt(x):
    return "None" if x is None else f"(Some {x})"


def uint(n):
    return f"{int(n)}%uint63"


_TOKEN = re.compile(r"\s*(-?\d+|[\[\]\(\);,]|[A-Za-z_][A-Za-z0-9_']*)")


def parse_value(text):
    """Parse what Coq printed for a closed value built from Z, bool, lists, tuples, Some/None
    and nullary/applied constructors.  Returns nested python lists/tuples/ints/bools/strs."""
    text = re.sub(r"%[A-Za-z0-9_]+", "", text)
    toks = []
    pos = 0
    while pos < len(text):
        m = _TOKEN.match(text, pos)
        if not m:
            if text[pos:].strip() == "":
                break
            raise ValueError(f"cannot tokenise at {text[pos:pos+40]!r}")
        toks.append(m.group(1))
        pos = m.end()
    i = 0

    def atom():
        nonlocal i
        t = toks[i]
        if t == "[":
            i += 1
            out = []
            if toks[i] == "]":
                i += 1
                return out
            while True:
                out.append(app())
                if toks[i] == ";":
                    i += 1
                    continue
                if toks[i] == "]":
                    i += 1
                    return out
                raise ValueError("bad list")
        if t == "(":
            i += 1
            items = [app()]
            while toks[i] == ",":
                i += 1
                items.append(app())
            if toks[i] != ")":
                raise ValueError("bad paren")
            i += 1
            return items[0] if len(items) == 1 else tuple(items)
        i += 1
        if re.fullmatch(r"-?\d+", t):
            return int(t)
        if t == "true":
            return True
        if t == "false":
            return False
        if t == "None":
            return None
        return ("ctor", t)

    def app():
        nonlocal i
        head = atom()
        if isinstance(head, tuple) and len(head) == 2 and head[0] == "ctor":
            args = []
            while i < len(toks) and toks[i] not in ("]", ")", ";", ","):
                args.append(atom())
            if head[1] == "Some" and len(args) == 1:
                return ("Some", args[0])
            return (head[1], *args) if args else head[1]
        return head

    v = app()
    return v


def parse_eval_outputs(stdout):
    """Split coqc stdout into the values printed by successive `Eval ... in` commands."""
    vals = []
    cur = None
    for line in stdout.splitlines():
        if line.startswith("     = "):
            if cur is not None:
                vals.append(cur)
            cur = line[len("     = "):]
        elif line.startswith("     : "):
            if cur is not None:
                vals.append(cur)
                cur = None
        elif cur is not None:
            cur += " " + line.strip()
    if cur is not None:
        vals.append(cur)
    return [parse_value(v) for v in vals]
