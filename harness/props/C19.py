"""C19 - copies and pickles of agent sets and cell spaces are faithful and detached.

A history builds one cell space (Moore / von Neumann / hex grid of 1-3 dimensions, network, Voronoi) or one
AgentSet, drives it through placements/moves/attribute writes, copies it (copy.deepcopy or a pickle round trip,
of the space itself or of the model that holds it), and then keeps operating on BOTH sides (and on copies of
copies).  After every operation every side is observed completely.

Oracle (the statement, independent of the Gallina model):
  * at a copy: the new side shows the same cells, coordinates, capacities, members in the same order, connections,
    layer values as its source (faithful); no object is shared (detached); every agent's .cell is the copy's own cell;
    every cell attribute reads the copy's own layer;
  * after every later operation on side i: every other side is unchanged (independent), and side i - when it is a
    copy - equals a *freshly constructed twin* (normal constructor, same state) driven through the same operations
    (behaves like a freshly built space in that state).
Model: Model/Copy.v (heap of cells/agents/layers/classes; copy_space follows __getstate__/copyreg/__setstate__).
"""
import itertools

import coqlit as L

ID = "C19"
COQ_PROPERTY_FILE = "Properties/C19.v"
COQ_DEPS = ["Common/ListX.v", "Common/ObsHash.v", "Generated/Tables.v", "Model/Copy.v", "Proofs/CopyProofs.v",
            "Proofs/CopyInvProofs.v", "Proofs/CopyFreshProofs.v", "Proofs/CopyBridge.v", "Model/CopyWorld.v",
            "Proofs/CopyWorldProofs.v"]
COQ_IMPORTS = "From Mesa Require Import Model.Copy Model.CopyWorld."
COQ_CASE_TYPE = "wcase"
COQ_RUN = "run_world"
TABLE_CONSTRUCTS = ["c19_cell_slots", "c19_cell_getstate", "c19_cell_add_remove", "c19_gridcell_pickle", "c19_gridcell_unpickle", "c19_grid_getstate",
                    "c19_grid_setstate_classes", "c19_grid_setstate_descr", "c19_dspace_setstate", "c19_agentset_state"]
ENUM_ALWAYS = False

E_FULL, E_NODIR, E_EXISTS, E_MISSING, E_KEY, E_FIXED, E_EMPTY = 1, 2, 3, 4, 5, 6, 7
USER_NAMES = (10, 11)
LAYER = {0: "empty", 1: "elev", 2: "heat"}
LAYER_ID = {v: k for k, v in LAYER.items()}
MISSING = -7
MAX_SIDES = 3
GRIDS = ("moore", "vn", "hex")
CLSNAME = {"moore": "Grid", "vn": "Grid", "hex": "Grid", "net": "Network", "vor": "VoronoiGrid", "aset": "AgentSet"}
MECH = {0: "deepcopy", 1: "pickle"}

# Voronoi seed points (general position: no four co-circular points among neighbours)
VOR_POINTS = [
    [[0.0, 0.0], [1.0, 0.0], [0.0, 1.0], [1.0, 1.0], [0.5, 0.5]],
    [[0.0, 0.0], [2.0, 0.25], [0.25, 2.0], [2.5, 2.5]],
    [[0.0, 0.0], [1.0, 0.25], [2.0, 0.0], [0.5, 1.5], [1.75, 1.25], [1.0, 3.0]],
    [[0.0, 0.0], [1.0, 0.5], [0.25, 1.5]],
]

RULE = ("histories = one cell space (Moore/von Neumann grid in 1-3 dimensions, hex grid, network of <= 6 nodes, 4 Voronoi point "
        "sets; dims <= 3x3; torus flag; capacity None/1/2; 0-2 extra int property layers) with its Model, or one AgentSet; 0-8 "
        "operations before the copy (placements and moves incl. into full cells, leave, move_relative along geometry and "
        "hand-made keys, cell-attribute and layer writes, fill, add/remove layer, random selections (select_random_cell / _agent "
        "on all_cells, empties and neighbourhood collections, select_random_empty_cell under both strategies; AgentSet "
        "shuffle_do / shuffle) with the generator states of every side compared before and after, with probability 0.4 a WARM "
        "block before a copy (2-7 kinds of random selection made on the source, so all_cells, empties, neighbourhood caches and "
        "whatever the selections keep between calls are warm) followed right after the copy by the same selections on the copy "
        "and then on the source (each advances only its own generator; equal states give equal draws), FixedAgent placement, agent.remove() incl. "
        "FixedAgent.remove(), user attributes on cells, Cell.connect with hand-made keys, remove_property_layer('empty')), a "
        "copy (deepcopy or pickle, of the space or of the model holding it), then 4-14 further operations on either side incl. "
        "copies of copies; agent-set histories (add/discard/remove, copies of copies, forgetting all references + gc); every "
        "side fully observed after every operation (cells, layer values and cell attributes, connections, empties, "
        "space.agents, model registry incl. off-grid agents, model pointers, model.grid, agent kinds, user attributes, "
        "hand-made connections, ghost pointers); plus an ORACLE-ONLY stream of 20 (quick) / 100 (thorough) 'exotic' copies: "
        "float/inf/nan/-0.0/subnormal and 2^60+1 layer values compared bit-exactly, float and 0 capacities, per-cell "
        "capacities, str/tuple/float node ids, attribute values None/float/Fraction/Decimal/str/tuple/bool/numpy scalar/0-d "
        "array/list/dict, agents of six classes (subclass of subclass, mixin after the base, __bool__ False, __len__ 0, "
        "attributes some agents lack), the same graph / PropertyLayer object held by two spaces, abandoned iterators, warm "
        "neighborhood caches (120-cell chain), a rejected placement before the copy, two copies at the same time, the whole "
        "scenario twice per process; and an ORACLE-ONLY stream of 24 (quick) / 120 (thorough) 'multi' copies: two or three "
        "cell spaces (Moore, von Neumann, hex, network, Voronoi; different sizes; the same layer name 'elev' with different "
        "values) on ONE model with agents in each, copied through the roots model / either space / an agent / model.agents / "
        "a cell (a lone cell as root is outside the statement: counted when it raises), each copied space compared with its "
        "own original, write-through and empty-tracking checked per space, then moves in each copy; and an ORACLE-ONLY SCALE "
        "stream (6 per quick run, 28 in thorough, 28 in the enumerator when something broke): a subject grid built first, then "
        "255/256/257/300/512/600 other tiny grids built, deep-copied and pickled, then the subject copied with the full "
        "faithfulness + detachment check (writes through both sides, moves on both sides, the original still copyable); copy "
        "chains 100-520 long; 257-520 copies of one space; AgentSets with 1000-4097 members; grids with 256-1089 cells / up to "
        "300 agents and 256-1089-node networks with warm neighbourhood caches; and an ORACLE-ONLY USER-CODE stream (40 per quick "
        "run, 200 in thorough, 240 in the enumerator; user code is an input, the Coq model is unchanged and these histories "
        "run on implementation + oracle only): spaces built with cell_klass = a user Cell subclass (class-level defaults "
        "empty / visits / tags shadowed per instance, an extra cached_property that was read, __getstate__/__setstate__ "
        "overrides calling super, a subclass with __slots__ of its own), on a Network, a VoronoiGrid, an OrthogonalMooreGrid, "
        "a user subclass of OrthogonalMooreGrid (overridden _connect_cells hook, extra attribute) and a user subclass of "
        "Network, with a PropertyLayer subclass, agents of five user CellAgent subclasses (extra mutable state, __slots__, "
        "__getstate__ override, falsy, value-based __eq__/__hash__) and a user AgentSet subclass held by a user Model subclass; "
        "copied through the roots model / space / an agent / model.agents / the AgentSet subclass / from inside a callback run "
        "by agents.do while a later callback raises; the copy is compared with the original on cells, agents, layers, classes "
        "of space / cells / layers / sets, per-instance cell attributes READ BACK through the class (empty, visits, note), "
        "slot values, space attributes; shares no object; cached collections refer to its own cells; then moves and writes "
        "on the copy leave the original alone and keep `empty` tracking; non-trivial = a copy succeeded and >= 2 later operations changed something; distinct = "
        "by SHA1 of the history; 19 corpus histories always first; enumerator = 606 scripted cases + 20 exotic + 72 multi + 240 user")
TRUSTED_BASE = [
    "Coq 8.16.1 kernel (coqc); vm_compute for the non-vacuity Examples and for evaluating run_world in the correspondence",
    "no axioms: Print Assumptions reports 'Closed under the global context' for each of the 38 C19 theorems",
    "harness/props/C19.py: driver + observer, freshly-built-twin oracle, oracle-only streams (exotic, multi, scale, user code), Gallina literal "
    "printer (T2, differential testing, not a proof); exceptions are classified by type and raising function, never by message",
    "harness/tables/c19_copy_code.py + harness/pyexpr.py (T1, code level, 10 constructs regenerated on every run): "
    "Cell.__slots__; Cell.__getstate__ (dict part and its filter, slot filter, emptied slots); pickle_gridcell filter and "
    "reduce shape; unpickle_gridcell legacy filter; Grid.__getstate__ filter; both loops of Grid.__setstate__ as collectors; "
    "AgentSet.__getstate__/__setstate__/_update; statement skeletons (modulo local names, message texts, docstrings) of "
    "Cell.add_agent/remove_agent, the glue of pickle/unpickle_gridcell, Grid.__setstate__, DiscreteSpace.__setstate__",
    "Proofs/CopyBridge.v: copy_space = gen_copy_space and copy_set = gen_copy_set (the model's copy functions ARE the "
    "translated pieces), slot_actions_bridge, filter lemmas (forall k), loop lemmas (forall lists)",
    "Model/Copy.v (heap of cells/agents/layers/classes; hand transcription of Cell.add_agent/remove_agent, the HasCell.cell "
    "setter, move_relative, PropertyDescriptor, add/remove_property_layer, set_property) and Model/CopyWorld.v (Model "
    "registry, model pointers, FixedAgent, agent.remove, user attributes, hand-made connections, forgetting, removing the "
    "'empty' layer); CPython attribute lookup (data descriptor before instance dict), copy/pickle memo semantics, copyreg, "
    "weak references and gc are modelled, not verified",
    "connection tables of a fresh space are inputs of the model (generator's own geometry code, scipy Delaunay for Voronoi, "
    "cross-checked against the implementation by the correspondence); geometry itself is property C07",
    "Uint63 primitive hash only in scratch Cases files, never under a theorem",
]
ASSUMPTIONS = [
    "agents are Agent/CellAgent/FixedAgent subclasses defined at module level (picklable by reference); the copy's members "
    "are held strongly before any gc unless the history forgets them on purpose",
    "a rejected move (cell full) is normalised by driver and model to 'the agent is off the grid' (the repaired setter in "
    "/repo leaves the agent where it was; the model keeps remove-point-add order; with the normalisation the two are "
    "observationally equal); a move to the agent's own current cell is not performed; the exotic stream continues from the "
    "un-normalised state after a rejected placement",
    "a copy of a SPACE reaches the model object only through an agent standing on the grid; when none does, the program gives "
    "the copied space a new empty model and the off-grid agents of the source are not expected on the copy",
    "user attributes in the instance __dict__ of cells: carried by Network/Voronoi cells (required by the oracle), dropped by "
    "grid cells (documented: C19_user_attrs_carried; the oracle is neutral); hand-made connections are never carried "
    "(C19_handmade_connections_not_carried), observed separately and excluded from the faithful comparison",
    "FixedAgent.remove() leaves the agent's _mesa_cell pointing to the cell (fixme in the source): such ghost pointers are "
    "observed, exempt from the wiring flag, and not carried by a copy (the agent is unreachable)",
    "an agent-set side whose model ever created an agent cannot be forgotten: Agent._ids (class-level, keyed by model) keeps "
    "the model, whose registry keeps the agents",
    "after remove_property_layer('empty') the instance attribute cell.empty is excluded from the faithful / fresh "
    "comparisons (a grid copy drops it: C19_remove_empty_copy_refuted) but stays in the correspondence; "
    "C19_world_invariant / C19_world_refinement exclude histories with that operation",
    "cell.neighborhood means the targets of the cell's current connections, hand-made ones included (Model/CopyWorld.v "
    "nbhd_cells): Cell.connect leaves an already cached neighborhood as it was, so the driver drops the cached neighborhood "
    "of the one cell it connects by hand (and clears the process-wide functools caches of Cell.get_neighborhood / "
    "_neighborhood, which are keyed by cell object and never part of a copied state); a copy carries neither the hand-made connections nor the cache",
    "user-code stream: only what HEAD does is demanded - grid cells drop their instance __dict__ (so user attributes of "
    "grid cells are not compared), attributes my own user hooks write during a copy are not compared, and the variant whose "
    "Cell subclass declares __slots__ is switched on by a probe of Cell.__getstate__ (on HEAD such a cell cannot be copied at "
    "all: finding C19-4, patch in fixes/; with the patch applied the variant runs and passes)",
    "in the Gallina model layer values are ints (bool layer 'empty': 0/1); floats, big ints and other value types are "
    "covered by the oracle-only exotic stream; Voronoi capacities are observed as min(capacity, 99)",
]



# ------------------------------------------------------------------ geometry (generator side, for the model)
def _coords(case):
    st = case["stype"]
    if st in GRIDS:
        return list(itertools.product(*[range(d) for d in case["dims"]]))
    if st == "net":
        return list(range(case["n"]))
    return list(range(len(VOR_POINTS[case["vor"]])))


def _offset_code(o):
    return sum((v + 1) * 3 ** k for k, v in enumerate(o))


def _offset_decode(code, nd):
    out = []
    for _ in range(nd):
        out.append(code % 3 - 1)
        code //= 3
    return tuple(out)


def _grid_offsets(st, coord, nd):
    if st == "moore":
        return [o for o in itertools.product([-1, 0, 1], repeat=nd) if any(o)]
    if st == "vn":
        offs = []
        for d in range(nd):
            for delta in (-1, 1):
                o = [0] * nd
                o[d] = delta
                offs.append(tuple(o))
        return offs
    even = [(-1, -1), (0, -1), (-1, 0), (1, 0), (-1, 1), (0, 1)]
    odd = [(0, -1), (1, -1), (-1, 0), (1, 0), (0, 1), (1, 1)]
    return even if coord[1] % 2 else odd


def _vor_adjacency(points):
    from scipy.spatial import Delaunay  # independent of mesa's own triangulation

    tri = Delaunay(points)
    adj = set()
    for s in tri.simplices:
        for i, j in itertools.combinations(sorted(int(v) for v in s), 2):
            adj.add((i, j))
            adj.add((j, i))
    return adj


_VOR_CACHE = {}


def _geom(case):
    """per cell index: sorted list of (key code, target cell index) a fresh space of this description has"""
    st = case["stype"]
    coords = _coords(case)
    index = {c: i for i, c in enumerate(coords)}
    out = []
    if st in GRIDS:
        dims = case["dims"]
        nd = len(dims)
        for c in coords:
            conns = {}
            for o in _grid_offsets(st, c, nd):
                n = tuple(a + b for a, b in zip(c, o))
                if case["torus"]:
                    n = tuple(v % d for v, d in zip(n, dims))
                if all(0 <= v < d for v, d in zip(n, dims)):
                    conns[_offset_code(o)] = index[n]
            out.append(sorted(conns.items()))
    elif st == "net":
        nb = {i: set() for i in coords}
        for a, b in case["edges"]:
            nb[a].add(b)
            nb[b].add(a)
        for i in coords:
            out.append(sorted((j, j) for j in nb[i]))
    else:
        if case["vor"] not in _VOR_CACHE:
            _VOR_CACHE[case["vor"]] = _vor_adjacency(VOR_POINTS[case["vor"]])
        adj = _VOR_CACHE[case["vor"]]
        for i in coords:
            out.append(sorted((i * 100 + j, j) for (a, j) in adj if a == i))
    return out


def _caps(case):
    n = len(_coords(case))
    if case["stype"] == "vor":
        return [99 if case.get("capfun", 0) == 0 else 2] * n
    return [case["cap"] or 0] * n


HANDMADE = 900


def _key_decode(case, code):
    if code >= HANDMADE:
        return ("x", code)          # hand-made connection keys
    st = case["stype"]
    if st in GRIDS:
        return _offset_decode(code, len(case["dims"]))
    if st == "net":
        return code
    return (code // 100, code % 100)


def _key_code(case, key):
    if isinstance(key, tuple) and len(key) == 2 and key[0] == "x":
        return int(key[1])
    st = case["stype"]
    if st in GRIDS:
        return _offset_code(key)
    if st == "net":
        return int(key)
    return int(key[0]) * 100 + int(key[1])


# ------------------------------------------------------------------ generation
def _gen_space_desc(rng):
    st = rng.choices(["moore", "vn", "hex", "net", "vor"], [25, 20, 15, 20, 20])[0]
    case = {"kind": "space", "stype": st, "dims": [], "torus": False, "cap": rng.choice([None, None, 1, 1, 2]),
            "n": 0, "edges": [], "vor": 0, "capfun": 0, "layers": []}
    if st in GRIDS:
        r = rng.random()
        if st == "hex" or r < 0.65:
            case["dims"] = [rng.randint(1, 3), rng.randint(1, 3)]
        elif r < 0.8:
            case["dims"] = [rng.randint(1, 4)]
        else:
            case["dims"] = [rng.randint(1, 2), rng.randint(1, 2), rng.randint(1, 2)]
        case["torus"] = rng.random() < 0.4
        names = [n for n in (1, 2) if rng.random() < 0.45]
        rng.shuffle(names)
        case["layers"] = [[n, rng.randint(0, 5)] for n in names]
    elif st == "net":
        n = rng.randint(1, 6)
        case["n"] = n
        edges = [[i, j] for i in range(n) for j in range(i + 1, n) if rng.random() < 0.45]
        case["edges"] = edges
    else:
        case["vor"] = rng.randrange(len(VOR_POINTS))
        case["capfun"] = rng.choice([0, 1])
        case["cap"] = rng.choice([None, 2])
    return case


def _gen_ops(rng, case, n_pre, n_post, force_copy=True):
    ncell = len(_coords(case))
    geom = _geom(case)
    isgrid = case["stype"] in GRIDS
    sides = [{"labels": [], "layers": [0] + [n for n, _ in case["layers"]] if isgrid else []}]
    ops = []

    def pick_side():
        return rng.randrange(len(sides))

    def gen_one(s):
        sd = sides[s]
        r = rng.random()
        if r < 0.035:
            lab = rng.choice(sd["labels"]) if sd["labels"] and rng.random() < 0.3 else rng.randint(1, 9)
            if lab not in sd["labels"]:
                sd["labels"].append(lab)
            return ["placefixed", s, lab, rng.randrange(ncell)]
        if r < 0.07 and sd["labels"]:
            return ["kill", s, rng.choice(sd["labels"])]
        if r < 0.11:
            return ["setuser", s, rng.randrange(ncell), rng.choice(USER_NAMES), rng.randint(0, 9)]
        if r < 0.12 and isgrid:
            return ["delempty", s]
        if r < 0.15:
            return ["connect", s, rng.randrange(ncell), HANDMADE + rng.randrange(3), rng.randrange(ncell)]
        if r < 0.22:
            return ["draw", s, rng.randrange(7), rng.randrange(ncell)]
        if r < 0.50 or not sd["labels"]:
            if sd["labels"] and rng.random() < 0.6:
                lab = rng.choice(sd["labels"])
            else:
                lab = rng.randint(1, 9)
                if lab not in sd["labels"]:
                    sd["labels"].append(lab)
            return ["move", s, lab, rng.randrange(ncell)]
        if r < 0.57:
            return ["leave", s, rng.choice(sd["labels"])]
        if r < 0.66:
            keys = sorted({k for conns in geom for k, _ in conns})
            if rng.random() < 0.2:
                k = HANDMADE + rng.randrange(3)
            elif keys and rng.random() < 0.85:
                k = rng.choice(keys)
            else:
                k = rng.randint(0, 30)
            return ["relmove", s, rng.choice(sd["labels"]), k]
        if not isgrid:
            return ["move", s, rng.choice(sd["labels"]), rng.randrange(ncell)]
        if r < 0.76:
            name = rng.choice(sd["layers"]) if sd["layers"] and rng.random() < 0.9 else rng.choice([0, 1, 2])
            v = rng.randint(0, 1) if name == 0 else rng.randint(0, 9)
            return ["setattr", s, rng.randrange(ncell), name, v]
        if r < 0.85:
            name = rng.choice(sd["layers"]) if sd["layers"] and rng.random() < 0.9 else rng.choice([0, 1, 2])
            v = rng.randint(0, 1) if name == 0 else rng.randint(0, 9)
            return ["setlayer", s, name, rng.randrange(ncell), v]
        if r < 0.89:
            name = rng.choice(sd["layers"]) if sd["layers"] else 1
            v = rng.randint(0, 1) if name == 0 else rng.randint(0, 9)
            return ["fill", s, name, v]
        if r < 0.95:
            name = rng.choice([1, 2])
            if name not in sd["layers"]:
                sd["layers"].append(name)
            return ["addlayer", s, name, rng.randint(0, 5)]
        name = rng.choice([1, 2])
        if name in sd["layers"]:
            sd["layers"].remove(name)
        return ["dellayer", s, name]

    def gen_copy():
        src = pick_side()
        if len(sides) < MAX_SIDES:
            sides.append({"labels": list(sides[src]["labels"]), "layers": list(sides[src]["layers"])})
        return ["copy", rng.randrange(2), src, rng.randrange(2)]

    def gen_copy_warm():
        """with probability 0.4: every lazily cached thing of the source is warm before the copy (all_cells, empties, the
        neighbourhood caches, whatever the random selections keep between calls: each kind of selection is made on the
        source first), and right after the copy the same selection is made on the copy and then on the source (equal
        generator states must give equal draws, each side advancing only its own generator)"""
        if rng.random() >= 0.4:
            return [gen_copy()]
        kinds = list(range(7))
        rng.shuffle(kinds)
        kinds = kinds[:rng.randint(2, 7)]
        if not {0, 3} & set(kinds):
            kinds.append(rng.choice([0, 3]))
        args = {k: rng.randrange(ncell) for k in kinds}
        cp = gen_copy()
        src, new = cp[2], len(sides) - 1
        out = [["draw", src, k, args[k]] for k in kinds] + [cp]
        if new != src:
            for k in rng.sample(kinds, min(len(kinds), 3)):
                out += [["draw", new, k, args[k]], ["draw", src, k, args[k]]]
        return out

    for _ in range(n_pre):
        ops.append(gen_one(0))
    if force_copy:
        ops += gen_copy_warm()
    for _ in range(n_post):
        if rng.random() < 0.07:
            ops += gen_copy_warm()
        else:
            # prefer alternating between sides, newest side a bit more often
            s = len(sides) - 1 if rng.random() < 0.45 else pick_side()
            ops.append(gen_one(s))
    return ops


def _gen_aset_case(rng):
    k = rng.randint(0, 6)
    labels = list(range(1, k + 1))
    rng.shuffle(labels)
    init = labels[:rng.randint(0, k)] if rng.random() < 0.3 else labels
    ops = []
    nsides = 1
    for i in range(rng.randint(3, 12)):
        r = rng.random()
        if i == 0 or r < 0.2:
            ops.append(["scopy", rng.randrange(2), rng.randrange(nsides)])
            nsides = min(MAX_SIDES, nsides + 1)
        elif r < 0.25:
            ops.append(["sforget", rng.randrange(nsides)])
        elif r < 0.33:
            ops.append(["sdraw", rng.randrange(nsides), rng.randrange(2)])
        elif r < 0.40:
            ops.append(["sshuffle", rng.randrange(nsides)])
        elif r < 0.58:
            ops.append(["sadd", rng.randrange(nsides), rng.randint(1, 8)])
        elif r < 0.8:
            ops.append(["sdiscard", rng.randrange(nsides), rng.randint(1, 8)])
        else:
            ops.append(["sremove", rng.randrange(nsides), rng.randint(1, 8)])
    return {"kind": "aset", "stype": "aset", "init": init, "ops": ops}


EXOTIC_VARIANTS = ("grid-values", "network-objects", "voronoi", "chain-cached", "agentset")


def _exotic_cases(rng, n):
    out = []
    for i in range(n):
        out.append({"kind": "exotic", "stype": "exotic", "variant": EXOTIC_VARIANTS[i % len(EXOTIC_VARIANTS)],
                    "mech": rng.randrange(2), "root": rng.randrange(2), "salt": rng.randrange(1000), "ops": []})
    return out


def gen_cases(rng, tier):
    cases = _exotic_cases(rng, 20 if tier == "quick" else 100) + _multi_cases(rng, 24 if tier == "quick" else 120) + _scale_cases(rng, tier) + _user_cases(rng, 40 if tier == "quick" else 200)
    n = 600 if tier == "quick" else 12000
    for i in range(n):
        if rng.random() < 0.12:
            cases.append(_gen_aset_case(rng))
            continue
        case = _gen_space_desc(rng)
        case["ops"] = _gen_ops(rng, case, rng.randint(0, 8), rng.randint(4, 14))
        cases.append(case)
    return cases


def _enumerate_exotic():
    for v in EXOTIC_VARIANTS:
        for mech in (0, 1):
            for root in (0, 1):
                yield {"kind": "exotic", "stype": "exotic", "variant": v, "mech": mech, "root": root, "salt": 7, "ops": []}


def enumerate_cases(tier, broken=False):
    yield from _enumerate_exotic()
    yield from _enumerate_multi()
    yield from _enumerate_user()
    if broken or tier == "thorough":
        yield from _enumerate_scale()
    yield from _enumerate_main(tier, broken)


def _enumerate_main(tier, broken=False):
    """targeted sweep: every space type x small shapes x torus x capacity x extra layer x mechanism x root with a fixed
    script touching the LAST cell of the copy (attribute write, placement into it, relative move) and the original."""
    import random

    rng = random.Random(4242)
    shapes = []
    for st in ("moore", "vn"):
        for dims in ([1], [3], [1, 1], [2, 2], [3, 2], [2, 1, 2], [2, 2, 2]):
            shapes.append((st, dims))
    for dims in ([1, 1], [2, 2], [2, 3]):
        shapes.append(("hex", dims))
    for st, dims in shapes:
        for torus in (False, True):
            for cap in (None, 1):
                for layers in ([], [[1, 3]]):
                    for mech in (0, 1):
                        for root in (0, 1):
                            case = {"kind": "space", "stype": st, "dims": dims, "torus": torus, "cap": cap, "n": 0,
                                    "edges": [], "vor": 0, "capfun": 0, "layers": layers}
                            ncell = len(_coords(case))
                            last = ncell - 1
                            keys = sorted({k for conns in _geom(case) for k, _ in conns}) or [0]
                            ops = [["move", 0, 1, 0], ["move", 0, 2, last], ["placefixed", 0, 5, 0], ["move", 0, 6, 0],
                                   ["leave", 0, 6], ["move", 0, 7, last], ["kill", 0, 7], ["setuser", 0, last, 10, 4],
                                   ["draw", 0, 0, 0], ["draw", 0, 3, 0], ["draw", 0, 1, 0], ["draw", 0, 5, 0], ["draw", 0, 2, 0],
                                   ["copy", mech, 0, root], ["draw", 1, 0, 0], ["draw", 0, 0, 0], ["draw", 1, 3, 0], ["draw", 0, 3, 0], ["draw", 1, 3, 0], ["draw", 1, 5, 0],
                                   ["draw", 0, 1, 0], ["draw", 1, 4, 0], ["draw", 1, 6, last], ["draw", 0, 2, 0],
                                   ["move", 1, 5, last], ["move", 1, 6, last], ["kill", 1, 1],
                                   ["setattr", 1, last, 0, 1], ["move", 1, 3, last], ["move", 1, 1, last],
                                   ["relmove", 1, 2, rng.choice(keys)], ["leave", 1, 2], ["move", 0, 2, 0],
                                   ["copy", 1 - mech, 1, 0], ["move", 2, 4, last], ["leave", 2, 4]]
                            if layers:
                                ops[4:4] = [["setattr", 1, last, 1, 7], ["setlayer", 0, 1, last, 5]]
                                ops += [["dellayer", 1, 1], ["addlayer", 1, 2, 4], ["setattr", 1, last, 2, 6]]
                            case["ops"] = ops
                            yield case
    for n, edges in ((1, []), (3, [[0, 1], [1, 2]]), (4, [[0, 1], [0, 2], [0, 3], [2, 3]])):
        for cap in (None, 1):
            for mech in (0, 1):
                for root in (0, 1):
                    case = {"kind": "space", "stype": "net", "dims": [], "torus": False, "cap": cap, "n": n,
                            "edges": edges, "vor": 0, "capfun": 0, "layers": []}
                    case["ops"] = [["move", 0, 1, 0], ["move", 0, 2, n - 1], ["placefixed", 0, 5, 0], ["move", 0, 6, 0], ["leave", 0, 6],
                                   ["setuser", 0, n - 1, 11, 3], ["draw", 0, 0, 0], ["draw", 0, 4, 0], ["draw", 0, 5, 0], ["draw", 0, 1, 0],
                                   ["copy", mech, 0, root], ["draw", 1, 0, 0], ["draw", 0, 0, 0],
                                   ["draw", 1, 3, 0], ["draw", 1, 5, 0], ["draw", 0, 1, 0], ["move", 1, 6, 0], ["move", 1, 5, n - 1],
                                   ["setuser", 1, n - 1, 11, 8], ["move", 1, 3, n - 1],
                                   ["relmove", 1, 1, n - 1], ["leave", 0, 1], ["copy", 1 - mech, 1, 0], ["move", 2, 1, 0]]
                    yield case
    for v in range(len(VOR_POINTS)):
        for capfun in (0, 1):
            for mech in (0, 1):
                for root in (0, 1):
                    case = {"kind": "space", "stype": "vor", "dims": [], "torus": False, "cap": None, "n": 0,
                            "edges": [], "vor": v, "capfun": capfun, "layers": []}
                    n = len(VOR_POINTS[v])
                    case["ops"] = [["move", 0, 1, 0], ["move", 0, 2, n - 1], ["move", 0, 3, n - 1], ["draw", 0, 0, 0], ["draw", 0, 2, 0], ["draw", 0, 6, 0],
                                   ["copy", mech, 0, root], ["draw", 1, 0, 0], ["draw", 0, 0, 0], ["draw", 1, 2, 0], ["draw", 0, 2, 0], ["draw", 1, 4, 0], ["draw", 1, 5, 0],
                                   ["move", 1, 4, n - 1], ["relmove", 1, 1, 0 * 100 + 1], ["leave", 0, 1],
                                   ["copy", 1 - mech, 1, 0], ["move", 2, 1, 0]]
                    yield case
    for init in ([], [1], [3, 1, 2]):
        for mech in (0, 1):
            yield {"kind": "aset", "stype": "aset", "init": init,
                   "ops": [["scopy", mech, 0], ["sadd", 1, 9], ["sdiscard", 0, 1], ["sremove", 1, 1], ["sremove", 1, 1],
                           ["scopy", 1 - mech, 1], ["sdraw", 2, 0], ["sdraw", 0, 1], ["sshuffle", 2], ["sshuffle", 0], ["sadd", 2, 1],
                           ["sadd", 0, 9], ["sforget", 1], ["sadd", 1, 4], ["sforget", 0], ["sshuffle", 1]]}


# ------------------------------------------------------------------ implementation side
def _vor_cap2(area):  # module level: picklable by reference
    return 2


_AGENT_CLASSES = {}


def _agent_classes():
    """agent classes must be importable by name for pickle: defined once, registered as attributes of this module"""
    if not _AGENT_CLASSES:
        import mesa
        from mesa.discrete_space import CellAgent, FixedAgent

        class VAgent(CellAgent):
            def __init__(self, model, vid):
                super().__init__(model)
                self.vid = vid

        class VPlain(mesa.Agent):
            def __init__(self, model, vid):
                super().__init__(model)
                self.vid = vid

        class VFixed(FixedAgent):
            def __init__(self, model, vid):
                super().__init__(model)
                self.vid = vid

        _AGENT_CLASSES["fixed"] = VFixed
        for k in (VAgent, VPlain, VFixed):
            k.__module__ = __name__
            k.__qualname__ = k.__name__
            globals()[k.__name__] = k
        _AGENT_CLASSES["cell"] = VAgent
        _AGENT_CLASSES["plain"] = VPlain
    return _AGENT_CLASSES


class _Side:
    def __init__(self, space, model, tab, is_copy=False):
        self.space, self.model, self.tab, self.is_copy = space, model, tab, is_copy
        self.twin = None


def _build_space(case, model, layer_spec=None):
    import warnings

    import networkx as nx
    from mesa.discrete_space import HexGrid, Network, OrthogonalMooreGrid, OrthogonalVonNeumannGrid, VoronoiGrid

    st = case["stype"]
    with warnings.catch_warnings():
        warnings.simplefilter("ignore")
        if st in GRIDS:
            cls = {"moore": OrthogonalMooreGrid, "vn": OrthogonalVonNeumannGrid, "hex": HexGrid}[st]
            sp = cls(tuple(case["dims"]), torus=case["torus"], capacity=case["cap"], random=model.random)
            for nid, dv in (case["layers"] if layer_spec is None else layer_spec):
                if nid != 0:
                    sp.create_property_layer(LAYER[nid], default_value=int(dv), dtype=int)
        elif st == "net":
            g = nx.Graph()
            g.add_nodes_from(range(case["n"]))
            g.add_edges_from([tuple(e) for e in case["edges"]])
            sp = Network(g, capacity=case["cap"], random=model.random)
        else:
            pts = VOR_POINTS[case["vor"]]
            if case.get("capfun", 0) == 0:
                sp = VoronoiGrid(pts, capacity=case["cap"], random=model.random)
            else:
                sp = VoronoiGrid(pts, capacity=case["cap"], random=model.random, capacity_function=_vor_cap2)
    model.grid = sp
    return sp


def _coord_code(case, coord):
    st = case["stype"]
    try:
        if st in GRIDS:
            code = 0
            for v, d in zip(coord, case["dims"]):
                code = code * d + int(v)
            return code if len(coord) == len(case["dims"]) else -1
        if st == "net":
            return int(coord)
        pts = VOR_POINTS[case["vor"]]
        return pts.index([float(v) for v in coord])
    except Exception:  # noqa: BLE001
        return -1


def _abs(case, side):
    """everything the statement talks about, for one side, as plain python data"""
    sp = side.space
    isgrid = case["stype"] in GRIDS
    cells = list(sp._cells.values())
    cidx = {id(c): i for i, c in enumerate(cells)}
    layers = list(sp._mesa_property_layers.items()) if isgrid else []
    out_cells = []
    conns = []
    xconns = []
    wired = 1
    for key, c in sp._cells.items():
        labels = [getattr(a, "vid", -1) for a in c._agents]
        for a in c._agents:
            if a.cell is not c:
                wired = 0
        cap = c.capacity
        capc = 0 if not cap else min(int(cap), 99)
        try:
            e = getattr(c, "empty")
            ecode = int(bool(e))
        except AttributeError:
            ecode = MISSING
        lv = []
        for name, layer in layers:
            try:
                av = int(getattr(c, name))
            except AttributeError:
                av = MISSING
            try:
                dv = int(layer.data[c.coordinate])
            except Exception:  # noqa: BLE001
                dv = MISSING
            lv.append((LAYER_ID.get(name, 9), av, dv))
        out_cells.append({"coord": _coord_code(case, c.coordinate), "cap": capc, "labels": labels,
                          "is_empty": int(bool(c.is_empty)), "empty_attr": ecode, "layers": lv})
        cc = []
        for k, t in c.connections.items():
            try:
                kc = _key_code(case, k)
            except Exception:  # noqa: BLE001
                kc = -1
            if kc >= HANDMADE:
                xconns.append((cidx.get(id(c), -1), kc, cidx.get(id(t), -1)))   # hand-made: observed separately
            else:
                cc.append((kc, cidx.get(id(t), -1)))
        conns.append(sorted(cc))
    ghosts = []
    for lab, a in side.tab.items():
        c = a.cell
        if c is not None and (id(c) not in cidx or not any(x is a for x in c._agents)):
            if isinstance(a, _AGENT_CLASSES["fixed"]) and a not in side.model._agents and id(c) in cidx:
                ghosts.append((lab, cidx[id(c)]))   # FixedAgent.remove() leaves _mesa_cell behind (documented fixme)
            else:
                wired = 0
    try:
        empties = sorted(cidx.get(id(c), -1) for c in sp.empties)
    except Exception:  # noqa: BLE001
        empties = [-99]
    try:
        members = [getattr(a, "vid", -1) for a in sp.agents]
    except Exception:  # noqa: BLE001
        members = [-99]
    model = side.model
    fixed_cls = _AGENT_CLASSES.get("fixed")
    try:
        registry = [getattr(a, "vid", -1) for a in model._agents]
    except Exception:  # noqa: BLE001
        registry = [-99]
    try:
        api = [getattr(a, "vid", -1) for a in model.agents]
    except Exception:  # noqa: BLE001
        api = [-98]
    kinds = [1 if (fixed_cls is not None and isinstance(a, fixed_cls)) else 0 for c in cells for a in c._agents]
    ptr = 1
    for a in list(side.tab.values()) + [a for c in cells for a in c._agents]:
        if getattr(a, "model", None) is not model:
            ptr = 0
    gridptr = 1 if getattr(model, "grid", None) is sp else 0
    user = [[int(c.__dict__.get(f"u{n}", MISSING)) for n in USER_NAMES] for c in cells]
    return {"cells": out_cells, "conns": conns, "wired": wired, "empties": empties, "members": members,
            "registry": registry, "api": api, "kinds": kinds, "ptr": ptr, "gridptr": gridptr, "user": user,
            "xconns": xconns, "ghosts": ghosts}


def _world_obs(k, ab):
    out = [-(300 + k)] + list(ab["registry"]) + [-6] + list(ab["kinds"]) + [-5, ab["ptr"], ab["gridptr"], -4]
    for u in ab["user"]:
        out += list(u)
    out.append(-3)
    for x in ab["xconns"]:
        out += list(x)
    out.append(-2)
    for g in ab["ghosts"]:
        out += list(g)
    return out


def _digest(conns):
    acc = 7
    for i, cc in enumerate(conns):
        acc = (acc * 131 + i + 1) % 1000003
        for k, t in cc:
            acc = (acc * 131 + k + 2) % 1000003
            acc = (acc * 131 + t + 2) % 1000003
    return acc


def _side_obs(k, ab):
    out = [-(100 + k)]
    for c in ab["cells"]:
        out += [c["coord"], c["cap"], len(c["labels"])] + list(c["labels"]) + [c["is_empty"], c["empty_attr"]]
        for nid, av, dv in c["layers"]:
            out += [nid, av, dv]
    out += [-9] + ab["empties"] + [-8] + ab["members"] + [_digest(ab["conns"]), ab["wired"]]
    return out


def _objects_of(case, side):
    """identities of the mutable objects a side is made of"""
    sp = side.space
    ids = {id(sp): "space", id(sp._cells): "_cells dict", id(sp.random): "random"}
    arrays = []
    for c in sp._cells.values():
        ids[id(c)] = "cell"
        ids[id(c._agents)] = "cell._agents list"
        ids[id(c.connections)] = "cell.connections dict"
        for a in c._agents:
            ids[id(a)] = "agent"
            ids[id(a.model)] = "model"
    for a in side.tab.values():
        ids[id(a)] = "agent"
    if case["stype"] in GRIDS:
        ids[id(sp._mesa_property_layers)] = "layer dict"
        for layer in sp._mesa_property_layers.values():
            ids[id(layer)] = "property layer"
            arrays.append(layer.data)
    return ids, arrays


def _detached(case, sides):
    import numpy as np

    shared = []
    objs = [_objects_of(case, s) for s in sides]
    for i in range(len(sides)):
        for j in range(i + 1, len(sides)):
            common = set(objs[i][0]) & set(objs[j][0])
            for c in common:
                shared.append(f"{objs[i][0][c]} shared by sides {i} and {j}")
            for a in objs[i][1]:
                for b in objs[j][1]:
                    if np.shares_memory(a, b):
                        shared.append(f"layer array memory shared by sides {i} and {j}")
    return shared


def _raised_in(e, funcname):
    """the innermost frame of the traceback of `e` is a function called `funcname`"""
    tb = e.__traceback__
    last = None
    while tb is not None:
        last = tb
        tb = tb.tb_next
    return last is not None and last.tb_frame.f_code.co_name == funcname


def _do_move(a, cell, via=None):
    if a.cell is cell:
        return [-2]
    try:
        if via is None:
            a.cell = cell
        else:
            a.move_relative(via)
    except Exception as e:  # noqa: BLE001
        if _raised_in(e, "add_agent") and type(e) is Exception:   # by type and position, never by message text
            cur = a.cell
            if cur is not None and any(x is a for x in cur._agents):
                a.cell = None
            else:
                a._mesa_cell = None
            return [-1, E_FULL]
        raise
    return [0]


def _apply(case, side, op):
    """one operation on one side; returns the result code; unexpected exceptions propagate"""
    import warnings

    kind = op[0]
    sp = side.space
    cells = list(sp._cells.values())
    isgrid = case["stype"] in GRIDS
    fixed_cls = _agent_classes()["fixed"]
    if kind in ("move", "leave", "relmove", "placefixed"):
        a0 = side.tab.get(op[2])
        if a0 is not None and isinstance(a0, fixed_cls) and a0.cell is not None:
            # a placed FixedAgent refuses every change of its cell
            if kind in ("move", "placefixed", "leave"):
                target = None if kind == "leave" else (cells[op[3]] if 0 <= op[3] < len(cells) else cells[0])
                try:
                    a0.cell = target
                except ValueError:
                    return [-1, E_FIXED]
                raise RuntimeError("a placed FixedAgent accepted a new cell")
            return [-1, E_FIXED]
    if kind in ("move", "placefixed"):
        _, _, lab, ci = op
        if not 0 <= ci < len(cells):
            return [-2]
        a = side.tab.get(lab)
        if a is None:
            a = _agent_classes()["fixed" if kind == "placefixed" else "cell"](side.model, lab)
            side.tab[lab] = a
        return _do_move(a, cells[ci])
    if kind == "kill":
        a = side.tab.get(op[2])
        if a is None or a not in side.model._agents:
            return [-2]
        a.remove()          # FixedAgent.remove(): deregistered, taken off the cell's list, _mesa_cell left as it is
        return [0]
    if kind == "draw":
        _, _, k, arg = op
        own = {id(c) for c in cells}
        mine = {id(a) for c in cells for a in c._agents}
        before = sp.random.getstate()
        try:
            if k == 0:
                got, want = sp.all_cells.select_random_cell(), "cell"
            elif k == 1:
                got, want = sp.all_cells.select_random_agent(), "agent"
            elif k == 2:
                got, want = sp.empties.select_random_cell(), "empty"
            elif k in (3, 4):
                if isgrid:
                    if k == 3 and not any(c.is_empty for c in cells):
                        return [-2]                     # the rejection-sampling strategy would not terminate
                    old = sp._try_random
                    sp._try_random = (k == 3)
                    try:
                        got, want = sp.select_random_empty_cell(), "empty"
                    finally:
                        sp._try_random = old
                else:
                    got, want = sp.select_random_empty_cell(), "empty"
            elif k in (5, 6):
                if not 0 <= arg < len(cells):
                    return [-2]
                nb = cells[arg].neighborhood
                got, want = (nb.select_random_cell(), "nbcell") if k == 5 else (nb.select_random_agent(), "nbagent")
            else:
                return [-2]
        except IndexError:
            if sp.random.getstate() != before:
                raise RuntimeError("a selection from an empty population consumed random numbers") from None
            return [-1, E_EMPTY]
        # the outcome itself is random; it must be an element of THIS side
        if want in ("cell", "empty", "nbcell") and id(got) not in own:
            raise RuntimeError("random selection returned a cell of another space")
        if want == "empty" and not got.is_empty:
            raise RuntimeError("select_random_empty_cell returned an occupied cell")
        if want in ("agent", "nbagent") and id(got) not in mine:
            raise RuntimeError("random selection returned an agent that is not on this side's grid")
        if want == "nbcell" and (got is cells[arg] or not any(t is got for t in cells[arg].connections.values())):
            raise RuntimeError("neighborhood.select_random_cell returned a cell that is not a neighbour")
        return [0, 1 if sp.random.getstate() != before else 0]
    if kind == "connect":
        _, _, ci, key, cj = op
        if not (0 <= ci < len(cells) and 0 <= cj < len(cells)) or key < HANDMADE:
            return [-2]
        cells[ci].connect(cells[cj], ("x", key))
        # Cell.connect does not refresh a `neighborhood` that was cached before (whether a later neighbourhood selection sees
        # the new connection would depend on whether the property had been read: a matter of Cell, not of copying).  The
        # driver drops that ONE cell's cache, so that `neighborhood` means "the current connections" on every side
        # (ASSUMPTIONS); all other caches stay as warm as the history made them.
        cells[ci].__dict__.pop("neighborhood", None)
        # ... and the process-wide functools caches behind it (Cell.get_neighborhood / Cell._neighborhood, keyed by the cell
        # object: never part of a copied state)
        from mesa.discrete_space.cell import Cell as _Cell
        for _f in (_Cell.get_neighborhood, _Cell._neighborhood):
            if hasattr(_f, "cache_clear"):
                _f.cache_clear()
        return [0]
    if kind == "setuser":
        _, _, ci, name, v = op
        if not 0 <= ci < len(cells):
            return [-2]
        setattr(cells[ci], f"u{name}", v)
        return [0]
    if kind == "delempty":
        if not isgrid or "empty" not in sp._mesa_property_layers:
            return [-2]
        sp.remove_property_layer("empty")
        return [0]
    if kind == "leave":
        a = side.tab.get(op[2])
        if a is None or a.cell is None:
            return [-2]
        a.cell = None
        return [0]
    if kind == "relmove":
        a = side.tab.get(op[2])
        if a is None or a.cell is None:
            return [-2]
        key = _key_decode(case, op[3])
        if _key_code(case, key) != op[3]:
            key = ("no such key", op[3])  # codes outside the key space name no connection
        tgt = a.cell.connections.get(key)
        if tgt is None:
            try:
                a.move_relative(key)
            except ValueError:
                return [-1, E_NODIR]
            raise RuntimeError("move_relative along a missing connection did not raise")
        return _do_move(a, tgt, via=key)
    if kind in ("setattr", "setlayer", "fill", "addlayer", "dellayer") and not isgrid:
        return [-2]
    if kind == "setattr":
        _, _, ci, nid, v = op
        if not 0 <= ci < len(cells) or LAYER[nid] not in sp._mesa_property_layers:
            return [-2]
        setattr(cells[ci], LAYER[nid], v)
        return [0]
    if kind == "setlayer":
        _, _, nid, ci, v = op
        if not 0 <= ci < len(cells) or LAYER[nid] not in sp._mesa_property_layers:
            return [-2]
        sp._mesa_property_layers[LAYER[nid]].data[cells[ci].coordinate] = v
        return [0]
    if kind == "fill":
        _, _, nid, v = op
        if LAYER[nid] not in sp._mesa_property_layers:
            return [-2]
        sp.set_property(LAYER[nid], bool(v) if nid == 0 else v)
        return [0]
    if kind == "addlayer":
        _, _, nid, dv = op
        try:
            with warnings.catch_warnings():
                warnings.simplefilter("ignore")
                sp.create_property_layer(LAYER[nid], default_value=(bool(dv) if nid == 0 else int(dv)),
                                         dtype=(bool if nid == 0 else int))
        except ValueError as e:
            if _raised_in(e, "add_property_layer") and LAYER[nid] in sp._mesa_property_layers:
                return [-1, E_EXISTS]
            raise
        return [0]
    if kind == "dellayer":
        nid = op[2]
        if nid == 0:
            return [-2]  # the grid's own layer "empty" is never removed
        had = LAYER[nid] in sp._mesa_property_layers
        try:
            sp.remove_property_layer(LAYER[nid])
        except KeyError:
            if not had:
                return [-1, E_MISSING]
            raise
        return [0]
    raise ValueError(kind)


def _fresh_like(case, src, reached=True):
    """a freshly constructed space + model (normal constructors) put into the abstract state of `src` as a copy carries
    it: the registry (incl. off-grid agents) only when the model object is reached by the copy"""
    import mesa

    m = mesa.Model(seed=1)
    isgrid = case["stype"] in GRIDS
    spec = None
    if isgrid:
        spec = [[LAYER_ID[name], 0] for name in src.space._mesa_property_layers if name != "empty"]
    sp = _build_space(case, m, spec)
    if isgrid and "empty" not in src.space._mesa_property_layers:
        sp.remove_property_layer("empty")
    tw = _Side(sp, m, {}, True)
    tcells = list(sp._cells.values())
    classes = _agent_classes()
    made = {}

    def mk(a):
        b = classes["fixed" if isinstance(a, classes["fixed"]) else "cell"](m, a.vid)
        made[id(a)] = b
        tw.tab[a.vid] = b
        return b

    if reached:
        for a in src.model._agents:      # registration order, off-grid agents included
            mk(a)
    for i, c in enumerate(src.space._cells.values()):
        for a in c._agents:
            b = made.get(id(a))
            if b is None:                # on the grid but removed from the model earlier
                b = mk(a)
                m.deregister_agent(b)
            b.cell = tcells[i]
        if not isgrid:
            if "empty" in c.__dict__:
                tcells[i].empty = c.__dict__["empty"]
            for n in USER_NAMES:         # pickle_gridcell drops the instance __dict__ of grid cells, other cells keep it
                if f"u{n}" in c.__dict__:
                    setattr(tcells[i], f"u{n}", c.__dict__[f"u{n}"])
    if isgrid:
        for name, layer in src.space._mesa_property_layers.items():
            sp._mesa_property_layers[name].data[...] = layer.data
    return tw


_EXTRA_ASPECTS = ("registry", "user", "xconns", "ghosts")


def _cmp_abs(a, b, extras=True):
    """names of the aspects in which two abstract views differ"""
    diff = []
    if len(a["cells"]) != len(b["cells"]):
        return ["cells"]
    for x, y in zip(a["cells"], b["cells"]):
        if x["coord"] != y["coord"]:
            diff.append("coordinates")
        if x["cap"] != y["cap"]:
            diff.append("capacities")
        if x["labels"] != y["labels"] or x["is_empty"] != y["is_empty"]:
            diff.append("occupancy")
        lx = {n: (av, dv) for n, av, dv in x["layers"]}
        ly = {n: (av, dv) for n, av, dv in y["layers"]}
        if set(lx) != set(ly) or any(lx[n][1] != ly[n][1] for n in lx):
            diff.append("layer-values")
        elif any(lx[n][0] != ly[n][0] for n in lx) or (0 in lx and x["empty_attr"] != y["empty_attr"]):
            diff.append("cell-attributes")
    if a["conns"] != b["conns"]:
        diff.append("connections")
    if a["empties"] != b["empties"]:
        diff.append("empties")
    if a["members"] != b["members"]:
        diff.append("members")
    if a["kinds"] != b["kinds"]:
        diff.append("agent-kinds")
    for extra in (_EXTRA_ASPECTS if extras else ()):
        if a[extra] != b[extra]:
            diff.append(extra)
    out = []
    for d in diff:
        if d not in out:
            out.append(d)
    return out


def _check_wiring(case, cls, sidx, ab, i, failures, what_prefix):
    """statement: cell attributes read the side's own layers on every cell; the empty layer tracks emptiness is checked
    against the twin; every agent's cell is the side's own cell"""
    if not ab["wired"]:
        failures.append({"key": f"C19/{cls}/copy/agent-cell-not-the-copys-cell", "op": i,
                         "what": f"{what_prefix}: on side {sidx} an agent listed by a cell has agent.cell pointing to a different "
                                 f"cell object (or to a cell that is not in the space)"})
    for c in ab["cells"]:
        for nid, av, dv in c["layers"]:
            if av == MISSING:
                failures.append({"key": f"C19/{cls}/copy/cell-attribute-missing", "op": i,
                                 "what": f"{what_prefix}: on side {sidx} cell #{c['coord']} has no attribute '{LAYER.get(nid)}' "
                                         f"although the space has that property layer"})
            elif av != dv:
                failures.append({"key": f"C19/{cls}/copy/cell-attribute-not-own-layer", "op": i,
                                 "what": f"{what_prefix}: on side {sidx} cell #{c['coord']}.{LAYER.get(nid)} reads {av} but the "
                                         f"side's own layer holds {dv}"})


def _run_space(case):
    import copy
    import gc
    import pickle
    import warnings

    import mesa

    cls = CLSNAME[case["stype"]]
    isgrid = case["stype"] in GRIDS
    _agent_classes()
    gc.disable()
    obs, failures = [], []
    m0 = mesa.Model(seed=1)
    sides = [_Side(_build_space(case, m0), m0, {})]
    prev = [_abs(case, sides[0])]
    prev_rng = [(sides[0].space.random.getstate(), sides[0].model.random.getstate())]
    copy_ok_at = -10

    def add(i, key, what):
        failures.append({"key": f"C19/{cls}/{key}", "op": i, "what": what})

    for i, op in enumerate(case["ops"]):
        kind = op[0]
        res = [-2]
        touched = None
        try:
            if kind == "copy":
                _, mech, src, root = op
                if 0 <= src < len(sides) and len(sides) < MAX_SIDES:
                    s = sides[src]
                    obj = s.space if root == 0 else s.model
                    try:
                        with warnings.catch_warnings():
                            warnings.simplefilter("ignore")
                            new = copy.deepcopy(obj) if mech == 0 else pickle.loads(pickle.dumps(obj))  # noqa: S301
                    except Exception as e:  # noqa: BLE001
                        res = [-1, 99]
                        add(i, "copy/raises", f"{MECH[mech]} of a {type(s.space).__name__} with dimensions "
                                              f"{case.get('dims')} raised {type(e).__name__}: {str(e)[:200]}")
                        new = None
                    if new is not None:
                        sp2 = new if root == 0 else new.grid
                        tab2 = {}
                        for c in sp2._cells.values():
                            for a in c._agents:
                                tab2[getattr(a, "vid", -1)] = a
                        # the model object is reached from the space exactly when some agent stands on the grid
                        reached = root == 1 or bool(tab2)
                        if root == 1:
                            m2 = new
                        elif tab2:
                            m2 = next(iter(tab2.values())).model
                        else:
                            m2 = mesa.Model(seed=1)
                            m2.grid = sp2
                        if reached:
                            for a in m2._agents:           # the registry travels with the model, off-grid agents included
                                tab2.setdefault(getattr(a, "vid", -1), a)
                        ns = _Side(sp2, m2, tab2, True)
                        sides.append(ns)
                        touched = len(sides) - 1
                        res = [0]
                        ab_new = _abs(case, ns)
                        ab_src = prev[src]
                        aspects = _cmp_abs(ab_src, ab_new, extras=False)
                        if reached and ab_src["registry"] != ab_new["registry"]:
                            aspects.append("registry")
                        if not isgrid and ab_src["user"] != ab_new["user"]:
                            aspects.append("user-attributes")
                        for aspect in aspects:
                            add(i, f"copy/unfaithful-{aspect}",
                                f"{MECH[mech]} of side {src} ({type(s.space).__name__}, root={'space' if root == 0 else 'model'}): "
                                f"{aspect} of the copy differ from the original")
                        try:
                            ns.twin = _fresh_like(case, s, reached)
                        except Exception:  # noqa: BLE001
                            ns.twin = None
                        prev.append(ab_new)
            else:
                s_i = op[1]
                if 0 <= s_i < len(sides):
                    side = sides[s_i]
                    touched = s_i
                    tw_res = None
                    if side.twin is not None:
                        try:
                            tw_res = _apply(case, side.twin, op)
                        except Exception as e:  # noqa: BLE001
                            tw_res = ["raised", type(e).__name__]
                    try:
                        res = _apply(case, side, op)
                    except Exception as e:  # noqa: BLE001
                        res = [-1, 99]
                        if side.twin is None:
                            add(i, f"{kind}/unexpected-exception", f"{op} raised {type(e).__name__}: {str(e)[:200]}")
                        elif tw_res == ["raised", type(e).__name__]:
                            pass  # a fresh space raises the same: not a matter of copying
                        else:
                            add(i, f"copy/not-fresh-{kind}-raises",
                                f"{op} on side {s_i} (a copy) raised {type(e).__name__}: {str(e)[:160]} - a freshly built "
                                f"space in the same state answers {tw_res}")
                    else:
                        if side.twin is not None and tw_res != res:
                            add(i, f"copy/not-fresh-{kind}-result",
                                f"{op} on side {s_i} (a copy) answered {res}, a freshly built space in the same state {tw_res}")
        except Exception as e:  # noqa: BLE001  (driver trouble: report, never hide)
            res = [-1, 99]
            add(i, f"{kind}/unexpected-exception", f"{op} raised {type(e).__name__}: {str(e)[:200]}")
        # ---- observe everything, every side
        cur = [_abs(case, s) for s in sides]
        o = list(res)
        for k, ab in enumerate(cur):
            o += _side_obs(k, ab)
        shared = _detached(case, sides)
        o.append(0 if shared else 1)
        for k, ab in enumerate(cur):
            o += _world_obs(k, ab)
        o.append(1 if len({id(sd.model) for sd in sides}) == len(sides) else 0)
        # ---- the random generators: every side its own, a draw on one side leaves the others alone, a copy starts in the
        #      state its source had (so both sides produce the same next draws, independently)
        rng_bad = []
        cur_rng = [(sd.space.random.getstate(), sd.model.random.getstate()) for sd in sides]
        for k, sd in enumerate(sides):
            for k2 in range(k + 1, len(sides)):
                if {id(sd.space.random), id(sd.model.random)} & {id(sides[k2].space.random), id(sides[k2].model.random)}:
                    rng_bad.append(("copy/random-generator-shared", f"sides {k} and {k2} share a random generator object"))
            if any(c.random is not sd.space.random for c in sd.space._cells.values()) \
                    or sd.space.all_cells.random is not sd.space.random:
                rng_bad.append(("copy/random-generator-shared", f"a cell or the all_cells collection of side {k} does not use "
                                                                 f"the side's own generator object"))
            if k != touched and k < len(prev_rng) and cur_rng[k] != prev_rng[k]:
                rng_bad.append(("copy/random-draw-advances-another-side",
                                f"{op} on side {touched} advanced the random generator of side {k}"))
        if kind == "copy" and res == [0] and cur_rng[-1][0] != prev_rng[op[2]][0]:
            rng_bad.append(("copy/random-generator-state-not-carried",
                            "the copy's generator is not in the state the source's generator had when it was copied"))
        ops_ = case["ops"]
        if kind == "draw" and i >= 2 and copy_ok_at == i - 2 and ops_[i - 1][0] == "draw" and ops_[i - 2][0] == "copy" \
                and ops_[i - 1][2:] == op[2:] and op[1] == ops_[i - 2][2] and ops_[i - 1][1] == len(sides) - 1 \
                and ops_[i - 1][1] != op[1] and 0 <= op[1] < len(sides) and op[2] in (0, 1, 2, 3, 4) \
                and cur_rng[op[1]][0] != cur_rng[ops_[i - 1][1]][0]:
            rng_bad.append(("copy/random-equal-states-unequal-draws",
                            f"right after the copy the same selection {op[2:]} was made on the copy and on its source, both "
                            f"starting from the same generator state: the generators are in different states afterwards"))
        if kind == "copy" and res == [0]:
            copy_ok_at = i
        if kind == "draw" and res == [0, 0]:
            rng_bad.append(("copy/random-draw-ignores-own-generator",
                            f"{op}: a random selection on side {touched} left that side's own generator untouched"))
        for key, what in rng_bad:
            add(i, key, f"after {op}: {what}")
        prev_rng = cur_rng
        o.append(0 if rng_bad else 1)
        obs.append(o)
        # ---- the statement
        if shared:
            add(i, "copy/not-detached-shared-object", f"after {op}: {sorted(set(shared))[:4]}")
        for k, ab in enumerate(cur):
            if sides[k].is_copy:
                _check_wiring(case, cls, k, ab, i, failures, f"after {op}")
                if not ab["ptr"]:
                    add(i, "copy/agent-model-not-the-copys-model",
                        f"after {op}: an agent of side {k} (a copy) has .model pointing to another model object than the copy's")
                if not ab["gridptr"]:
                    add(i, "copy/model-grid-not-the-copy", f"after {op}: model.grid of side {k} (a copy) is not the copied space")
                if ab["api"] != ab["registry"]:
                    add(i, "copy/model-agents-differ-from-registry",
                        f"after {op}: model.agents of side {k} (a copy) lists {ab['api']} but the model's registry holds {ab['registry']}")
            if k != touched and k < len(prev):
                d = _cmp_abs(prev[k], ab)
                if d:
                    add(i, "copy/not-independent", f"{op} (on side {touched}) changed {d} of side {k}")
            if k == touched and sides[k].twin is not None and kind != "copy":
                d = _cmp_abs(_abs(case, sides[k].twin), ab)
                if isgrid and "user" in d:
                    d.remove("user")   # that grid cells drop user attributes is documented, not required by the statement
                for aspect in d:
                    add(i, f"copy/not-fresh-{aspect}",
                        f"after {op} on side {k} (a copy) its {aspect} differ from those of a freshly built space in the same "
                        f"state driven through the same operations")
        prev = cur
    gc.enable()
    return {"obs": obs, "failures": failures}



# ------------------------------------------------------------------ oracle-only stream: exotic values, classes, sizes
_XCLS = {}


def _exotic_classes():
    if not _XCLS:
        import mesa
        from mesa.discrete_space import CellAgent

        class XBase(CellAgent):
            def __init__(self, model, vid):
                super().__init__(model)
                self.vid = vid

        class XSub(XBase):
            pass

        class XSubSub(XSub):          # subclass of a subclass
            kind = "subsub"

        class XMixin:
            flavour = "mixin"

            def taste(self):
                return self.flavour

        class XMixAfter(XBase, XMixin):   # mixin placed AFTER the framework base in the MRO
            pass

        class XFalsy(XBase):              # truth value False
            def __bool__(self):
                return False

        class XEmptyLen(XBase):           # len() == 0, hence falsy too
            def __len__(self):
                return 0

        class XPlain(mesa.Agent):
            def __init__(self, model, vid):
                super().__init__(model)
                self.vid = vid

        class XPlainFalsy(XPlain):
            def __bool__(self):
                return False

        for k in (XBase, XSub, XSubSub, XMixin, XMixAfter, XFalsy, XEmptyLen, XPlain, XPlainFalsy):
            k.__module__ = __name__
            k.__qualname__ = k.__name__
            globals()[k.__name__] = k
            _XCLS[k.__name__] = k
    return _XCLS


def _xvalues():
    from decimal import Decimal
    from fractions import Fraction

    import numpy as np

    return [None, 0.1, float("inf"), -0.0, 2 ** 60 + 1, Fraction(1, 3), Decimal("0.1"), "txt", (1, (2, 3)), True,
            np.float64(0.3), np.int64(7), np.array(5), [1, [2]], {"k": [1]}]


def _canon(v):
    from decimal import Decimal
    from fractions import Fraction

    import numpy as np

    if isinstance(v, np.ndarray):
        return ("ndarray", str(v.dtype), v.shape, v.tobytes())
    if isinstance(v, np.generic):
        return ("npscalar", str(v.dtype), v.tobytes())
    if isinstance(v, float):
        return ("float", v.hex())
    if isinstance(v, (bool, int, str, type(None), Fraction, Decimal)):
        return (type(v).__name__, repr(v))
    if isinstance(v, (list, tuple)):
        return (type(v).__name__, tuple(_canon(x) for x in v))
    if isinstance(v, dict):
        return ("dict", tuple((_canon(k), _canon(x)) for k, x in v.items()))
    return ("obj", type(v).__qualname__)


def _xagent(a):
    attrs = tuple((k, _canon(v)) for k, v in sorted(a.__dict__.items()) if k not in ("model", "_mesa_cell"))
    return (type(a).__module__ + "." + type(a).__qualname__, attrs)


def _xmutables(o):
    return [id(v) for v in vars(o).values() if isinstance(v, (list, dict)) or type(v).__name__ == "ndarray"]


def _xdescribe(sp, model):
    """everything the statement talks about, with types, bit patterns and classes, free of identities"""
    d = {}
    cells = list(sp._cells.values())
    where = {id(c): _canon(c.coordinate) for c in cells}
    d["cells"] = tuple((_canon(k), _canon(c.coordinate), _canon(c.capacity), tuple(_xagent(a) for a in c._agents),
                        tuple((kk, _canon(v)) for kk, v in sorted(c.__dict__.items()) if kk != "neighborhood"),
                        tuple(sorted((repr(_canon(kk)), where.get(id(t), "FOREIGN")) for kk, t in c.connections.items())))
                       for k, c in sp._cells.items())
    layers = getattr(sp, "_mesa_property_layers", None)
    if isinstance(layers, dict):
        d["layers"] = tuple((n, str(l.data.dtype), l.data.shape, l.data.tobytes()) for n, l in layers.items())
        d["attrs"] = tuple(tuple(_canon(getattr(c, n)) for n in layers) for c in cells)
    d["registry"] = tuple(_xagent(a) for a in model._agents) if model is not None else ()
    d["api"] = tuple(_xagent(a) for a in model.agents) if model is not None else ()
    d["empties"] = tuple(sorted(repr(_canon(c.coordinate)) for c in sp.empties))
    if hasattr(sp, "G"):
        d["graph"] = (tuple(sorted(map(repr, sp.G.nodes))), tuple(sorted(repr(tuple(sorted(map(repr, e)))) for e in sp.G.edges)))
    return d


def _xnbhd_ok(sp):
    """cached neighbourhoods of a side consist of its own cells and show the agents that are in them now"""
    own = {id(c) for c in sp._cells.values()}
    for c in sp._cells.values():
        nb = list(c.neighborhood)
        if any(id(x) not in own for x in nb):
            return f"cell {c.coordinate!r}: neighborhood contains a cell of another space"
        if sorted(id(a) for a in c.neighborhood.agents) != sorted(id(a) for x in nb for a in x._agents):
            return f"cell {c.coordinate!r}: neighborhood.agents is not what stands in the neighbouring cells"
    return None


def _xbuild(case):
    """(space, model, second space sharing caller-owned objects or None, name of the space class)"""
    import warnings

    import mesa
    import networkx as nx
    import numpy as np
    from mesa.discrete_space import Network, OrthogonalVonNeumannGrid, PropertyLayer, VoronoiGrid

    X = _exotic_classes()
    vals = _xvalues()
    v = case["variant"]
    salt = case["salt"]
    m = mesa.Model(seed=1)
    other = None
    with warnings.catch_warnings():
        warnings.simplefilter("ignore")
        if v == "grid-values":
            cap = [2.0, 1.5, 0, 3, None][salt % 5]                     # float capacity, capacity 0 (= unlimited)
            sp = OrthogonalVonNeumannGrid((3, 2), torus=bool(salt % 2), capacity=cap, random=m.random)
            sp.create_property_layer("temp", default_value=0.1, dtype=float)
            sp._mesa_property_layers["temp"].data[...] = np.array([[0.1, float("inf")], [-0.0, float("nan")], [1 / 3, 1e-310]])
            sp.create_property_layer("big", default_value=2 ** 60 + 1, dtype=np.int64)
            shared = PropertyLayer("shared", (3, 2), default_value=0.7, dtype=float)    # one layer object in two grids
            sp.add_property_layer(shared)
            other = OrthogonalVonNeumannGrid((3, 2), torus=False, capacity=None, random=m.random)
            other.add_property_layer(shared)
            list(sp._cells.values())[1].capacity = 1                  # per-cell difference
        elif v == "network-objects":
            g = nx.Graph()
            g.add_edges_from([("a", ("b", 1)), (("b", 1), 3), (3, 2.5), ("a", 3)])
            g.add_node("lonely")
            sp = Network(g, capacity=[None, 2, 1.5][salt % 3], random=m.random)
            other = Network(g, capacity=None, random=m.random)          # the SAME graph object handed in twice
            for i, c in enumerate(sp._cells.values()):
                setattr(c, "note", vals[(i + salt) % len(vals)])
                setattr(c, "stack", [i, [salt]])
        elif v == "voronoi":
            sp = VoronoiGrid(VOR_POINTS[salt % len(VOR_POINTS)], capacity=None, random=m.random)
        else:   # chain-cached: a long path, every neighbourhood has been read
            sp = Network(nx.path_graph(120), capacity=None, random=m.random)
    m.grid = sp
    cells = list(sp._cells.values())
    classes = [X["XBase"], X["XSub"], X["XSubSub"], X["XMixAfter"], X["XFalsy"], X["XEmptyLen"]]
    n_agents = 2 if v == "chain-cached" else 6
    for i in range(n_agents):
        a = classes[(i + salt) % len(classes)](m, i + 1)
        if i % 2 == 0:                                               # some agents lack the attribute others have
            a.payload = vals[(i + salt) % len(vals)]
        a.history = [i]
        try:
            a.cell = cells[(i * 2 + salt) % len(cells)]
        except Exception as e:  # noqa: BLE001
            if not (_raised_in(e, "add_agent") and type(e) is Exception):
                raise
            # a rejected placement: the history continues from the state the error path left behind
    off = X["XBase"](m, 99)                                          # never placed
    off.history = ["off-grid"]
    it = iter(sp.agents)                                             # abandoned iterators / generators
    next(it, None)
    it2 = iter(sp.all_cells)
    next(it2, None)
    for c in cells if v in ("network-objects", "voronoi", "chain-cached") else cells[:2]:
        c.neighborhood                                               # warm the per-cell cache
        c.get_neighborhood(radius=2, include_center=True)
    return sp, m, other, type(sp).__name__, (it, it2)


def _xcopy(obj, mech):
    import copy
    import pickle

    return copy.deepcopy(obj) if mech == 0 else pickle.loads(pickle.dumps(obj))  # noqa: S301


def _run_exotic(case):
    import gc
    import warnings

    failures = []

    def add(cls, key, what):
        failures.append({"key": f"C19/{cls}/exotic/{key}", "op": 0, "what": f"[{case['variant']}, {MECH[case['mech']]}, "
                         f"root={'space' if case['root'] == 0 else 'model'}, salt={case['salt']}] {what}"})

    if case["variant"] == "agentset":
        _run_exotic_aset(case, add)
        return {"obs": [], "failures": failures, "model": False}
    gc.disable()
    try:
        with warnings.catch_warnings():
            warnings.simplefilter("ignore")
            snapshots = []
            for rnd in range(2):        # twice in one process: class-level state left by the first run must not matter
                sp, m, other, cls, _its = _xbuild(case)
                before = _xdescribe(sp, m)
                before_other = _xdescribe(other, None) if other is not None else None
                obj = sp if case["root"] == 0 else m
                try:
                    c1 = _xcopy(obj, case["mech"])
                    c2 = _xcopy(obj, case["mech"])          # a second copy at the same logical time
                except Exception as e:  # noqa: BLE001
                    add(cls, "copy-raises", f"copying a {cls} with {len(sp._cells)} cells raised {type(e).__name__}: {str(e)[:120]}")
                    break
                sp1, sp2 = (c1, c2) if case["root"] == 0 else (c1.grid, c2.grid)
                ags = [a for c in sp1._cells.values() for a in c._agents]
                m1 = c1 if case["root"] == 1 else (ags[0].model if ags else None)
                ags2 = [a for c in sp2._cells.values() for a in c._agents]
                m2 = c2 if case["root"] == 1 else (ags2[0].model if ags2 else None)
                d1, d2 = _xdescribe(sp1, m1), _xdescribe(sp2, m2)
                for aspect in before:
                    if aspect in ("registry", "api") and m1 is None:
                        continue
                    if d1[aspect] != before[aspect]:
                        add(cls, f"unfaithful-{aspect}", f"{aspect} of the copy differ from the original")
                    if d2[aspect] != d1[aspect]:
                        add(cls, f"second-copy-differs-{aspect}", f"two copies taken one after the other differ in {aspect}")
                if _xdescribe(sp, m) != before:
                    add(cls, "copy-changed-the-original", "the original reads differently after it was copied")
                # no shared mutable object
                mine = {id(sp), id(m)} | {id(c) for c in sp._cells.values()} | {id(a) for a in m._agents}
                for a in m._agents:
                    mine |= set(_xmutables(a))
                for c in sp._cells.values():
                    mine |= set(_xmutables(c)) | {id(c._agents)}
                theirs = {id(sp1)} | {id(c) for c in sp1._cells.values()} | {id(a) for a in ags} | {id(c._agents) for c in sp1._cells.values()}
                for a in ags:
                    theirs |= set(_xmutables(a))
                for c in sp1._cells.values():
                    theirs |= set(_xmutables(c))
                if hasattr(sp, "G"):
                    mine.add(id(sp.G))
                    theirs.add(id(sp1.G))
                if mine & theirs:
                    add(cls, "not-detached-shared-object", "the copy shares a mutable object (cell, agent, list/dict attribute, graph) with the original")
                why = _xnbhd_ok(sp1)
                if why:
                    add(cls, "cached-neighborhood-stale", why)
                # mutate the copy: nothing of the original (or of the other holder of caller-owned objects) may move
                cells1 = list(sp1._cells.values())
                if ags:
                    try:
                        ags[0].cell = None
                        ags[0].cell = cells1[-1]
                    except Exception as e:  # noqa: BLE001
                        if not (_raised_in(e, "add_agent") and type(e) is Exception):
                            raise
                    ags[0].history.append("moved on the copy")
                    if isinstance(getattr(ags[0], "payload", None), (list, dict)):
                        ags[0].payload.clear()
                cells1[0].note = "changed on the copy"
                if hasattr(cells1[0], "stack"):
                    cells1[0].stack.append("copy")
                for lay in (getattr(sp1, "_mesa_property_layers", None) or {}).values():
                    lay.data[...] = 0
                if hasattr(sp1, "G"):
                    sp1.G.add_node("only in the copy")
                why = _xnbhd_ok(sp1)
                if why:
                    add(cls, "cached-neighborhood-stale", "after a move on the copy, " + why)
                if _xdescribe(sp, m) != before:
                    add(cls, "not-independent", "mutating the copy (move, attribute, layer, graph, list payload) changed the original")
                if other is not None and _xdescribe(other, None) != before_other:
                    add(cls, "not-independent", "mutating the copy changed ANOTHER space that shares a caller-owned object with the original")
                snap2 = _xdescribe(sp2, m2)
                cells0 = list(sp._cells.values())
                cells0[0].note = "changed on the original"
                for lay in (getattr(sp, "_mesa_property_layers", None) or {}).values():
                    lay.data[...] = 1
                if _xdescribe(sp2, m2) != snap2:
                    add(cls, "not-independent", "mutating the original changed a copy")
                snapshots.append(d1)
            if len(snapshots) == 2 and snapshots[0] != snapshots[1]:
                add(cls, "depends-on-prior-history", "the same construction and copy, repeated in the same process, gives a different copy")
    except Exception as e:  # noqa: BLE001
        add("driver", "unexpected-exception", f"{type(e).__name__}: {str(e)[:200]}")
    finally:
        gc.enable()
    return {"obs": [], "failures": failures, "model": False}


def _run_exotic_aset(case, add):
    import mesa
    from mesa.agent import AgentSet

    X = _exotic_classes()
    vals = _xvalues()
    salt = case["salt"]
    try:
        m = mesa.Model(seed=1)
        classes = [X["XPlain"], X["XPlainFalsy"], X["XPlain"]]
        agents = []
        for i in range(7):
            a = classes[(i + salt) % 3](m, i + 1)
            if i % 2:
                a.payload = vals[(i + salt) % len(vals)]
            a.history = [i]
            agents.append(a)
        order = agents[salt % 7:] + agents[:salt % 7]
        for aset in (AgentSet(order, random=m.random), AgentSet([], random=m.random),
                     AgentSet(order, random=m.random).select(lambda a: a.vid % 2 == 0)):
            gen = iter(aset)                                   # an abandoned generator over the set
            next(gen, None)
            before = tuple(_xagent(a) for a in aset)
            c1 = _xcopy(aset, case["mech"])
            keep1 = list(c1)
            c2 = _xcopy(aset, case["mech"])
            keep2 = list(c2)
            if tuple(_xagent(a) for a in keep1) != before:
                add("AgentSet", "unfaithful-members", "members (order, classes incl. falsy ones, attributes with their types) of the copy differ")
            if tuple(_xagent(a) for a in keep2) != tuple(_xagent(a) for a in keep1):
                add("AgentSet", "second-copy-differs-members", "two copies taken one after the other differ")
            if len(c1) != len(aset) or any((a in c1) for a in aset):
                add("AgentSet", "not-detached-shared-object", "len differs or the copy contains an agent object of the original")
            if c1.random is aset.random or c1.random.getstate() != aset.random.getstate():
                add("AgentSet", "unfaithful-generator", "random generator shared or not in the original's state")
            if keep1:
                keep1[0].history.append("x")
                c1.discard(keep1[-1])
            if tuple(_xagent(a) for a in aset) != before:
                add("AgentSet", "not-independent", "mutating the copy changed the original")
            nested = _xcopy(c1, 1 - case["mech"])              # copy of a copy, other mechanism
            keepn = list(nested)
            if tuple(_xagent(a) for a in keepn) != tuple(_xagent(a) for a in c1):
                add("AgentSet", "unfaithful-members", "copy of a copy differs")
            del gen
    except Exception as e:  # noqa: BLE001
        add("AgentSet", "unexpected-exception", f"{type(e).__name__}: {str(e)[:200]}")



# ------------------------------------------------------------------ oracle-only stream: several spaces under one root
MULTI_COMBOS = (("moore", "vn"), ("moore", "moore"), ("hex", "net"), ("vn", "vor", "moore"), ("net", "vor"), ("moore", "hex", "vn"))
MULTI_ROOTS = ("model", "space0", "space1", "agent", "agentset", "cell")


def _multi_cases(rng, n):
    return [{"kind": "multi", "stype": "multi", "combo": list(MULTI_COMBOS[i % len(MULTI_COMBOS)]),
             "root": MULTI_ROOTS[rng.randrange(len(MULTI_ROOTS))], "mech": rng.randrange(2), "salt": rng.randrange(1000), "ops": []}
            for i in range(n)]


def _enumerate_multi():
    for combo in MULTI_COMBOS:
        for root in MULTI_ROOTS:
            for mech in (0, 1):
                yield {"kind": "multi", "stype": "multi", "combo": list(combo), "root": root, "mech": mech, "salt": 3, "ops": []}


def _multi_build(case):
    import warnings

    import mesa
    import networkx as nx
    from mesa.discrete_space import HexGrid, Network, OrthogonalMooreGrid, OrthogonalVonNeumannGrid, VoronoiGrid

    X = _exotic_classes()
    salt = case["salt"]
    m = mesa.Model(seed=1)
    spaces = []
    with warnings.catch_warnings():
        warnings.simplefilter("ignore")
        for k, st in enumerate(case["combo"]):
            dims = [(3, 2), (2, 2), (2, 3)][(k + salt) % 3]
            if st == "moore":
                sp = OrthogonalMooreGrid(dims, torus=bool((salt + k) % 2), capacity=2, random=m.random)
            elif st == "vn":
                sp = OrthogonalVonNeumannGrid(dims, torus=False, capacity=None, random=m.random)
            elif st == "hex":
                sp = HexGrid(dims, torus=False, capacity=1, random=m.random)
            elif st == "net":
                sp = Network(nx.path_graph(3 + k), capacity=2, random=m.random)
            else:
                sp = VoronoiGrid(VOR_POINTS[(salt + k) % len(VOR_POINTS)], capacity=None, random=m.random)
            if hasattr(sp, "create_property_layer"):
                # the SAME layer name in every grid, different values
                sp.create_property_layer("elev", default_value=1.5 + 10 * k, dtype=float)
                data = sp._mesa_property_layers["elev"].data
                data += (k + 1) * 0.25 * __import__("numpy").arange(data.size).reshape(data.shape)
            spaces.append(sp)
    m.spaces = spaces
    m.grid = spaces[0]
    vid = 0
    for k, sp in enumerate(spaces):
        cells = list(sp._cells.values())
        for j in range(2):
            vid += 1
            a = X["XBase" if j == 0 else "XSub"](m, vid)
            a.home = k
            a.cell = cells[(j * 2 + salt + k) % len(cells)] if cells[(j * 2 + salt + k) % len(cells)].is_empty or sp.capacity != 1 \
                else next(c for c in cells if c.is_empty)
    return m, spaces


def _multi_locate(case, root, m, spaces):
    """the object to copy, and how to find the copied model in the copy"""
    if root == "model":
        return m, lambda c: c
    if root in ("space0", "space1"):
        sp = spaces[int(root[-1])]
        return sp, lambda c: next(a for cell in c._cells.values() for a in cell._agents).model
    if root == "agent":
        return next(a for cell in spaces[-1]._cells.values() for a in cell._agents), lambda c: c.model
    if root == "agentset":
        return m.agents, lambda c: list(c)[0].model
    cell = next(cell for cell in spaces[-1]._cells.values() if cell._agents)
    return cell, lambda c: c._agents[0].model


def _run_multi(case):
    import gc
    import warnings

    failures = []

    def add(key, what):
        failures.append({"key": f"C19/multi/{key}", "op": 0, "what": f"[{'+'.join(case['combo'])}, root={case['root']}, "
                         f"{MECH[case['mech']]}, salt={case['salt']}] {what}"})

    def layer_bytes(sps):
        return [tuple((n, l.data.tobytes()) for n, l in getattr(sp, "_mesa_property_layers", {}).items()) for sp in sps]

    def wiring(sp, k, when):
        layers = getattr(sp, "_mesa_property_layers", None)
        if not isinstance(layers, dict):
            return
        for c in sp._cells.values():
            for n, lay in layers.items():
                try:
                    v = getattr(c, n)
                except AttributeError:
                    add("cell-attribute-missing", f"{when}: a cell of copied space {k} has no attribute {n!r}")
                    return
                own = lay.data[c.coordinate]
                if not (v == own or (v != v and own != own)):
                    add("cell-attribute-not-own-layer", f"{when}: cell {c.coordinate} of copied space {k} reads {n} = {v!r} but "
                                                        f"that space's own layer holds {own!r}")
                    return
            if "empty" in layers and bool(c.empty) != bool(c.is_empty):
                add("empty-layer-not-tracking", f"{when}: cell {c.coordinate} of copied space {k} has empty = {bool(c.empty)} "
                                                f"but is_empty = {c.is_empty}")
                return

    gc.disable()
    try:
        with warnings.catch_warnings():
            warnings.simplefilter("ignore")
            m, spaces = _multi_build(case)
            before = [_xdescribe(sp, None) for sp in spaces]
            reg_before = tuple(_xagent(a) for a in m._agents)
            obj, find_model = _multi_locate(case, case["root"], m, spaces)
            try:
                cp = _xcopy(obj, case["mech"])
                keep = list(cp) if case["root"] == "agentset" else None
                m2 = find_model(cp)
                spaces2 = list(m2.spaces)
            except Exception as e:  # noqa: BLE001
                if case["root"] == "cell":
                    # a lone CELL as the root of a copy is outside the statement (AgentSets and spaces with their agents):
                    # the cell is still being restored when its space is (space -> cells -> this very cell), so
                    # _connect_cells meets a cell without coordinate.  Counted, cannot raise a verdict; when the copy
                    # does succeed every check below applies.
                    return {"obs": [], "failures": failures, "model": False}
                add("copy-raises", f"copying raised {type(e).__name__}: {str(e)[:150]}")
                return {"obs": [], "failures": failures, "model": False}
            if tuple(_xagent(a) for a in m2._agents) != reg_before:
                add("unfaithful-registry", "the registry of the copied model differs")
            for k, (sp, sp2) in enumerate(zip(spaces, spaces2)):
                d2 = _xdescribe(sp2, None)
                for aspect in before[k]:
                    if d2[aspect] != before[k][aspect]:
                        add(f"unfaithful-{aspect}", f"{aspect} of copied space {k} ({type(sp).__name__}) differ from its original")
                wiring(sp2, k, "right after the copy")
                if any(a.model is not m2 for c in sp2._cells.values() for a in c._agents):
                    add("agent-model-not-the-copys-model", f"an agent in copied space {k} points to another model")
            ids = lambda sps: {id(x) for sp in sps for x in [sp, *sp._cells.values(), *getattr(sp, "_mesa_property_layers", {}).values()]}  # noqa: E731
            if ids(spaces) & ids(spaces2) or m2 is m:
                add("not-detached-shared-object", "a copied space shares a space / cell / layer object with an original")
            # write through a cell attribute of copy k: only copy k's own layer may change
            for k, sp2 in enumerate(spaces2):
                if not hasattr(sp2, "_mesa_property_layers"):
                    continue
                snap_o, snap_c = layer_bytes(spaces), layer_bytes(spaces2)
                c0 = list(sp2._cells.values())[-1]
                c0.elev = 99.5 + k
                now_o, now_c = layer_bytes(spaces), layer_bytes(spaces2)
                if now_o != snap_o:
                    add("write-reaches-another-space", f"writing cell.elev on copied space {k} changed a layer of an ORIGINAL space")
                for j in range(len(spaces2)):
                    if j != k and now_c[j] != snap_c[j]:
                        add("write-reaches-another-space", f"writing cell.elev on copied space {k} changed a layer of copied space {j}")
                if sp2._mesa_property_layers["elev"].data[c0.coordinate] != 99.5 + k:
                    add("cell-attribute-not-own-layer", f"writing cell.elev on copied space {k} did not reach that space's own layer")
            # continue: move an agent inside every copy; its empty layer must keep tracking, the originals must not move
            for k, sp2 in enumerate(spaces2):
                ags = [a for c in sp2._cells.values() for a in c._agents]
                free = [c for c in sp2._cells.values() if c.is_empty]
                if ags and free:
                    ags[0].cell = free[0]
                wiring(sp2, k, "after a move inside the copy")
            for k, sp in enumerate(spaces):
                if _xdescribe(sp, None) != before[k]:
                    add("not-independent", f"operations on the copies changed original space {k}")
            del keep
    except Exception as e:  # noqa: BLE001
        add("unexpected-exception", f"{type(e).__name__}: {str(e)[:200]}")
    finally:
        gc.enable()
    return {"obs": [], "failures": failures, "model": False}



# ------------------------------------------------------------------ oracle-only stream: process-level SCALE
SCALE_THRESHOLDS = (255, 256, 257, 300, 512, 600)


def _scale_cases(rng, tier):
    """a handful per quick run, many more in thorough; sizes cross 255/256/257/512 (registries, caches), 1000/1025/2049/4096"""
    def one(variant, n):
        return {"kind": "scale", "stype": "scale", "variant": variant, "n": n, "mech": rng.randrange(2), "salt": rng.randrange(1000), "ops": []}
    if tier == "quick":
        return [one("idle-subject", rng.choice((257, 300))), one("idle-subject", 520), one("copy-chain", 130), one("many-copies", 260),
                one("big-agentset", rng.choice((1025, 2049))), one("big-space", rng.choice((400, 1089)))]
    out = []
    for n in SCALE_THRESHOLDS:
        out += [one("idle-subject", n), one("idle-subject", n)]
    out += [one("copy-chain", n) for n in (100, 257, 300)] + [one("many-copies", n) for n in (257, 513)]
    out += [one("big-agentset", n) for n in (1000, 1001, 1025, 2049, 4096)] + [one("big-space", n) for n in (256, 400, 1089)]
    return out


def _enumerate_scale():
    for n in SCALE_THRESHOLDS:
        for mech in (0, 1):
            yield {"kind": "scale", "stype": "scale", "variant": "idle-subject", "n": n, "mech": mech, "salt": n, "ops": []}
    for variant, sizes in (("copy-chain", (257, 520)), ("many-copies", (257, 520)), ("big-agentset", (1025, 4097)), ("big-space", (400, 1089))):
        for n in sizes:
            for mech in (0, 1):
                yield {"kind": "scale", "stype": "scale", "variant": variant, "n": n, "mech": mech, "salt": 5, "ops": []}


def _scale_subject(salt, dims=(3, 2), n_agents=3):
    import warnings

    import mesa
    from mesa.discrete_space import OrthogonalMooreGrid, OrthogonalVonNeumannGrid

    X = _exotic_classes()
    m = mesa.Model(seed=1)
    with warnings.catch_warnings():
        warnings.simplefilter("ignore")
        cls = OrthogonalMooreGrid if salt % 2 else OrthogonalVonNeumannGrid
        sp = cls(dims, torus=bool(salt % 3 == 0), capacity=2, random=m.random)
        sp.create_property_layer("elev", default_value=1.5, dtype=float)
        data = sp._mesa_property_layers["elev"].data
        data += 0.25 * __import__("numpy").arange(data.size).reshape(data.shape)
    m.grid = sp
    cells = list(sp._cells.values())
    for i in range(n_agents):
        a = X["XBase" if i % 2 else "XSub"](m, i + 1)
        a.cell = cells[(i * 7 + salt) % len(cells)] if len(cells[(i * 7 + salt) % len(cells)]._agents) < 2 else next(c for c in cells if c.is_empty)
    return m, sp


def _scale_check(add, m, sp, m2, sp2, when):
    """the full faithfulness + detachment check of one copy against its source, incl. writes and moves on both sides"""
    import pickle

    def lb(x):
        return tuple((n, l.data.tobytes()) for n, l in x._mesa_property_layers.items())

    def wiring(x, who):
        for c in x._cells.values():
            for n, lay in x._mesa_property_layers.items():
                v = getattr(c, n, "MISSING")
                if isinstance(v, str) or v != lay.data[c.coordinate]:
                    add("cell-attribute-not-own-layer", f"{when}: cell {c.coordinate} of the {who} reads {n} = {v!r} but its own layer holds {lay.data[c.coordinate]!r}")
                    return False
            if bool(c.empty) != bool(c.is_empty):
                add("empty-layer-not-tracking", f"{when}: cell {c.coordinate} of the {who} has empty = {bool(c.empty)} but is_empty = {c.is_empty}")
                return False
        return True

    d0 = _xdescribe(sp, m)
    d2 = _xdescribe(sp2, m2)
    for aspect in d0:
        if d2[aspect] != d0[aspect]:
            add(f"unfaithful-{aspect}", f"{when}: {aspect} of the copy differ from the original")
    ids = lambda x, mm: {id(x), id(mm)} | {id(c) for c in x._cells.values()} | {id(a) for a in mm._agents} | {id(l) for l in x._mesa_property_layers.values()}  # noqa: E731
    if ids(sp, m) & ids(sp2, m2):
        add("not-detached-shared-object", f"{when}: the copy shares a space / cell / agent / layer object with the original")
    if not (wiring(sp, "original") and wiring(sp2, "copy")):
        return
    # write through the copy: only the copy's layer moves
    o_l, c2 = lb(sp), list(sp2._cells.values())[-1]
    c2.elev = 77.25
    if lb(sp) != o_l or _xdescribe(sp, m) != d0:
        add("not-independent", f"{when}: a write through a cell attribute of the COPY changed the original")
    if sp2._mesa_property_layers["elev"].data[c2.coordinate] != 77.25:
        add("cell-attribute-not-own-layer", f"{when}: a write through a cell attribute of the copy did not reach the copy's own layer")
    # write through the original: only the original's layer moves
    c_l, c0 = lb(sp2), list(sp._cells.values())[0]
    c0.elev = 55.5
    if lb(sp2) != c_l:
        add("not-independent", f"{when}: a write through a cell attribute of the ORIGINAL changed the copy")
    if sp._mesa_property_layers["elev"].data[c0.coordinate] != 55.5:
        add("cell-attribute-not-own-layer", f"{when}: a write through a cell attribute of the original did not reach the original's own layer")
    # moves on both sides
    for who, x, other, omodel in (("copy", sp2, sp, m), ("original", sp, sp2, m2)):
        snap = _xdescribe(other, omodel)
        ags = [a for c in x._cells.values() for a in c._agents]
        free = [c for c in x._cells.values() if c.is_empty]
        if ags and free:
            ags[0].cell = free[0]
        wiring(x, who)
        wiring(other, "copy" if who == "original" else "original")
        if _xdescribe(other, omodel) != snap:
            add("not-independent", f"{when}: a move on the {who} changed the other side")
    try:
        pickle.dumps(sp)
        __import__("copy").deepcopy(sp)
    except Exception as e:  # noqa: BLE001
        add("original-no-longer-copyable", f"{when}: copying / pickling the original afterwards raised {type(e).__name__}: {str(e)[:120]}")


def _run_scale(case):
    import gc
    import warnings

    failures = []
    v, n, mech, salt = case["variant"], case["n"], case["mech"], case["salt"]

    def add(key, what):
        failures.append({"key": f"C19/scale/{key}", "op": 0, "what": f"[{v}, n={n}, {MECH[mech]}, salt={salt}] {what}"})

    gc.disable()
    try:
        with warnings.catch_warnings():
            warnings.simplefilter("ignore")
            import mesa
            from mesa.agent import AgentSet
            from mesa.discrete_space import Network, OrthogonalMooreGrid

            if v == "idle-subject":
                # the subject is built FIRST and sits idle while n other grids are built, deep-copied and pickled
                m, sp = _scale_subject(salt)
                om = mesa.Model(seed=2)
                for i in range(n):
                    g = OrthogonalMooreGrid((1, 1) if i % 2 else (2, 2), torus=False, random=om.random)
                    if i % 5 == 1:
                        _xcopy(g, 0)
                    elif i % 5 == 3:
                        _xcopy(g, 1)
                obj = sp if salt % 2 else m
                cp = _xcopy(obj, mech)
                sp2, m2 = (cp, next(a for c in cp._cells.values() for a in c._agents).model) if salt % 2 else (cp.grid, cp)
                _scale_check(add, m, sp, m2, sp2, f"after {n} other grids were built / copied")
            elif v == "copy-chain":
                m, sp = _scale_subject(salt, dims=(2, 2), n_agents=2)
                cur = m
                for i in range(n):
                    cur = _xcopy(cur, (mech + i) % 2)
                _scale_check(add, m, sp, cur, cur.grid, f"the {n}-th copy of a copy")
            elif v == "many-copies":
                m, sp = _scale_subject(salt, dims=(2, 2), n_agents=2)
                copies = [_xcopy(m, (mech + i) % 2) for i in range(n)]
                d0 = _xdescribe(sp, m)
                for i in (0, n // 2, n - 2):
                    if _xdescribe(copies[i].grid, copies[i]) != d0:
                        add("unfaithful-cells", f"copy {i} of {n} copies of one space differs from the original")
                _scale_check(add, m, sp, copies[n - 1], copies[n - 1].grid, f"the last of {n} copies of one space")
                if _xdescribe(copies[0].grid, copies[0]) != d0:
                    add("not-independent", "operations on the original and on the last copy changed the first copy")
                if len({id(type(next(iter(c.grid._cells.values())))) for c in copies}) != n:
                    add("not-detached-shared-object", f"{n} copies of one grid do not have {n} distinct cell classes")
            elif v == "big-agentset":
                X = _exotic_classes()
                m = mesa.Model(seed=1)
                agents = [X["XPlain" if i % 3 else "XPlainFalsy"](m, i + 1) for i in range(n)]
                order = agents[salt % n:] + agents[:salt % n]
                aset = AgentSet(order, random=m.random)
                before = [a.vid for a in aset]
                cp = _xcopy(aset, mech)
                keep = list(cp)
                if [a.vid for a in keep] != before or len(cp) != n:
                    add("unfaithful-members", f"the copy of an AgentSet with {n} members has other members or another order")
                if [type(a).__name__ for a in keep] != [type(a).__name__ for a in order]:
                    add("unfaithful-members", "classes of the members differ")
                if {id(a) for a in keep} & {id(a) for a in agents} or cp.random is aset.random:
                    add("not-detached-shared-object", "the copy shares an agent or the generator with the original")
                if cp.random.getstate() != aset.random.getstate():
                    add("unfaithful-generator", "generator state not carried")
                cp.discard(keep[0])
                keep[-1].vid = -5
                if [a.vid for a in aset] != before:
                    add("not-independent", "mutating the copy changed the original")
            else:   # big-space: hundreds of cells and agents, warm neighbourhood caches
                side = int(n ** 0.5)
                m, sp = _scale_subject(salt, dims=(side, side), n_agents=min(300, n // 2))
                for c in sp._cells.values():
                    c.neighborhood
                cp = _xcopy(m, mech)
                _scale_check(add, m, sp, cp, cp.grid, f"a grid with {side * side} cells and {min(300, n // 2)} agents")
                import networkx as nx
                m3 = mesa.Model(seed=1)
                net = Network(nx.cycle_graph(n), capacity=None, random=m3.random)
                for c in net._cells.values():
                    c.neighborhood
                X = _exotic_classes()
                for i in range(min(300, n // 2)):
                    X["XBase"](m3, i + 1).cell = net._cells[(i * 3) % n]
                m3.grid = net
                cp3 = _xcopy(m3, mech)
                if _xdescribe(cp3.grid, cp3) != _xdescribe(net, m3):
                    add("unfaithful-cells", f"the copy of a {n}-node network with agents differs from the original")
                why = _xnbhd_ok(cp3.grid)
                if why:
                    add("cached-neighborhood-stale", why)
    except Exception as e:  # noqa: BLE001
        add("raises", f"{type(e).__name__}: {str(e)[:200]}")
    finally:
        gc.enable()
    return {"obs": [], "failures": failures, "model": False}



# ------------------------------------------------------------------ oracle-only stream: USER subclasses and callbacks
_UCLS = {}
USER_CELLS = ("UCellDefaults", "UCellCached", "UCellState", "UCellSlots")
USER_SPACES = ("net", "vor", "moore", "ugrid", "unet")
USER_ROOTS = ("model", "space", "agent", "agentset", "userset", "callback")


def _user_classes():
    if not _UCLS:
        from functools import cached_property

        import mesa
        from mesa.agent import AgentSet
        from mesa.discrete_space import Cell, CellAgent, Network, OrthogonalMooreGrid, PropertyLayer

        class UCellDefaults(Cell):
            """class-level defaults that instances override"""
            empty = True
            visits = 0
            tags = ()

        class UCellCached(Cell):
            """an additional cached_property and an extra instance attribute"""
            @cached_property
            def wide(self):
                return self.get_neighborhood(radius=2)

        class UCellDefaultsG(Cell):
            """the same for grids (a class attribute `empty` would clash with the grid's own layer)"""
            visits = 0
            tags = ()

        class UCellState(Cell):
            """__getstate__ / __setstate__ overridden, calling super / doing what the default does, plus bookkeeping"""
            calls = 0

            def __getstate__(self):
                type(self).calls += 1
                return super().__getstate__()

            def __setstate__(self, state):
                d, slots = state
                if d:
                    self.__dict__.update(d)
                for k, v in (slots or {}).items():
                    setattr(self, k, v)

        class UCellSlots(Cell):
            """a subclass that declares a slot of its own"""
            __slots__ = ["extra"]

        class UAgent(CellAgent):
            def __init__(self, model, vid):
                super().__init__(model)
                self.vid = vid

        class UAgentSlots(UAgent):
            __slots__ = ("energy",)

        class UAgentState(UAgent):
            calls = 0

            def __getstate__(self):
                type(self).calls += 1
                return dict(self.__dict__)

            def __setstate__(self, state):
                self.__dict__.update(state)

        class UAgentFalsy(UAgent):
            def __bool__(self):
                return False

        class UAgentValueEq(UAgent):
            """value-based equality (used for model-rooted copies only: a value hash cannot work while the object is restored)"""
            def __eq__(self, other):
                return isinstance(other, UAgentValueEq) and (self.unique_id, id(self.model)) == (other.unique_id, id(other.model))

            def __hash__(self):
                return hash(self.unique_id)

        class UAgentSet(AgentSet):
            """docstring-only subclass with a helper"""
            def labels(self):
                return [a.vid for a in self]

        class UGrid(OrthogonalMooreGrid):
            """a space subclass with an extra attribute and a hook that calls super"""
            def __init__(self, *a, note="ugrid", **kw):
                super().__init__(*a, **kw)
                self.note = note

            def _connect_cells(self):
                super()._connect_cells()
                self.connected = getattr(self, "connected", 0) + 1

        class UNetwork(Network):
            def __init__(self, *a, note="unet", **kw):
                super().__init__(*a, **kw)
                self.note = note

        class ULayer(PropertyLayer):
            def __init__(self, *a, unit="m", **kw):
                super().__init__(*a, **kw)
                self.unit = unit

        class UModel(mesa.Model):
            """a model subclass whose step runs user code that copies the model in the middle of an activation"""
            def __init__(self, seed=None):
                super().__init__(seed=seed)
                self.copies = []

        for k in (UCellDefaults, UCellDefaultsG, UCellCached, UCellState, UCellSlots, UAgent, UAgentSlots, UAgentState, UAgentFalsy, UAgentValueEq,
                  UAgentSet, UGrid, UNetwork, ULayer, UModel):
            k.__module__ = __name__
            k.__qualname__ = k.__name__
            globals()[k.__name__] = k
            _UCLS[k.__name__] = k
    return _UCLS


def _user_cases(rng, n):
    out = []
    for i in range(n):
        out.append({"kind": "user", "stype": "user", "cell": USER_CELLS[i % len(USER_CELLS)], "space": USER_SPACES[(i // 4) % len(USER_SPACES)],
                    "root": USER_ROOTS[rng.randrange(len(USER_ROOTS))], "mech": rng.randrange(2), "salt": rng.randrange(1000), "ops": []})
    return out


def _enumerate_user():
    for cell in USER_CELLS:
        for space in USER_SPACES:
            for root in USER_ROOTS:
                for mech in (0, 1):
                    yield {"kind": "user", "stype": "user", "cell": cell, "space": space, "root": root, "mech": mech, "salt": 11, "ops": []}


def _udescribe(sp, model):
    """_xdescribe + the user-visible extras: classes of space / cells / layers, extra attributes of the space and the layers,
    slots added by subclasses"""
    d = _xdescribe(sp, model)
    isgrid = hasattr(sp, "_mesa_property_layers")
    if isgrid:
        # pickle_gridcell drops the instance __dict__ of grid cells (documented, C19_user_attrs_carried): not compared
        d["cells"] = tuple(x[:4] + x[5:] for x in d["cells"])
    d["classes"] = (type(sp).__qualname__, tuple(sorted({b.__qualname__ for c in sp._cells.values() for b in type(c).__mro__[:2]})),
                    tuple((n, type(l).__qualname__, _canon(getattr(l, "unit", None))) for n, l in getattr(sp, "_mesa_property_layers", {}).items()))
    d["space_attrs"] = tuple((k, _canon(v)) for k, v in sorted(vars(sp).items()) if k in ("note", "capacity", "torus", "dimensions"))
    d["slots"] = tuple(_canon(getattr(c, "extra", "UNSET")) for c in sp._cells.values())
    d["agent_slots"] = tuple(_canon(getattr(a, "energy", "UNSET")) for c in sp._cells.values() for a in c._agents)
    d["cell_attr_reads"] = tuple((bool(c.empty) if hasattr(c, "empty") else "MISSING",
                                  "NA" if isgrid else getattr(c, "visits", "NA"), "NA" if isgrid else _canon(getattr(c, "note", "NA")))
                                 for c in sp._cells.values())
    return d


def _head_handles_subclass_slots():
    U = _user_classes()
    c = U["UCellSlots"]((0, 0))
    c.extra = 1
    st = c.__getstate__()
    return isinstance(st, tuple) and len(st) == 2 and isinstance(st[1], dict) and "coordinate" in st[1] and "extra" in st[1]


def _user_build(case):
    import warnings

    import networkx as nx
    from mesa.discrete_space import Network, OrthogonalMooreGrid, VoronoiGrid

    U = _user_classes()
    salt = case["salt"]
    grid_space = case["space"] in ("moore", "ugrid")
    cellk = U["UCellDefaultsG" if (case["cell"] == "UCellDefaults" and grid_space) else case["cell"]]
    m = U["UModel"](seed=1)
    with warnings.catch_warnings():
        warnings.simplefilter("ignore")
        st = case["space"]
        if st == "net":
            sp = Network(nx.cycle_graph(5), capacity=2, random=m.random, cell_klass=cellk)
        elif st == "unet":
            sp = U["UNetwork"](nx.path_graph(4), capacity=None, random=m.random, cell_klass=cellk, note="n%d" % salt)
        elif st == "vor":
            sp = VoronoiGrid(VOR_POINTS[salt % len(VOR_POINTS)], capacity=None, random=m.random, cell_klass=cellk)
        elif st == "ugrid":
            sp = U["UGrid"]((2, 3), torus=False, capacity=2, random=m.random, cell_klass=cellk, note="g%d" % salt)
        else:
            sp = OrthogonalMooreGrid((3, 2), torus=True, capacity=2, random=m.random, cell_klass=cellk)
        if hasattr(sp, "add_property_layer"):
            lay = U["ULayer"]("heat", sp.dimensions, default_value=0.5, dtype=float, unit="K")
            sp.add_property_layer(lay)
            lay.data[...] = lay.data + 0.125 * __import__("numpy").arange(lay.data.size).reshape(lay.data.shape)
    m.grid = sp
    cells = list(sp._cells.values())
    for i, c in enumerate(cells):
        if case["cell"] == "UCellDefaults":
            c.visits = i + salt                   # per-instance values over class-level defaults
            if i % 2:
                c.tags = ("t", i)
        elif case["cell"] == "UCellCached":
            c.note = [i, "note"]
            c.wide                                # cache the additional cached_property
            c.neighborhood
        elif case["cell"] == "UCellSlots":
            c.extra = i * 10 + 1
        else:
            c.payload = {"i": i}
    kinds = ["UAgent", "UAgentSlots", "UAgentState", "UAgentFalsy"] + (["UAgentValueEq"] if case["root"] in ("model", "callback") else [])
    for i in range(5):
        a = U[kinds[(i + salt) % len(kinds)]](m, i + 1)
        a.bag = [i]
        if isinstance(a, U["UAgentSlots"]):
            a.energy = 2.5 + i
        try:
            a.cell = cells[(i * 2 + salt) % len(cells)]
        except Exception as e:  # noqa: BLE001
            if not (_raised_in(e, "add_agent") and type(e) is Exception):
                raise
    m.uset = U["UAgentSet"](list(m._agents)[::-1], random=m.random)
    return m, sp


def _run_user(case):
    import gc
    import warnings

    failures = []

    def add(key, what):
        failures.append({"key": f"C19/user/{key}", "op": 0, "what": f"[cell_klass={case['cell']}, space={case['space']}, root={case['root']}, "
                         f"{MECH[case['mech']]}, salt={case['salt']}] {what}"})

    gc.disable()
    try:
        with warnings.catch_warnings():
            warnings.simplefilter("ignore")
            U = _user_classes()
            if case["cell"] == "UCellSlots" and not _head_handles_subclass_slots():
                # FINDING (reported): Cell.__getstate__ iterates self.__slots__, which for a subclass that declares slots of its
                # own is the SUBCLASS's list only - coordinate, _agents, capacity ... are not carried and the copy cannot even be
                # reconnected.  Until that is repaired in the source this variant cannot be demanded; it switches itself on when
                # the probe sees the base slots in the state.
                return {"obs": [], "failures": failures, "model": False}
            m, sp = _user_build(case)
            before = _udescribe(sp, m)
            uset_before = [(type(a).__qualname__, a.vid) for a in m.uset]
            root = case["root"]
            try:
                if root == "callback":
                    # user code inside an activation copies the model; a later callback raises half-way, the caller carries on
                    def hook(agent):
                        if agent.vid == 2:
                            agent.model.copies.append(_xcopy(agent.model, case["mech"]))
                        if agent.vid == 4:
                            raise KeyError("user code fails half-way")
                    try:
                        m.agents.do(hook)
                    except KeyError:
                        pass
                    if not m.copies:
                        return {"obs": [], "failures": failures, "model": False}
                    m2 = m.copies.pop()
                    m.copies.clear()
                    before = _udescribe(sp, m)
                    m2.copies.clear()
                elif root == "model":
                    m2 = _xcopy(m, case["mech"])
                elif root == "space":
                    cp = _xcopy(sp, case["mech"])
                    m2 = next(a for c in cp._cells.values() for a in c._agents).model
                elif root == "agent":
                    m2 = _xcopy(next(a for c in sp._cells.values() for a in c._agents), case["mech"]).model
                elif root == "agentset":
                    cp = _xcopy(m.agents, case["mech"])
                    keep = list(cp)
                    m2 = keep[0].model
                else:
                    cp = _xcopy(m.uset, case["mech"])
                    keep = list(cp)
                    if type(cp) is not U["UAgentSet"]:
                        add("unfaithful-class", f"the copy of an AgentSet subclass is a {type(cp).__qualname__}")
                    if [(type(a).__qualname__, a.vid) for a in keep] != uset_before or cp.labels() != [v for _, v in uset_before]:
                        add("unfaithful-members", "members / order of the copied AgentSet subclass differ")
                    m2 = keep[0].model
            except Exception as e:  # noqa: BLE001
                add("copy-raises", f"copying raised {type(e).__name__}: {str(e)[:160]}")
                return {"obs": [], "failures": failures, "model": False}
            sp2 = m2.grid
            d2 = _udescribe(sp2, m2)
            for aspect in before:
                if d2[aspect] != before[aspect]:
                    add(f"unfaithful-{aspect}", f"{aspect} of the copy differ from the original (user attributes and classes included)")
            if [(type(a).__qualname__, a.vid) for a in m2.uset] != uset_before or type(m2.uset) is not U["UAgentSet"]:
                add("unfaithful-members", "the AgentSet subclass held by the model was not carried faithfully")
            ids = lambda x, mm: {id(x), id(mm)} | {id(c) for c in x._cells.values()} | {id(a) for a in mm._agents}  # noqa: E731
            if ids(sp, m) & ids(sp2, m2):
                add("not-detached-shared-object", "the copy shares a space / cell / agent object with the original")
            why = _xnbhd_ok(sp2)
            if why:
                add("cached-neighborhood-stale", why)
            own = {id(c) for c in sp2._cells.values()}
            for c in sp2._cells.values():
                if "wide" in c.__dict__ and any(id(x) not in own for x in c.wide):
                    add("cached-neighborhood-stale", "a cached_property added by the Cell subclass refers to cells of the original")
                    break
            if isinstance(sp2, U["UGrid"]) and getattr(sp2, "connected", 0) < 1:
                add("unfaithful-space_attrs", "the overridden _connect_cells hook did not run for the copy")
            # continue on the copy: moves, attribute writes; the original must not move; the copy keeps behaving
            ags = [a for c in sp2._cells.values() for a in c._agents]
            free = [c for c in sp2._cells.values() if c.is_empty]
            if ags and free:
                ags[0].cell = free[0]
                ags[0].bag.append("moved")
            for c in sp2._cells.values():
                if hasattr(c, "visits"):
                    c.visits = -1
                if hasattr(sp2, "_mesa_property_layers") and bool(c.empty) != bool(c.is_empty):
                    add("empty-layer-not-tracking", f"after a move on the copy cell {c.coordinate} has empty = {bool(c.empty)}, is_empty = {c.is_empty}")
                    break
            if _udescribe(sp, m) != before:
                add("not-independent", "operations on the copy changed the original")
    except Exception as e:  # noqa: BLE001
        add("unexpected-exception", f"{type(e).__name__}: {str(e)[:200]}")
    finally:
        gc.enable()
    return {"obs": [], "failures": failures, "model": False}


def _run_aset(case):
    import copy
    import gc
    import pickle

    import mesa
    from mesa.agent import AgentSet

    _agent_classes()
    plain = _AGENT_CLASSES["plain"]
    gc.disable()
    obs, failures = [], []
    m0 = mesa.Model(seed=1)
    tab0 = {}
    for lab in sorted(case["init"]):
        tab0[lab] = plain(m0, lab)
    sides = [{"set": AgentSet([tab0[lab] for lab in case["init"]], random=m0.random), "tab": tab0, "model": m0,
              "shadow": list(case["init"]), "keep": list(tab0.values()), "pinned": True}]
    del m0, tab0      # the side record holds the only strong references (see "sforget")
    a = new = keep = ns = tab2 = m2 = None

    def add(i, key, what):
        failures.append({"key": f"C19/AgentSet/{key}", "op": i, "what": what})

    def view(s):
        return [getattr(a, "vid", -1) for a in s["set"]]

    prev = [view(sides[0])]
    prev_rng = [sides[0]["set"].random.getstate()]
    ops_for_model = [list(o) for o in case["ops"]]
    for i, op in enumerate(case["ops"]):
        kind = op[0]
        res = [-2]
        touched = None
        try:
            if kind == "scopy":
                _, mech, src = op
                if 0 <= src < len(sides) and len(sides) < MAX_SIDES:
                    s = sides[src]
                    try:
                        new = copy.deepcopy(s["set"]) if mech == 0 else pickle.loads(pickle.dumps(s["set"]))  # noqa: S301
                        keep = list(new)
                    except Exception as e:  # noqa: BLE001
                        add(i, "copy/raises", f"{MECH[mech]} of an AgentSet raised {type(e).__name__}: {str(e)[:200]}")
                        new = None
                        res = [-1, 99]
                    if new is not None:
                        tab2 = {getattr(a, "vid", -1): a for a in keep}
                        m2 = keep[0].model if keep else mesa.Model(seed=1)
                        ns = {"set": new, "tab": tab2, "model": m2, "shadow": list(s["shadow"]), "keep": keep, "pinned": False}
                        sides.append(ns)
                        touched = len(sides) - 1
                        res = [0]
                        if view(ns) != prev[src]:
                            add(i, "copy/unfaithful-members", f"{MECH[mech]} of an AgentSet with members {prev[src]} has members {view(ns)}")
                        if len(new) != len(prev[src]):
                            add(i, "copy/unfaithful-members", f"len of the copy {len(new)} != {len(prev[src])}")
                        if new.random is s["set"].random:
                            add(i, "copy/not-detached-shared-object", "the copy shares the random generator object")
                        elif new.random.getstate() != s["set"].random.getstate():
                            add(i, "copy/unfaithful-generator", "the copy's generator is not in the state of the original's")
                        prev.append(view(ns))
            elif kind in ("sdraw", "sshuffle"):
                # shuffle_do / shuffle(inplace=False) draw without changing the order; shuffle(inplace=True) re-orders: the
                # new order is an outcome recorded for the model, which checks that it is a permutation of the members
                s_i = op[1]
                if 0 <= s_i < len(sides):
                    s = sides[s_i]
                    touched = s_i
                    before = s["set"].random.getstate()
                    old_view = view(s)
                    if kind == "sdraw" and op[2] == 0:
                        s["set"].shuffle_do(lambda agent: None)
                    elif kind == "sdraw":
                        other = s["set"].shuffle(inplace=False)
                        if sorted(getattr(x, "vid", -1) for x in other) != sorted(old_view):
                            add(i, "copy/not-fresh-members", "shuffle(inplace=False) returned a set with other members")
                        other = None
                    else:
                        s["set"].shuffle(inplace=True)
                        new_view = view(s)
                        ops_for_model[i] = ["sshuffle", s_i, new_view]
                        if sorted(new_view) != sorted(old_view):
                            add(i, "copy/not-fresh-members", f"shuffle(inplace=True) changed the members: {old_view} -> {new_view}")
                        s["shadow"] = list(new_view)
                    changed = 1 if s["set"].random.getstate() != before else 0
                    res = [0, changed]
                    if changed != (1 if len(old_view) >= 2 else 0):
                        add(i, "copy/random-draw-ignores-own-generator",
                            f"{op}: shuffling {len(old_view)} members {'did not use' if not changed else 'used'} the set's own generator")
            elif kind == "sforget":
                # the program drops every strong reference to the members (and to their model); an AgentSet holds its
                # members weakly, so after a collection it is empty - documented weak-reference behaviour
                s_i = op[1]
                if 0 <= s_i < len(sides):
                    s = sides[s_i]
                    touched = s_i
                    a = new = keep = ns = tab2 = m2 = None
                    if s["pinned"]:
                        # Agent._ids (class-level, keyed by model) holds a model for ever once an agent was created with
                        # it, and the model's registry holds its agents: nothing can be forgotten on such a side
                        res = [-2]
                    else:
                        s["keep"], s["tab"], s["model"], s["shadow"] = [], {}, None, []
                        gc.collect()
                        res = [0]
                    if not s["pinned"] and (len(s["set"]) != 0 or list(s["set"])):
                        add(i, "weakref/members-survive-without-references",
                            f"after the last strong reference to its members was dropped and gc.collect() the set still has "
                            f"{len(s['set'])} members")
            else:
                _, s_i, lab = op
                if 0 <= s_i < len(sides):
                    s = sides[s_i]
                    touched = s_i
                    a = s["tab"].get(lab)
                    if s["model"] is None:
                        s["model"] = mesa.Model(seed=1)
                    if a is None:
                        a = plain(s["model"], lab)
                        s["pinned"] = True
                        s["tab"][lab] = a
                        s["keep"].append(a)
                    sh = s["shadow"]
                    exp = [0]
                    if kind == "sadd":
                        s["set"].add(a)
                        if lab not in sh:
                            sh.append(lab)
                    elif kind == "sdiscard":
                        s["set"].discard(a)
                        if lab in sh:
                            sh.remove(lab)
                    else:
                        if lab in sh:
                            sh.remove(lab)
                        else:
                            exp = [-1, E_KEY]
                        try:
                            s["set"].remove(a)
                        except KeyError:
                            res = [-1, E_KEY]
                        else:
                            res = [0]
                    if kind != "sremove":
                        res = [0]
                    if res != exp:
                        add(i, f"copy/not-fresh-{kind}-result", f"{op} answered {res}, ordered-set semantics require {exp}")
        except Exception as e:  # noqa: BLE001
            res = [-1, 99]
            add(i, f"{kind}/unexpected-exception", f"{op} raised {type(e).__name__}: {str(e)[:200]}")
        cur = [view(s) for s in sides]
        o = list(res)
        shared = 0
        for k, v in enumerate(cur):
            o += [-(200 + k), len(sides[k]["set"])] + v
        for a in range(len(sides)):
            for b in range(a + 1, len(sides)):
                ia = {id(x) for x in sides[a]["set"]} | {id(sides[a]["set"])} | {id(x) for x in sides[a]["tab"].values()}
                ib = {id(x) for x in sides[b]["set"]} | {id(sides[b]["set"])} | {id(x) for x in sides[b]["tab"].values()}
                if ia & ib:
                    shared = 1
        o.append(0 if shared else 1)
        o.append(1)
        rng_bad = []
        cur_rng = [s["set"].random.getstate() for s in sides]
        for k in range(len(sides)):
            for k2 in range(k + 1, len(sides)):
                if sides[k]["set"].random is sides[k2]["set"].random:
                    rng_bad.append(("copy/random-generator-shared", f"agent sets {k} and {k2} share a random generator object"))
            if k != touched and k < len(prev_rng) and cur_rng[k] != prev_rng[k]:
                rng_bad.append(("copy/random-draw-advances-another-side",
                                f"{op} on set {touched} advanced the random generator of set {k}"))
        if kind == "scopy" and res == [0] and cur_rng[-1] != prev_rng[op[2]]:
            rng_bad.append(("copy/random-generator-state-not-carried", "the copy's generator is not in the state of its source's"))
        for key, what in rng_bad:
            add(i, key, what)
        prev_rng = cur_rng
        o.append(0 if rng_bad else 1)
        obs.append(o)
        if shared:
            add(i, "copy/not-detached-shared-object", f"after {op} two agent sets share a member object")
        for k, v in enumerate(cur):
            if k != touched and k < len(prev) and prev[k] != v:
                add(i, "copy/not-independent", f"{op} (on side {touched}) changed the members of side {k}: {prev[k]} -> {v}")
            if k == touched and kind != "scopy" and v != sides[k]["shadow"]:
                add(i, "copy/not-fresh-members", f"after {op} side {k} has members {v}; an ordered set requires {sides[k]['shadow']}")
            if len(sides[k]["set"]) != len(v):
                add(i, "copy/not-fresh-members", f"len() of side {k} is {len(sides[k]['set'])} but iteration yields {len(v)} members")
        prev = cur
    gc.enable()
    return {"obs": obs, "failures": failures, "ops_for_model": ops_for_model}


def run_impl(case):
    if case["kind"] == "exotic":
        return _run_exotic(case)
    if case["kind"] == "multi":
        return _run_multi(case)
    if case["kind"] == "scale":
        return _run_scale(case)
    if case["kind"] == "user":
        return _run_user(case)
    if case["kind"] == "aset":
        return _run_aset(case)
    return _run_space(case)


# ------------------------------------------------------------------ model side
def _coq_wop(op):
    k = op[0]
    z = L.z
    if k == "copy":
        return f"WCopy {z(op[1])} {z(op[2])} {z(op[3])}"
    if k == "placefixed":
        return f"PlaceFixed {z(op[1])} {z(op[2])} {z(op[3])}"
    if k == "kill":
        return f"Kill {z(op[1])} {z(op[2])}"
    if k == "setuser":
        return f"SetUser {z(op[1])} {z(op[2])} {z(op[3])} {z(op[4])}"
    if k == "sforget":
        return f"SForget {z(op[1])}"
    if k == "delempty":
        return f"DelEmpty {z(op[1])}"
    if k == "connect":
        return f"Connect {z(op[1])} {z(op[2])} {z(op[3])} {z(op[4])}"
    if k == "draw":
        return f"Draw {z(op[1])} {z(op[2])} {z(op[3])}"
    if k == "sdraw":
        return f"SDraw {z(op[1])} {z(op[2])}"
    if k == "sshuffle":
        return f"SShuffle {z(op[1])} {L.zlist(op[2] if len(op) > 2 else [])}"
    return f"Inner ({_coq_op(op)})"


def _coq_op(op):
    k = op[0]
    z = L.z
    if k == "move":
        return f"Move {z(op[1])} {z(op[2])} {z(op[3])}"
    if k == "leave":
        return f"Leave {z(op[1])} {z(op[2])}"
    if k == "relmove":
        return f"RelMove {z(op[1])} {z(op[2])} {z(op[3])}"
    if k == "setattr":
        return f"SetAttr {z(op[1])} {z(op[2])} {z(op[3])} {z(op[4])}"
    if k == "setlayer":
        return f"SetLayer {z(op[1])} {z(op[2])} {z(op[3])} {z(op[4])}"
    if k == "fill":
        return f"Fill {z(op[1])} {z(op[2])} {z(op[3])}"
    if k == "addlayer":
        return f"AddLayer {z(op[1])} {z(op[2])} {z(op[3])}"
    if k == "dellayer":
        return f"DelLayer {z(op[1])} {z(op[2])}"
    if k == "copy":
        return f"Copy {z(op[1])} {z(op[2])}"
    if k == "scopy":
        return f"SCopy {z(op[1])} {z(op[2])}"
    if k == "sadd":
        return f"SAdd {z(op[1])} {z(op[2])}"
    if k == "sdiscard":
        return f"SDiscard {z(op[1])} {z(op[2])}"
    if k == "sremove":
        return f"SRemove {z(op[1])} {z(op[2])}"
    raise ValueError(k)


def _coq_dummy():
    return ("{| wc_case := {| c_space := false; c_grid := false; c_caps := []; c_conn := []; c_layers := []; "
            "c_set := []; c_ops := [] |}; wc_ops := [] |}")


def coq_case(case):
    if case["kind"] in ("exotic", "multi", "scale", "user"):
        return _coq_dummy()
    ops = L.lst([_coq_wop(o) for o in case.get("_ops_for_model") or case["ops"]])
    return f"{{| wc_case := {_coq_inner_case(case)}; wc_ops := {ops} |}}"


def _coq_inner_case(case):
    ops = "[]"
    if case["kind"] == "aset":
        return (f"{{| c_space := false; c_grid := false; c_caps := []; c_conn := []; c_layers := []; "
                f"c_set := {L.zlist(case['init'])}; c_ops := {ops} |}}")
    geom = L.lst([L.lst([L.zpair(p) for p in conns]) for conns in _geom(case)])
    layers = L.lst([L.zpair(p) for p in case["layers"]]) if case["stype"] in GRIDS else "[]"
    return (f"{{| c_space := true; c_grid := {L.b(case['stype'] in GRIDS)}; c_caps := {L.zlist(_caps(case))}; "
            f"c_conn := {geom}; c_layers := {layers}; c_set := []; c_ops := {ops} |}}")


def op_kinds(case):
    if case["kind"] == "exotic":
        return [f"exotic/{case['variant']}/{MECH[case['mech']]}/{'space' if case['root'] == 0 else 'model'}"]
    if case["kind"] == "multi":
        return [f"multi/{'+'.join(case['combo'])}/{case['root']}/{MECH[case['mech']]}"]
    if case["kind"] == "scale":
        return [f"scale/{case['variant']}/{case['n']}/{MECH[case['mech']]}"]
    if case["kind"] == "user":
        return [f"user/{case['cell']}/{case['space']}/{case['root']}/{MECH[case['mech']]}"]
    out = []
    for op in case["ops"]:
        if op[0] == "copy":
            out.append(f"copy/{MECH[op[1]]}/{'space' if op[3] == 0 else 'model'}/{case['stype']}")
        elif op[0] == "scopy":
            out.append(f"scopy/{MECH[op[1]]}")
        else:
            out.append(op[0])
    return out


def _state_part(o):
    for j, v in enumerate(o):
        if v <= -100:
            return o[j:]
    return []


def nontrivial(case):
    if case["kind"] in ("exotic", "multi", "scale", "user"):
        return True
    obs = case.get("_obs", [])
    copied = False
    changes = 0
    for j, (op, o) in enumerate(zip(case["ops"], obs)):
        if op[0] in ("copy", "scopy"):
            copied = copied or o[:1] == [0]
        elif copied and j > 0 and _state_part(o) != _state_part(obs[j - 1]):
            changes += 1
    return copied and changes >= 2


LEVEL_TEXT = ("38 machine-checked Coq theorems (all closed under the global context, each with a vm_compute Example) over a heap "
              "model of Mesa's copy mechanism (cells, agents, property layers, cell classes with descriptor tables; "
              "copy_space follows Cell.__getstate__, the copyreg hook, Grid/DiscreteSpace.__setstate__) and a world layer "
              "(Model registry, model pointers, FixedAgents, removals, user attributes, hand-made connections).  For every "
              "well-formed source: the copy has the same abstract state (C19_faithful), is well formed, every cell attribute "
              "reads/writes the copy's own new layer (C19_attrs_wired), all its locations are new (C19_fresh, C19_detached), no "
              "existing side changes.  For ALL histories on any number of sides incl. copies of copies: the invariants hold "
              "(C19_invariant, C19_invariant2, C19_world_invariant), sides never influence each other (C19_independent*), "
              "every history refines a heap-free abstract machine, so a copy behaves like a freshly built space for ever "
              "(C19_refinement, C19_behaves_fresh, C19_side_history, C19_world_refinement); copying the model carries the "
              "registry incl. off-grid agents, pointers and grid (C19_model_copy); what is and is not carried is stated "
              "(C19_user_attrs_carried, C19_handmade_connections_not_carried, C19_remove_empty_*); AgentSet copies keep "
              "members and order, are new objects, independent, and weakly held (C19_agentset_*).  Code-level T1: 10 "
              "constructs of the copy hooks are re-translated from the working tree on every run and bridge lemmas prove "
              "copy_space / copy_set ARE the translated code (C19_source_code_is_model, C19_faithful_of_source, ...).  T2: "
              "differential evaluation of run_world on random, corpus and enumerated histories; an independent oracle "
              "(freshly built twin, identity checks, exotic value/class/size, several-spaces, process-scale and user-subclass "
              "streams) supplies failing inputs.")
LEVEL_NOTE = ("Theorems are about the model. Trusted: Coq kernel, pyexpr/tables translators, driver/observer, CPython attribute "
              "lookup, copy/pickle memo semantics, weak references as modelled. Geometry is an input table (C07). Oracle-only: "
              "non-int values, exotic classes, large chains, several spaces per root, process scale, user subclasses of Cell / "
              "agents / AgentSet / spaces / PropertyLayer (user code is an input; the model is unchanged). Defects repaired: C19-1 (Grid copies: one class per cell, "
              "descriptors on (0,0) only, non-2-D KeyError), C19-2 (deepcopy built the first occupied cell twice); found in "
              "round 5, patch fixes/C19-3: a Network/Voronoi whose cached neighborhoods were read cannot be copied "
              "(RecursionError from ~100 cells; key C19/Network/exotic/copy-raises); found in wave 10, patch fixes/C19-4: a Cell "
              "subclass declaring __slots__ cannot be copied at all (AttributeError 'coordinate'). No axioms.")
TECHNIQUE = ("Coq proof (heap invariants and refinement by induction over op lists, closed under global context) + code-level "
             "translation with bridge lemmas (T1) + vm_compute correspondence (T2) + twin / exotic oracle")

DESIGN_REF = "DESIGN.md section 4, C19"
