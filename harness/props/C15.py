"""C15 - ABMSimulator steps once per tick; chunking a run never changes it.
Same model (Model/Devs.v), driver and oracle as C14 (devs_common.py); the generators here cut [0,T] into pieces."""
import itertools
import random

from props import C14 as _C14s
from props import devs_common as D
from props.devs_common import coq_case, nontrivial, op_kinds, run_impl  # noqa: F401  (module API)

ID = "C15"
COQ_PROPERTY_FILE = "Properties/C15.v"
COQ_DEPS = ["Generated/Tables.v", "Model/Devs.v", "Model/DevsSpec.v", "Proofs/DevsProofs.v", "Proofs/DevsChunkProofs.v", "Proofs/DevsStepProofs.v",
            "Proofs/DevsTopProofs.v", "Proofs/DevsVizProofs.v", "Proofs/DevsVizTopProofs.v", "Proofs/DevsOrderProofs.v", "Proofs/DevsBridge.v", "Model/DevsLife.v", "Proofs/DevsOnceProofs.v", "Proofs/DevsTop14Proofs.v", "Proofs/DevsLifeProofs.v"]
COQ_IMPORTS = "From Mesa Require Import Generated.Tables Model.Devs Model.DevsLife."
COQ_CASE_TYPE = "xcase"
COQ_RUN = "run_xcase"
TABLE_CONSTRUCTS = ["devs_priority_values", "devs_event_key", "devs_step_priority", "devs_viz_run_for",
                    "devs_skeleton", "devs_rel_code", "devs_abs_code", "devs_now_code", "devs_tick_code", "devs_schedule_event_code", "devs_run_for_code",
                    "devs_until_code", "devs_until_abm_code", "devs_abm_resched_code", "devs_execute_code", "devs_pop_code", "devs_peek_keeps_code", "devs_peek_full_code"]
S = D.S


def _add_running(rng, case):
    """user code that sets model.running = False (and possibly True again) at chosen ticks - from model.step itself or from a scheduled
    event.  Model.run_model and the solara controllers look at that flag; the simulators must not: the statement says model.step runs at
    EVERY tick, so steps = clock must keep holding on every run path."""
    sc = dict((int(k), list(v)) for k, v in case["script"])
    ticks = sorted(rng.sample(range(1, 9), rng.randint(1, 3)))
    flag = False
    for k in ticks:
        sc.setdefault(k, []).insert(rng.randint(0, len(sc.get(k, []))), ["running", flag])
        flag = not flag if rng.random() < 0.5 else flag
    case["script"] = [[k, v] for k, v in sorted(sc.items())]
    evs = [o for o in case["ops"] if o[0] == "sched"]
    if evs and rng.random() < 0.5:
        rng.choice(evs)[7].insert(0, ["running", False])
    return case


def _long_run_case(rng, cls, T, nomodel=False):
    """thousands of ticks: [0,T] cut into a few long pieces (each below the model's fuel) with run_next_event in between; a handful of
    events far apart; replayed in one piece.  For ABMSimulator steps = clock must hold after every piece."""
    unit = S
    ops = []
    for j in range(rng.randint(2, 5)):
        ops.append(["sched", "abs", rng.randint(1, T) * unit, False, rng.choice("HDL"), j + 1, 0,
                    [["sched", "rel", rng.randint(0, 300) * unit, False, "D", 50 + j, 0, []]]])
    at = 0
    while at < T:
        step = min(T - at, rng.randint(200, 800) if not nomodel else rng.randint(1000, 40000))
        at += step
        if rng.random() < 0.3:
            ops.append(["next"])
        ops.append(["until", at * unit, False] if rng.random() < 0.5 else ["for", step * unit, False])
        if rng.random() < 0.3:
            ops.append(["idjump", 2 ** rng.choice([16, 20, 32])])
    ops.append(["until", T * unit, False])
    c = {"cls": cls, "script": [[rng.randint(1, T), [["sched", "tick", 0, False, "H", 99, 0, []]]]] if cls == "ABM" else [], "fuel": 900, "ops": ops}
    if nomodel:
        c["nomodel"] = True
    return c


def _partition_case(rng, cls):
    g = D.Gen(rng, cls)
    unit = S if g.abm else 4
    T = rng.randint(1, 12) * unit
    script = g.script(T // S + 1, p=0.5) if g.abm else []
    ops = []
    for _ in range(rng.randint(0, 6)):
        ops.append(g.sched(2, False, p_bad=0.02))
    rounds = rng.choice([1, 1, 2])
    for rd in range(rounds):
        for _ in range(rng.randint(1, 7)):
            if g.clk >= T:
                break
            ops.append(g.run_piece(T, p_next=0.3))
        if g.clk < T or rng.random() < 0.5:
            g.clk = T
            ops.append(["until", T, g.fl(T)])
        if rd + 1 < rounds:
            for _ in range(rng.randint(1, 3)):
                ops.append(g.sched(1, False, p_bad=0.02))
            T += rng.randint(1, 6) * unit
    return {"cls": cls, "script": script, "fuel": 400, "ops": ops}


_SETS = [
    # (script, up-front events) - times in ticks
    ([[1, [["sched", "now", 0, False, "H", 50, 0, []], ["sched", "tick", 0, False, "D", 51, 0, []]]],
      [3, [["sched", "rel", 2 * S, False, "H", 52, 0, [["sched", "now", 0, False, "L", 53, 0, []]]]]]],
     [["sched", "abs", 2 * S, False, "H", 1, 0, [["sched", "rel", S, False, "D", 2, 0, []]]],
      ["sched", "abs", 2 * S, False, "D", 3, 0, [["cancel", 4]]],
      ["sched", "abs", 3 * S, False, "D", 4, 0, []],
      ["sched", "abs", 4 * S, False, "L", 5, 1, []]]),
    ([], [["sched", "abs", S, False, "H", 1, 0, []], ["sched", "rel", S, False, "L", 2, 0, [["sched", "now", 0, False, "H", 3, 0, []]]],
          ["sched", "abs", 3 * S, False, "D", 4, 0, [["sched", "abs", 3 * S, False, "H", 5, 0, []]]]]),
]


def _compositions(T):
    for bits in itertools.product([0, 1], repeat=T - 1):
        parts, cur = [], 1
        for b in bits:
            if b:
                parts.append(cur)
                cur = 1
            else:
                cur += 1
        parts.append(cur)
        yield parts


def _composition_cases(Tmax, with_next):
    """every way of cutting [0,T] (T <= Tmax ticks) into run_until / run_for pieces, optionally with run_next_event
    calls put in front of the pieces, on fixed event sets, for both classes"""
    n = 0
    for cls in ("ABM", "DEVS"):
        for script, evs in _SETS:
            for T in range(1, Tmax + 1):
                for parts in _compositions(T):
                    for style in range(1 << len(parts)):
                        n += 1
                        if len(parts) > 3 and (n % 4):
                            continue
                        ops = [list(e) for e in evs]
                        at = 0
                        for j, p in enumerate(parts):
                            if with_next and (n + j) % 3 == 0:
                                ops.append(["next"])
                                if (n + j) % 2 == 0:
                                    ops.append(["next"])
                            at += p
                            if (style >> j) & 1:
                                ops.append(["until", at * S, cls == "DEVS"])
                            else:
                                ops.append(["for", p * S, cls == "DEVS"])
                        ops.append(["until", T * S, False])
                        yield {"cls": cls, "script": script if cls == "ABM" else [], "fuel": 400, "ops": ops}


def gen_cases(rng, tier):
    cases = []
    n = 500 if tier == "quick" else 30000
    for i in range(n):
        c = _partition_case(rng, "ABM" if rng.random() < 0.65 else "DEVS")
        if i % 4 == 0:
            _add_running(rng, c)          # a quarter of the histories: user code flips model.running
        cases.append(c)
    cases += list(_composition_cases(4 if tier == "quick" else 6, True))
    # SCALE stream: id-counter jumps (2^8 .. 2^63) in front of ticks and same-instant events; runs of thousands of ticks
    for gap in (_C14s.GAPS if tier == "quick" else _C14s.GAPS * 8):
        cases.append(_C14s._idgap_case(rng, "ABM", gap))
    for _ in range(2 if tier == "quick" else 40):
        cases.append(_long_run_case(rng, rng.choice(["ABM", "ABM", "DEVS"]), rng.choice([1000, 1025, 2049, 2500])))
    if tier != "quick":
        for T in (4097, 65537, 70000):
            cases.append(_long_run_case(rng, "ABM", T, nomodel=True))
    # re-entrant callables (run_next_event from inside an event / model.step): one step per tick must survive that
    for _ in range(30 if tier == "quick" else 1500):
        cases.append(_C14s._nested_case(rng, "ABM"))
    # user code that raises (also IndexError) in the middle of a run call: a run call that returns normally has stepped every tick
    from props import C14 as _C14
    for _ in range(40 if tier == "quick" else 1500):
        cases.append(_C14._exc_case(rng, "ABM"))
    return cases


def enumerate_cases(tier, broken=False):
    yield from _composition_cases(5 if tier == "quick" else 7, False)
    yield from _composition_cases(5 if tier == "quick" else 6, True)
    rng = random.Random(1515)
    for i in range(300 if tier == "quick" else 2000):
        c = _partition_case(rng, rng.choice(["ABM", "ABM", "DEVS"]))
        yield _add_running(rng, c) if i % 2 else c
    for gap in _C14s.GAPS:
        for _ in range(6):
            yield _C14s._idgap_case(rng, "ABM", gap)
    for T in (1000, 1025, 2049, 4097, 65537):
        yield _long_run_case(rng, "ABM", T, nomodel=True)
        yield _long_run_case(rng, "DEVS", T, nomodel=True)


RULE = ("histories = one ABMSimulator (65%) / DEVSimulator after setup, 0-6 events scheduled up front (with user code that schedules further events, "
        "cancels, drops), for ABMSimulator a model.step script that schedules events at some ticks, then [0,T] (T <= 12 ticks) cut into consecutive "
        "run_until / run_for / run_next_event pieces, optionally a second round after more scheduling (500 quick / 30000 thorough); plus every "
        "composition of T <= 4 (6 thorough) ticks into run_until/run_for pieces with run_next_event calls in between on two fixed event sets; every "
        "block of run calls is replayed in one piece on a fresh simulator (implementation against implementation). The driver is the one of C14 "
        "(falsy holder objects and model, four kinds of callables, shared function_kwargs, keyword and positional spellings, a second simulator "
        "consuming ids); the life-cycle, exception, big-int and float families of C14 carry the C15 oracle keys too. "
        "non-trivial = at least 3 ops and one run call that executed something; distinct = by SHA1 of the history")
TRUSTED_BASE = [
    "Coq 8.16.1 kernel (coqc); vm_compute for finite facts and for evaluating the model in the correspondence",
    "no axioms: Print Assumptions reports 'Closed under the global context' for all 26 theorems of Properties/C15.v",
    "harness/tables/devs.py (T1, tables): Priority values, the __lt__ tuple, the priority of model.step at every site that schedules it, schedule_event_next_tick's delta 1, "
    "the run_for literal of solara's SimulatorController.do_step",
    "harness/pyexpr.py + harness/tables/devs_code.py (T1, code level): the run_until decision of both classes, run_for's horizon, ABMSimulator._execute_event's "
    "re-scheduling test translated to Gallina; statement skeleton of the loops, setup, reset (modulo local names, messages, docstrings)",
    "harness/props/devs_common.py driver + observer + Gallina printer (T2, differential testing, not a proof)",
    "Model/Devs.v + Model/DevsLife.v are hand transcriptions of eventlist.py / simulator.py and of Model._wrapped_step (steps += 1, then the user step), tied by T1/T2; "
    "CPython heapq is abstracted as an ordered list (refinement proved under C14)",
    "Uint63 primitive hash only in scratch Cases files, never under a theorem",
]
ASSUMPTIONS = [
    "ABMSimulator horizons are integers (the type the class declares) and not before the current time; the boundary is documented by C15_boundary_non_integer_horizon",
    "all times and deltas of the model are multiples of 1/8 (ints and dyadic floats: exact)",
    "user code never cancels the pending model.step event (it has no handle on it) and never schedules model.step itself",
    "after a run_next_event that stops inside a tick the statement is: steps = number of step calls and clock-1 <= steps <= clock",
    "every setup() attaches a new model (as the visualisation does after reset()), so model.steps restarts at 0 with it",
]
LEVEL_TEXT = ("26 machine-checked Coq theorems (6 examples) over the Gallina transcription of the simulators (after fix C15-1), closed under the global context, for all "
              "histories and user code: run_until t2 after run_until t1 (t1 <= t2) is run_until t2 - same state, concatenated log - and run_next_event followed by "
              "run_until t equals run_until t when the next event is not after t and does not raise, hence every partition of a run into run_until / run_for / "
              "run_next_event pieces equals the run in one piece (C15_chunking, C15_run_for_pieces, C15_viz_do_step with the run_for literal read from solara_viz.py); "
              "under ABMSimulator exactly one model.step event is pending, for tick steps+1, at the priority read from the source, over every life cycle "
              "(reset + setup included), so that steps = clock after every run_until / run_for to an integer horizon (C15_step_every_tick, "
              "C15_lifecycle_steps_eq_clock), clock-1 <= steps <= clock after run_next_event, each tick is stepped exactly once at its own time, and nothing of lower "
              "priority runs at a tick before its step; an interrupted run (user exception) keeps the step invariant. Code-level T1: the run_until decision, run_for and "
              "the re-scheduling test are regenerated from the source and proved equal to the model's (C15_source_*, C15_chunking_of_source, "
              "C15_step_resched_of_source). T2 / oracle as for C14; the oracle additionally replays every block of run calls in one piece on the implementation.")
LEVEL_NOTE = ("Theorems are about the model; solara's use of run_for(1) is covered by C15_viz_do_step / C15_viz_steps. Defect #22 of the original tree "
              "(run_next_event did not re-schedule model.step) is fixed in /repo; none known. Trusted: Coq kernel, the T1 extractors / translator, the driver and observer. No axioms.")
TECHNIQUE = ("Coq proof (loop-fusion lemma by induction on fuel, step invariant over histories and life cycles; closed under the global context) + tables and "
             "code regenerated from the source with bridge lemmas + vm_compute correspondence + metamorphic replay on the implementation")
DESIGN_REF = "DESIGN.md section 4, C15"
