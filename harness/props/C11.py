"""C11 - property layers and cell attributes are one value; selection is exact.
Both property-layer implementations (mesa.discrete_space Grid + PropertyLayer, mesa.space
SingleGrid/MultiGrid + PropertyLayer): model Model/PropLayer.v.
Also owns the property-layer sites of C18 (keys C18/property-layer/<site>)."""
import itertools

import coqlit as L

ID = "C11"
COQ_PROPERTY_FILE = "Properties/C11.v"
COQ_DEPS = ["Common/ListX.v", "Common/ObsHash.v", "Generated/Tables.v", "Model/PropLayer.v", "Proofs/PropLayerProofs.v",
            "Proofs/PropLayerEmpty.v", "Proofs/PropLayerBridge.v"]
COQ_IMPORTS = "From Mesa Require Import Model.PropLayer."
COQ_CASE_TYPE = "case"
COQ_RUN = "run_case"
TABLE_CONSTRUCTS = ["select_order_discrete", "select_order_legacy", "select_empty_source",
                    # code-level T1 (harness/tables/proplayer_code.py): translated function bodies
                    "pl_ufunc_arity_d", "pl_ufunc_arity_l", "pl_set_cells_d", "pl_set_cells_l", "pl_modify_cells_d",
                    "pl_modify_cells_l", "pl_modify_cell_l", "pl_set_cell_l", "pl_descr_get", "pl_descr_set",
                    "pl_add_layer_d", "pl_remove_layer_d", "pl_add_layer_l", "pl_remove_layer_l", "pl_ext_step_d",
                    "pl_ext_step_l", "pl_nbhd_mask_d", "pl_nbhd_mask_l", "pl_nbhd_mask_h"]
_PL, _SP, _DS = "mesa/discrete_space/property_layer.py", "mesa/space.py", "mesa/discrete_space/"
# the source functions Model/PropLayer.v transcribes (harness/fingerprint.py: a change escalates the search)
SOURCE_FUNCS = [
    (_PL, "PropertyLayer.__init__"), (_PL, "PropertyLayer.set_cells"), (_PL, "PropertyLayer.modify_cells"),
    (_PL, "HasPropertyLayers.create_property_layer"), (_PL, "HasPropertyLayers.add_property_layer"),
    (_PL, "HasPropertyLayers.remove_property_layer"), (_PL, "HasPropertyLayers.set_property"),
    (_PL, "HasPropertyLayers.modify_properties"), (_PL, "HasPropertyLayers.select_cells"),
    (_PL, "PropertyDescriptor"), (_PL, "ufunc_requires_additional_input"), (_PL, "HasPropertyLayers.get_neighborhood_mask"),
    (_DS + "cell.py", "Cell.add_agent"), (_DS + "cell.py", "Cell.remove_agent"), (_DS + "cell.py", "Cell.is_empty"),
    (_DS + "cell_agent.py", "HasCell"), (_DS + "cell_agent.py", "BasicMovement"), (_DS + "grid.py", "Grid.__init__"),
    (_DS + "grid.py", "Grid._connect_single_cell_2d"), (_DS + "grid.py", "Grid._connect_single_cell_nd"),
    (_DS + "grid.py", "HexGrid._connect_cells_2d"), (_DS + "cell_agent.py", "CellAgent"),
    (_PL, "PropertyLayer.aggregate"), (_PL, "PropertyLayer.select_cells"),
    (_PL, "HasPropertyLayers.__getattr__"), (_PL, "HasPropertyLayers.__setattr__"), (_PL, "HasPropertyLayers.__init__"),
    (_SP, "PropertyLayer"), (_SP, "_PropertyGrid"), (_SP, "ufunc_requires_additional_input"),
    (_SP, "is_single_argument_function"), (_SP, "_Grid.move_agent"), (_SP, "_Grid.is_cell_empty"),
    (_SP, "SingleGrid.place_agent"), (_SP, "SingleGrid.move_agent"), (_SP, "SingleGrid.remove_agent"),
    (_SP, "MultiGrid.place_agent"), (_SP, "MultiGrid.remove_agent"), (_SP, "_Grid.empties"), (_SP, "_Grid.exists_empty_cells"),
    (_SP, "_Grid.remove_agent"), (_SP, "_Grid.place_agent"), (_SP, "_HexGrid.get_neighborhood_mask"),
]
RULE = ("histories = one grid of at most 12 cells (discrete: OrthogonalMoore / OrthogonalVonNeumann / Hex grid, 2-D and 3-D, "
        "with and without torus, cell capacity None / 0 / 1 / 2 / 1.0 / 2.0; legacy: SingleGrid, MultiGrid, HexSingleGrid, "
        "HexMultiGrid) + 6..22 operations out of: create / add / remove layers (clashes with a layer, with a cell attribute, wrong "
        "shape, detached layers re-attached), cell-attribute writes, layer writes (negative and out-of-range indices), set_cells / "
        "modify_cells with and without condition (binary ufunc, unary ufunc, python function; every admissible layer-dtype x "
        "operand-dtype pair; operands and values as python scalars, NumPy scalars, 0-d arrays, bools in int layers), legacy "
        "modify_cell, whole-array assignment (the caller's array modified afterwards), user callables that raise part-way, agent "
        "place / move (cell setter, move_to, move_agent) / move_relative (Moore, von Neumann, hex; torus) / remove incl. every "
        "rejection (occupied SingleGrid cell, full cell, no cell in that direction), several agents per MultiGrid cell, agents of "
        "four classes (subclass of a subclass, mixin after the base, truth value False), select_cells over conditions x masks x "
        "only_empty x extreme values (ties on purpose; explicit empty dict / list arguments; asked twice; arguments checked for "
        "mutation) in list and mask form, PropertyLayer.select_cells, aggregate (sum / max / min / mean), get_neighborhood_mask "
        "(radius up to 9, empty neighbourhoods, asked twice with the first result modified), 144 dtype probes per run, a sibling "
        "grid; EVERY public way to a layer used interchangeably in one history (the handle, the attribute grid.<name>, the registry "
        "dict / legacy grid.properties[name], cell.<name>, set_property / modify_properties vs the layer's own set_cells / "
        "modify_cells), across remove + re-creation under the same name with another dtype / default, with grid.<name> required to "
        "be the attached layer and to raise AttributeError once it is removed; user subclasses of Grid (docstring-only; extra "
        "constructor argument + class-level default), PropertyLayer (same) and Cell (class-level default and property, whose names "
        "add_property_layer must reject); user conditions that call back into the API (reads) while the library evaluates them "
        "(run as ordinary set / modify operations through the model) and user callables raising ZeroDivisionError / StopIteration / "
        "IndexError / KeyError / AttributeError / TypeError / ValueError part-way (oracle only, the model skips them); a second "
        "grid of the same class alive in the same process; plus two structured families every run (all agent rejections and all "
        "directions on small grids; int64 values beyond 2^53; int64 values WITHIN one float64 spacing of each other around +-2^53, "
        "2^62, 2^63-1, -2^63 and nanosecond timestamps, selected by highest / lowest / conditions / masks / only_empty - model-checked, Z is "
        "unbounded), an ORACLE-ONLY edge / scale stream (int64, uint8, int8, float32, float64, bool layers holding their extreme values, "
        "inf, -inf, -0.0, NaN in cells that never become candidates; grids of 70x3, 40x40, 129x2 ... with 100 / 257 / 1025 agents for the "
        "emptiness layer / mask) and an ORACLE-ONLY stream of float layers with non-dyadic values "
        "(0.1, 1/3, 1e300, -0.0 ...: bit-exact read-back through both views, IEEE-exact conditional set / modify, exact "
        "selection, sums within 1e-12). The whole state (every layer object through the layer view and through every cell "
        "attribute, the three name tables, emptiness and the emptiness layer / mask) is observed after every operation; "
        "non-trivial = at least 4 operations of which one write/bulk op succeeded and one select returned a non-empty answer; "
        "distinct = by SHA1 of the history")
TRUSTED_BASE = [
    "Coq 8.16.1 kernel (coqc); vm_compute used for the non-vacuity examples, the closed T1 facts and for evaluating the model in the correspondence",
    "no axioms: Print Assumptions reports 'Closed under the global context' for all 33 theorems of Properties/C11.v (30 C11_*, 3 C18_proplayer_*)",
    "harness/props/C11.py driver + observer + Gallina literal printer (T2, differential testing, not a proof); the printer resolves an "
    "operation term against the layer dtype the driver reports (bool `+` = or, logical_not on floats = 1.0/0.0, operand scaling)",
    "T1 translators harness/tables/proplayer.py (stage order of select_cells, operand of only_empty) and harness/tables/proplayer_code.py "
    "(19 function bodies translated statement by statement via a subclass of pyexpr.Tr, alpha-normalised: local names, messages, "
    "docstrings are not part of the tie); the ~70-line list-function library in its HEADER (g_where, g_copyto, g_masked, g_ma_max, "
    "g_getitem, g_dict_*, g_hasattr ...) is the hand-written model of the NumPy / dict / set primitives",
    "Model/PropLayer.v is a hand transcription of property_layer.py, cell.py add_agent / remove_agent, cell_agent.py cell setter / "
    "move_relative, grid.py connection offsets, and space.py PropertyLayer / _PropertyGrid / SingleGrid / MultiGrid mask updates, tied to "
    "the source by the bridge lemmas of Proofs/PropLayerBridge.v (model function = translated function) and by T2; NumPy arrays = finite "
    "maps coordinate -> Z in row-major order",
    "not translated, therefore trusted as modelled: the user callables (as Z -> bool / Z -> Z), is_single_argument_function, hasattr "
    "(name codes >= 100 = attributes every Cell has), the neighbourhood computation (C07 / C09; handed to the model as an outcome), the "
    "layers[name] lookups of select_cells",
    "Uint63 primitive hash only in scratch Cases files, never under a theorem",
]
ASSUMPTIONS = [
    "model-checked stream: values are bool, int64 without overflow (incl. values beyond 2^53), or dyadic floats (multiples of 1/16, "
    "modelled as Z scaled by 16; float multipliers are integers) so that all arithmetic is exact; non-dyadic floats are covered by "
    "the oracle-only stream (implementation against the statement, no model)",
    "modify_cells / modify_cell are fed exactly the admissible (layer dtype, form, operation, operand dtype) combinations = those whose "
    "NumPy result keeps the layer's dtype (C11_dtype_boundary: operand not wider than the layer, no negative of bools, python max/min "
    "only with an operand of the layer's own dtype because np.vectorize takes its output type from the first element); the result "
    "dtype of ALL combinations NumPy determines is checked against NumPy by 144 probe operations per run; VALUES after a dtype change "
    "(e.g. int layer + float operand -> float64 layer) are not modelled",
    "edge / scale stream (oracle only): NaN never among the candidates of an extreme-value criterion (HEAD's answer there is the empty "
    "selection, the statement does not define it); no arithmetic on uint8 / int8 / float32 layers (wrap-around and rounding are NumPy's, "
    "not the statement's): writes, selections, np.max / np.min, emptiness only",
    "not generated: conditions that are ufuncs, indices with fewer components than the array has axes, masks of a shape other than "
    "the grid's, NaN, PropertyLayer.from_data, pickling / deepcopy of layers (C19), per-cell capacities (C06), two grids sharing one layer object",
    "the built-in 'empty' layer is read (conditions, only_empty, aggregate) but never written or removed by the history itself "
    "(hypothesis `clean` of C11_empty_layer_true, C11_select_exact_actual, C18_proplayer_full_cell); the emptiness theorems assume capacity >= 0",
    "order of select_cells' list form is row-major (np.where order), compared in order",
    "get_neighborhood_mask: the neighbourhood itself is C07's / C09's subject; the one the grid reports is handed to the model as an "
    "outcome (legality-checked: inside the grid); since fix C11-5 it is executed on legacy hex grids too",
    "aggregate: np.sum / np.max / np.min, and np.mean where the number of cells is a power of two (exact division); in the float stream "
    "np.sum / np.mean within 1e-12 relative",
    "user callables that raise are covered by the oracle only (the model skips the operation; the statement checked is: the exception "
    "propagates and nothing observable changed)",
]
E_VALUE, E_KEY, E_INDEX, E_ATTR, E_TYPE, E_EXC = 1, 2, 3, 4, 5, 6
DT_BOOL, DT_INT, DT_FLOAT = 0, 1, 2
NAMES = {0: "empty", 1: "p1", 2: "p2", 3: "p3", 4: "p4", 5: "p5", 6: "p6",
         100: "agents", 101: "is_empty", 102: "coordinate", 103: "capacity", 104: "add_agent",
         105: "_mesa_properties", 106: "connections", 107: "is_full", 108: "remove_agent", 109: "neighborhood",
         110: "terrain", 111: "moisture"}          # attributes of the USER cell class (cases with usercls >= 2 only)
CODES = {v: k for k, v in NAMES.items()}
CMPS = ["gt", "ge", "lt", "le", "eq", "ne"]
DISCRETE_CLS = ["OrthogonalMooreGrid", "OrthogonalVonNeumannGrid", "HexGrid"]


# ------------------------------------------------------------------ generation
class _G:
    """generator-side bookkeeping (what probably exists), only to make most operations meaningful"""

    def __init__(self, rng, impl, cls, dims, cap=0):
        self.rng, self.impl, self.cls, self.dims = rng, impl, cls, list(dims)
        self.cap = cap
        self.torus = False
        self.usercls = 0
        self.multi = "Multi" in cls
        self.handles = []          # (name, dt, dims)
        self.grid = {}             # name -> handle
        self.agents = {}           # id -> coord
        self.next_agent = 1
        self.ops = []
        if impl == "discrete":
            self.handles.append((0, DT_BOOL, list(dims)))
            self.grid[0] = 0
        self.coords = [list(c) for c in itertools.product(*(range(d) for d in dims))]

    # values ---------------------------------------------------------
    def val(self, dt):
        r = self.rng
        if dt == DT_BOOL:
            return r.randint(0, 1)
        if dt == DT_INT:
            return r.choice([0, 1, 1, 2, 2, 3, -1, 5])
        return r.choice([0, 8, 16, 16, 24, 32, -8, 40, 1])

    def cond(self, dt):
        r = self.rng
        if dt == DT_BOOL:
            return [r.choice(["eq", "ne"]), r.randint(0, 1)]
        return [r.choice(CMPS), self.val(dt)]

    def fop(self, dt):
        """(form, fop, hasval); fop = [kind, k, vdt]: the operand has dtype vdt <= dt (the admissible set: the
        layer's dtype is preserved); k in the operand's own scale (mul: the integer multiplier)"""
        r = self.rng
        if r.random() < (0.5 if dt == DT_BOOL else 0.12):
            return r.choice([("uun", ["not"], False), ("py", ["not"], False), ("py", ["not"], True)])
        kind = r.choice(["add", "add", "mul", "max", "min", "neg"])
        if kind == "neg":
            if dt == DT_BOOL:
                kind = "add"
            else:
                return r.choice([("uun", ["neg"], False), ("py", ["neg"], False)])
        vdt = dt if r.random() < 0.7 else r.randint(0, dt)
        if kind == "mul":
            k = r.randint(0, 1) if vdt == DT_BOOL else r.choice([-1, 0, 2, 3])
        else:
            k = self.val(vdt)
        form = r.choice(["ubin", "ubin", "py"])
        if form == "py" and kind in ("max", "min"):
            vdt = dt              # python max / min with an operand of another dtype: np.vectorize's output type is data dependent
            k = self.val(vdt)
        hasval = True if form == "ubin" else r.random() < 0.3
        if form == "ubin" and r.random() < 0.08:
            hasval = False                                   # rejected: value missing
        return (form, [kind, k, vdt], hasval)

    def coord(self, wild=0.0):
        r = self.rng
        c = list(r.choice(self.coords))
        if r.random() < wild:
            ax = r.randrange(len(c))
            c[ax] = r.choice([-1, -self.dims[ax], self.dims[ax], -self.dims[ax] - 1, self.dims[ax] + 1])
        return c

    def free_name(self):
        cand = [n for n in range(1, 7) if n not in self.grid]
        return self.rng.choice(cand) if cand else None

    def ref(self, h=None):
        """a reference to an attached layer (by name or handle) or to any handle"""
        r = self.rng
        user = [n for n in self.grid if n != 0]
        if h is None:
            if user and r.random() < 0.8:
                n = r.choice(user)
                h = self.grid[n]
            else:
                hs = [i for i, x in enumerate(self.handles) if x[0] != 0]
                if not hs:
                    return None, None
                h = r.choice(hs)
        name = self.handles[h][0]
        if self.grid.get(name) == h and r.random() < 0.5:
            return ["n", name], h
        return ["h", h], h

    # operations -----------------------------------------------------
    def add_new_layer(self, attach=True, dt=None):
        r = self.rng
        n = self.free_name()
        if n is None:
            return
        dt = r.choice([DT_BOOL, DT_INT, DT_INT, DT_FLOAT]) if dt is None else dt
        v = self.val(dt)
        if self.impl == "discrete" and attach and r.random() < 0.6:
            self.ops.append(["create", n, dt, v])
            self.handles.append((n, dt, list(self.dims)))
            self.grid[n] = len(self.handles) - 1
            return
        self.ops.append(["new", n, dt, list(self.dims), v])
        self.handles.append((n, dt, list(self.dims)))
        if attach:
            self.ops.append(["add", len(self.handles) - 1])
            self.grid[n] = len(self.handles) - 1

    def op_write(self):
        r = self.rng
        ref, h = self.ref()
        if ref is None:
            return
        name, dt, _ = self.handles[h]
        if self.impl == "discrete" and self.grid.get(name) == h and r.random() < 0.5:
            self.ops.append(["cellwrite", self.coord(), name, self.val(dt)])
        else:
            self.ops.append(["lwrite", ref, self.coord(wild=0.2), self.val(dt)])

    def op_set(self):
        ref, h = self.ref()
        if ref is None:
            return
        dt = self.handles[h][1]
        if self.rng.random() < 0.15:
            n = 1
            for d in self.handles[h][2]:
                n *= d
            if self.rng.random() < 0.15:
                n += 1
            self.ops.append(["setarr", ref, [self.val(dt) for _ in range(n)]])
        else:
            self.ops.append(["set", ref, self.val(dt), self.cond(dt) if self.rng.random() < 0.6 else None])

    def op_modify(self):
        ref, h = self.ref()
        if ref is None:
            return
        if self.rng.random() < 0.06:
            self.ops.append(["boom", ref, self.rng.choice(["cond", "op"]), self.rng.random() < 0.5])
            return
        dt = self.handles[h][1]
        form, f, hasval = self.fop(dt)
        if self.impl == "legacy" and self.rng.random() < 0.35:
            if self.rng.random() < 0.1:
                form, f, hasval = self.rng.choice([("uun", ["neg"], True), ("uun", ["neg"], False), ("ubin", ["add", 1], False)])
                if dt == DT_BOOL:
                    f = ["not"]
                    form = "uun"
            self.ops.append(["modcell", ref, self.coord(wild=0.15), form, f, hasval])
        else:
            self.ops.append(["modcells", ref, form, f, hasval, self.cond(dt) if self.rng.random() < 0.5 else None])

    def op_agent(self):
        """place / move / move_relative / remove; also the rejected ones (occupied SingleGrid cell, full cell,
        no cell in that direction)"""
        r = self.rng
        if self.impl == "legacy" and r.random() < 0.15:
            self.ops.append(["empties", r.randrange(2)])
            return
        k = r.random()
        single = self.impl == "legacy" and not self.multi

        def count(c):
            return sum(1 for v in self.agents.values() if v == c)

        def accepts(c, a=None):
            others = sum(1 for b, v in self.agents.items() if v == c and b != a)
            if single:
                return others == 0
            if self.impl == "discrete" and self.cap:
                return others < self.cap or self.agents.get(a) == c
            return True

        if k < 0.4 or not self.agents:
            c = list(r.choice(self.coords))
            if not accepts(c) and r.random() < 0.35:
                return
            a = self.next_agent
            self.next_agent += 1
            self.ops.append(["place", a, c])
            if accepts(c):
                self.agents[a] = c
        elif k < 0.62:
            a = r.choice(list(self.agents))
            c = list(r.choice(self.coords))
            if not accepts(c, a) and r.random() < 0.25:
                return
            self.ops.append(["move", a, c])
            if accepts(c, a):
                self.agents[a] = c
        elif k < 0.84 and self.impl == "discrete":
            a = r.choice(list(self.agents))
            nd = len(self.dims)
            d = [r.choice([-1, 0, 0, 1]) for _ in range(nd)]
            if r.random() < 0.5:
                d = [0] * nd
                d[r.randrange(nd)] = r.choice([-1, 1])
            if self.cls == "HexGrid" and r.random() < 0.7:
                d = list(r.choice([(-1, -1), (0, -1), (-1, 0), (1, 0), (-1, 1), (0, 1), (1, -1), (1, 1)]))
            self.ops.append(["mrel", a, d])
            c0 = self.agents[a]
            nz = sum(1 for x in d if x)
            t = [x + y for x, y in zip(c0, d)]
            if self.torus:
                t = [x % m for x, m in zip(t, self.dims)]
            if self.cls == "HexGrid":
                tab = ([(-1, -1), (0, -1), (-1, 0), (1, 0), (-1, 1), (0, 1)] if c0[1] % 2
                       else [(0, -1), (1, -1), (-1, 0), (1, 0), (0, 1), (1, 1)])
                okd = tuple(d) in tab
            else:
                okd = nz >= 1 if self.cls == "OrthogonalMooreGrid" else nz == 1
            if okd and all(0 <= x < m for x, m in zip(t, self.dims)) and (accepts(t, a) or t == c0):
                self.agents[a] = t
        else:
            a = r.choice(list(self.agents))
            self.ops.append(["rm", a])
            del self.agents[a]

    def op_layers(self):
        r = self.rng
        k = r.random()
        user = [n for n in self.grid if n != 0]
        if k < 0.25:
            self.add_new_layer(attach=r.random() < 0.8)
        elif k < 0.45 and user:
            n = r.choice(user)
            self.ops.append(["remove", n])
            old = self.handles[self.grid[n]]
            del self.grid[n]
            if r.random() < 0.5:
                # a NEW layer under the same name (other dtype / default), then used through every entry point
                dt = r.choice([d for d in (DT_BOOL, DT_INT, DT_FLOAT) if d != old[1]] + [old[1]])
                v = self.val(dt)
                if self.impl == "discrete" and r.random() < 0.6:
                    self.ops.append(["create", n, dt, v])
                    self.handles.append((n, dt, list(self.dims)))
                else:
                    self.ops.append(["new", n, dt, list(self.dims), v])
                    self.handles.append((n, dt, list(self.dims)))
                    self.ops.append(["add", len(self.handles) - 1])
                self.grid[n] = len(self.handles) - 1
                for _ in range(r.randint(1, 3)):
                    r.choice([self.op_write, self.op_set, self.op_modify])()
        elif k < 0.6:
            # re-attach a detached handle (or try an attached one again: rejected)
            hs = [i for i, x in enumerate(self.handles) if x[0] != 0]
            if hs:
                h = r.choice(hs)
                self.ops.append(["add", h])
                name, _, dims = self.handles[h]
                if name not in self.grid and dims == self.dims:
                    self.grid[name] = h
        elif k < 0.7:
            self.ops.append(["remove", r.choice([n for n in range(1, 7) if n not in self.grid] or [6])])  # missing
        elif k < 0.8 and user:
            # a second layer object with a name that is taken: rejected when added
            n = r.choice(user)
            dt = r.choice([DT_INT, DT_BOOL, DT_FLOAT])
            if self.impl == "discrete" and r.random() < 0.5:
                self.ops.append(["create", n, dt, self.val(dt)])
            else:
                self.ops.append(["new", n, dt, list(self.dims), self.val(dt)])
                self.handles.append((n, dt, list(self.dims)))
                self.ops.append(["add", len(self.handles) - 1])
        elif k < 0.9:
            # wrong shape
            n = self.free_name()
            if n is not None:
                dims = list(self.dims)
                ax = r.randrange(len(dims))
                dims[ax] += r.choice([1, 2])
                if r.random() < 0.3 and len(dims) == 2 and dims[0] != dims[1]:
                    dims = [self.dims[1], self.dims[0]]
                dt = r.choice([DT_INT, DT_FLOAT])
                self.ops.append(["new", n, dt, dims, self.val(dt)])
                self.handles.append((n, dt, dims))
                self.ops.append(["add", len(self.handles) - 1])
        elif self.impl == "discrete":
            # a name every cell already has
            n = r.choice([100, 101, 102, 103, 104, 105, 106, 107, 108, 109] + ([110, 111, 110] if self.usercls >= 2 else []))
            dt = r.choice([DT_INT, DT_BOOL])
            if r.random() < 0.5:
                self.ops.append(["create", n, dt, self.val(dt)])
            else:
                self.ops.append(["new", n, dt, list(self.dims), self.val(dt)])
                self.handles.append((n, dt, list(self.dims)))
                self.ops.append(["add", len(self.handles) - 1])

    def op_select(self):
        r = self.rng
        if r.random() < 0.12:
            ref, h = self.ref()
            if ref is not None:
                if r.random() < 0.5:
                    self.ops.append(["agg", ref, r.choice([0, 0, 1, 2, 3])])
                else:
                    self.ops.append(["lsel", ref, self.cond(self.handles[h][1]), r.random() < 0.5])
                return
        if r.random() < 0.12:
            self.ops.append(["nmask", list(r.choice(self.coords)), r.random() < 0.5, r.choice([1, 1, 2, 5, 9]), r.random() < 0.5])
            return
        names = list(self.grid)
        user = [n for n in names if n != 0]
        conds, exts, masks = [], [], []
        pool = user[:] + ([0] if 0 in self.grid and r.random() < 0.3 else [])
        r.shuffle(pool)
        for n in pool[:r.choice([0, 1, 1, 2])]:
            conds.append([n, self.cond(self.handles[self.grid[n]][1])])
        pool = user[:]
        r.shuffle(pool)
        for n in pool[:r.choice([0, 0, 1, 1, 2])]:
            exts.append([n, r.choice([0, 1])])
        for _ in range(r.choice([0, 0, 1, 1, 2])):
            p = r.choice([0.5, 0.8, 1.0, 0.2])
            masks.append([r.random() < p for _ in self.coords])
        only_empty = r.random() < 0.45
        x = r.random()
        if x < 0.04:
            conds.append([r.choice([n for n in range(1, 7) if n not in self.grid] or [6]), ["gt", 0]])
        elif x < 0.08:
            exts.append([r.choice([n for n in range(1, 7) if n not in self.grid] or [6]), 0])
        elif x < 0.12 and user:
            exts.append([r.choice(user), 2])
        # dict keys are unique
        seen = set()
        conds = [c for c in conds if not (c[0] in seen or seen.add(c[0]))]
        seen = set()
        exts = [e for e in exts if not (e[0] in seen or seen.add(e[0]))]
        self.ops.append(["select", conds, exts, masks, only_empty, r.random() < 0.6, r.random() < 0.5])


GRIDS_DISCRETE = [(1, 1), (1, 3), (2, 2), (2, 3), (3, 2), (3, 3), (4, 2), (2, 2, 2), (1, 2, 3), (3, 4)]
GRIDS_LEGACY = [(1, 1), (1, 3), (2, 2), (2, 3), (3, 2), (3, 3), (4, 2), (3, 4), (4, 1)]


def _random_case(rng, impl=None, n_ops=None):
    impl = impl or rng.choice(["discrete", "discrete", "legacy"])
    if impl == "discrete":
        dims = rng.choice(GRIDS_DISCRETE)
        cls = rng.choice(DISCRETE_CLS[:2] if len(dims) != 2 else DISCRETE_CLS)
    else:
        dims = rng.choice(GRIDS_LEGACY)
        cls = rng.choice(["SingleGrid", "SingleGrid", "MultiGrid", "MultiGrid", "HexSingleGrid", "HexMultiGrid"])
    cap = rng.choice([0, 0, 0, 1, 1, 2]) if impl == "discrete" else 0
    g = _G(rng, impl, cls, dims, cap)
    g.torus = impl == "discrete" and rng.random() < 0.35
    g.usercls = rng.choice([0, 0, 1, 2, 2])
    for _ in range(rng.choice([1, 2, 2, 3])):
        g.add_new_layer(attach=True)
    n_ops = n_ops or rng.randint(6, 20)
    menu = ([g.op_write] * 4 + [g.op_set] * 3 + [g.op_modify] * 4 + [g.op_agent] * rng.choice([5, 5, 14])
            + [g.op_layers] * 3 + [g.op_select] * 6)
    while len(g.ops) < n_ops:
        rng.choice(menu)()
    return {"impl": impl, "cls": cls, "dims": list(dims), "cap": cap, "capform": rng.choice(["int", "int", "float", "zero"]),
            "torus": g.torus, "usercls": g.usercls, "ops": g.ops}


def _bigint_cases():
    """int64 values beyond 2^53 (not representable as doubles): written, compared, selected, aggregated exactly"""
    B1, B2, B3 = 2 ** 53 + 1, 2 ** 60 + 3, -(2 ** 62)
    out = []
    for impl, cls, mk in (("discrete", "OrthogonalVonNeumannGrid", [["create", 1, DT_INT, 0]]),
                          ("legacy", "MultiGrid", [["new", 1, DT_INT, [2, 2], 0], ["add", 0]])):
        h = 1 if impl == "discrete" else 0
        ops = [*mk, ["cellwrite", [0, 0], 1, B1], ["lwrite", ["h", h], [0, 1], B2], ["lwrite", ["n", 1], [1, 0], B3],
               ["lwrite", ["h", h], [0, 0], B1],
               ["select", [[1, ["eq", B1]]], [], [], False, True, False], ["select", [[1, ["gt", 2 ** 53]]], [[1, 0]], [], False, True, True],
               ["select", [], [[1, 1]], [], False, False, False], ["agg", ["n", 1], 0], ["agg", ["n", 1], 1], ["agg", ["h", h], 2],
               ["lsel", ["n", 1], ["ge", B1 + 1], True], ["set", ["n", 1], B1 + 1, ["eq", B1]],
               ["modcells", ["n", 1], "ubin", ["add", 1, DT_INT], True, ["ge", 2 ** 60]], ["modcells", ["h", h], "py", ["neg"], False, ["lt", 0]],
               ["select", [[1, ["eq", B1 + 1]]], [[1, 1]], [], False, True, False]]
        out.append({"impl": impl, "cls": cls, "dims": [2, 2], "cap": 0, "torus": False, "ops": ops})
    return out


def _bigtie_cases(rng, n):
    """int64 layers whose values lie WITHIN float64 spacing of each other (around +-2^53, 2^62, 2^63-1, ns timestamps):
    distinct ints that collapse to one double - highest / lowest, conditions, masks, only_empty must still tell them
    apart.  Through implementation and model (Z is unbounded)."""
    bases = [2 ** 53, 2 ** 62, 2 ** 63 - 8, -(2 ** 53) - 6, -(2 ** 62) - 6, -(2 ** 63), 1_700_000_000_000_000_000, 2 ** 31 - 3]
    out = []
    for k in range(n):
        impl = ["discrete", "legacy"][k % 2]
        dims = rng.choice([(2, 2), (2, 3), (3, 3), (1, 4)])
        coords = [list(c) for c in itertools.product(*(range(d) for d in dims))]
        size = len(coords)
        base = bases[k % len(bases)] if k < 2 * len(bases) else rng.choice(bases)
        vals = [base + rng.randint(0, 7) for _ in range(size)]
        if rng.random() < 0.5:
            vals[rng.randrange(size)] = rng.choice([0, -1, 5])
        hi_c, lo_c = coords[vals.index(max(vals))], coords[vals.index(min(vals))]
        if impl == "discrete":
            mk, h, cls = [["create", 1, DT_INT, 0]], 1, rng.choice(DISCRETE_CLS[:2])
        else:
            mk, h, cls = [["new", 1, DT_INT, list(dims), 0], ["add", 0]], 0, rng.choice(["SingleGrid", "MultiGrid"])
        m1 = [rng.random() < 0.7 for _ in range(size)]
        ops = [*mk, ["setarr", ["h", h], vals],
               ["select", [], [[1, 0]], [], False, True, False], ["select", [], [[1, 1]], [], False, False, False],
               ["select", [[1, ["ge", base + 1]]], [[1, 1]], [], False, True, True], ["select", [[1, ["le", base + 5]]], [[1, 0]], [m1], False, True, True],
               ["place", 1, hi_c], ["place", 2, lo_c],
               ["select", [], [[1, 0]], [], True, True, False], ["select", [], [[1, 1]], [m1], True, False, False],
               ["cellwrite" if impl == "discrete" else "lwrite", *([coords[0], 1] if impl == "discrete" else [["n", 1], coords[0]]), base + 7],
               ["select", [], [[1, 0]], [], False, True, False], ["agg", ["n", 1], 1], ["agg", ["n", 1], 2],
               ["lsel", ["n", 1], ["gt", base + 3], True]]
        out.append({"impl": impl, "cls": cls, "dims": list(dims), "cap": 0, "torus": False, "ops": ops})
    return out


EDGE_VALUES = {
    "int64": [2 ** 53, 2 ** 53 + 1, 2 ** 62, 2 ** 62 + 1, 2 ** 63 - 1, 2 ** 63 - 2, -(2 ** 53) - 1, -(2 ** 62) - 1, -(2 ** 63), -(2 ** 63) + 1,
              1_700_000_000_000_000_001, 2 ** 31, -(2 ** 31) - 1, 0, 1, -1],
    "uint8": [0, 1, 127, 128, 254, 255], "int8": [-128, -127, -1, 0, 1, 126, 127],
    "float32": [0.1, 16777216.0, 16777218.0, 3.0e38, -3.0e38, -0.0, 0.0, float("inf"), float("-inf"), 1e-40],
    "float64": [float("inf"), float("-inf"), -0.0, 0.0, 1.7976931348623157e308, 5e-324, 2.0 ** 53, 2.0 ** 53 + 2, 0.1],
    "bool": [True, False],
}


def _edge_cases(rng, n, big=0):
    """oracle-only stream: layer dtypes and values at the edges (int64 around 2^53 / 2^62 / 2^63-1 and their negatives, uint8 /
    int8 extremes, float32, inf / -inf / -0.0, NaN only in cells that never become candidates), and - `big` of them - grids far
    larger than usual with hundreds of agents for the emptiness layer / mask"""
    out = []
    for k in range(n + big):
        impl = ["discrete", "legacy"][k % 2]
        large = k >= n
        dims = rng.choice([(70, 3), (40, 40), (129, 2), (3, 86), (33, 32)]) if large else rng.choice([(2, 2), (2, 3), (3, 3), (1, 5), (4, 4), (8, 2)])
        size = dims[0] * dims[1]
        dtype = rng.choice(["int64", "int64", "int64", "uint8", "int8", "float32", "float64", "bool"])
        pool = EDGE_VALUES[dtype]
        if dtype == "int64" and rng.random() < 0.7:          # a cluster inside one float64 spacing
            b = rng.choice([2 ** 53, 2 ** 62, 2 ** 63 - 40, -(2 ** 63), -(2 ** 53) - 40, 1_700_000_000_000_000_000])
            pool = [b + j for j in range(0, 40)]
        vals = [rng.choice(pool) for _ in range(size)]
        nan_cells = []
        if dtype.startswith("float") and rng.random() < 0.5:
            nan_cells = rng.sample(range(size), k=min(size - 1, rng.randint(1, 3)))
        multi = impl == "discrete" or rng.random() < 0.5
        ops = []
        n_agents = rng.choice([0, 3, size // 2]) if not large else rng.choice([100, 257, 300, 1025 if size > 1100 else 200])
        if n_agents:
            ops.append(["eplace", n_agents, rng.randrange(10 ** 6)])
        for _ in range(rng.randint(5, 10)):
            x = rng.random()
            if x < 0.55:
                cd = [rng.choice(CMPS), rng.choice(pool)] if rng.random() < 0.5 else None
                mask = [rng.random() < 0.8 for _ in range(size)] if rng.random() < 0.4 else None
                ops.append(["esel", cd, rng.choice([0, 1, 0, 1, None]), mask, rng.random() < 0.4])
            elif x < 0.75:
                ops.append(["ew", rng.randrange(size), rng.choice(pool), rng.randrange(3)])
            elif x < 0.85:
                ops.append(["eagg", rng.choice([1, 2])])
            elif n_agents:
                ops.append([rng.choice(["emove", "erm", "erm", "eempties"]), rng.choice([1, 5, n_agents // 3 + 1, n_agents]), rng.randrange(10 ** 6)])
        out.append({"impl": impl, "cls": ("OrthogonalMooreGrid" if impl == "discrete" else ("MultiGrid" if multi else "SingleGrid")),
                    "dims": list(dims), "cap": 0, "torus": False, "stream": "edge", "dtype": dtype, "vals": vals, "nan": nan_cells, "ops": ops})
    return out


def _run_edge(case):
    """edge dtypes / values and large grids, implementation against the statement (no model): both views hold what was
    written (as the dtype stores it), select_cells returns exactly the cells passing mask / only_empty / condition whose value is
    the exact maximum / minimum among them (python ints compare exactly), the emptiness layer / mask equals actual emptiness"""
    import math
    import operator
    import random
    import warnings

    import mesa
    import numpy as np

    warnings.simplefilter("ignore")
    impl = case["impl"]
    discrete = impl == "discrete"
    dims = tuple(case["dims"])
    coords = list(itertools.product(*(range(d) for d in dims)))
    npdt = np.dtype(case["dtype"])
    model = mesa.Model(seed=1)
    arr = np.array(case["vals"], dtype=npdt).reshape(dims)
    for j in case.get("nan", []):
        arr[coords[j]] = np.nan
    if discrete:
        import mesa.discrete_space as ds
        from mesa.discrete_space.property_layer import PropertyLayer

        grid = getattr(ds, case["cls"])(dims, torus=False, random=random.Random(1))
        Lr = PropertyLayer("p1", dims, default_value=npdt.type(0), dtype=npdt.type)
        grid.add_property_layer(Lr)
        Lr.data = arr
    else:
        import mesa.space as msp

        grid = getattr(msp, case["cls"])(dims[0], dims[1], False)
        Lr = msp.PropertyLayer("p1", dims[0], dims[1], npdt.type(0), dtype=npdt.type)
        grid.add_property_layer(Lr)
        Lr.set_cells(arr)

    def py(v):
        return bool(v) if npdt.kind == "b" else (int(v) if npdt.kind in "iu" else float(v))

    sh = {c: py(arr[c]) for c in coords}
    nan = {coords[j] for j in case.get("nan", [])}
    agents, where = [], {}
    cmpf = {"gt": operator.gt, "ge": operator.ge, "lt": operator.lt, "le": operator.le, "eq": operator.eq, "ne": operator.ne}
    failures = []

    def fail(key, i, what):
        failures.append({"key": f"C11/{impl}/edge/{key}", "op": i, "what": what[:900]})

    def occupied():
        return set(where.values())

    def put(a, c):
        if discrete:
            a.cell = grid._cells[c]
        elif a.pos is None:
            grid.place_agent(a, c)
        else:
            grid.move_agent(a, c)
        where[a] = c

    single = (not discrete) and "Single" in case["cls"]
    for i, op in enumerate(case["ops"]):
        k = op[0]
        try:
            if k == "eplace":
                r = random.Random(op[2])
                from mesa.discrete_space import CellAgent

                for _ in range(op[1]):
                    c = r.choice(coords)
                    if single and c in occupied():
                        continue
                    a = CellAgent(model) if discrete else mesa.Agent(model)
                    agents.append(a)
                    put(a, c)
            elif k == "emove":
                r = random.Random(op[2])
                for a in r.sample(list(where), k=min(op[1], len(where))):
                    c = r.choice(coords)
                    if single and c in occupied() and where[a] != c:
                        continue
                    put(a, c)
            elif k == "erm":
                r = random.Random(op[2])
                for a in r.sample(list(where), k=min(op[1], len(where))):
                    if discrete:
                        a.cell = None
                    else:
                        grid.remove_agent(a)
                    del where[a]
            elif k == "eempties":
                if not discrete:
                    got = {tuple(c) for c in grid.empties}
                    if got != {c for c in coords if c not in occupied()}:
                        fail("empties/mismatch", i, f"{op}: grid.empties has {len(got)} cells, {len(coords) - len(occupied())} hold no agent")
            elif k == "ew":
                c = coords[op[1] % len(coords)]
                v = npdt.type(op[2])
                w = [py(v) if npdt.kind != "f" else float(op[2]), v, np.array(v)][op[3]]
                if discrete and op[3] != 1:
                    grid._cells[c].p1 = w
                elif discrete:
                    Lr.data[c] = w
                else:
                    Lr.set_cell(c, w)
                sh[c] = py(v)
                nan.discard(c)
            elif k == "eagg":
                cand = [sh[c] for c in coords if c not in nan]
                if cand and not nan:
                    fn = np.max if op[1] == 1 else np.min
                    r_ = py(Lr.aggregate(fn) if discrete else Lr.aggregate_property(fn))
                    e_ = max(cand) if op[1] == 1 else min(cand)
                    if r_ != e_:
                        fail("aggregate/wrong-value", i, f"{op} on dtype {npdt}: got {r_!r}, exact {e_!r}")
            elif k == "esel":
                _, cd, ext, mask, oe = op
                kw = {}
                ok = [c for c in coords if c not in nan]                 # NaN cells never become candidates
                m = np.zeros(dims, dtype=bool)
                for j, c in enumerate(coords):
                    m[c] = (c not in nan) and (mask is None or mask[j])
                kw["masks"] = m
                cand = [c for j, c in enumerate(coords) if c in ok and (mask is None or mask[j])]
                if oe:
                    kw["only_empty"] = True
                    occ = occupied()
                    cand = [c for c in cand if c not in occ]
                if cd is not None:
                    q = py(npdt.type(cd[1]))
                    kw["conditions"] = {"p1": lambda a, f=cmpf[cd[0]], q=q: f(a, npdt.type(q) if npdt.kind != "i" else q)}
                    cand = [c for c in cand if cmpf[cd[0]](sh[c], q)]
                if ext is not None:
                    kw["extreme_values"] = {"p1": ["highest", "lowest"][ext]}
                    if cand:
                        t = (max if ext == 0 else min)(sh[c] for c in cand)
                        cand = [c for c in cand if sh[c] == t]
                got = [tuple(int(x) for x in c) for c in grid.select_cells(**kw)]
                gm = np.asarray(np.ma.getdata(grid.select_cells(return_list=False, **kw))).astype(bool)
                gmc = [c for c in coords if gm[c]]
                if got != cand or gmc != cand:
                    extra = [c for c in got if c not in cand][:5]
                    fail("select_cells/wrong-cells", i,
                         f"select_cells(condition={cd}, extreme={ext}, mask={'yes' if mask else 'no'}, only_empty={oe}) on a {npdt} layer {dims}: "
                         f"list form has {len(got)} cells, mask form {len(gmc)}, exactly {len(cand)} qualify {cand[:5]}; e.g. wrongly selected {extra} "
                         f"holding {[sh[c] for c in extra]} while the extreme is {sh[cand[0]] if cand else None}")
        except Exception as e:  # noqa: BLE001
            fail(f"{k}/unexpected-exception", i, f"{op} on dtype {npdt} raised {type(e).__name__}: {e}")
            break
        # both views hold the written values, exactly
        data = Lr.data
        bad = [c for c in coords if c not in nan and (py(data[c]) != sh[c] or (npdt.kind == "f" and math.copysign(1, float(data[c])) != math.copysign(1, sh[c])))]
        if bad:
            fail(f"{k}/wrong-values", i, f"after {op}: {npdt} layer at {bad[0]} holds {py(data[bad[0]])!r}, written {sh[bad[0]]!r}")
            for c in bad:
                sh[c] = py(data[c])
        if discrete and k in ("ew",):
            badc = [c for c in coords if c not in nan and py(grid._cells[c].p1) != py(data[c])]
            if badc:
                fail("one-value/cell-vs-layer", i, f"after {op}: cell{badc[0]}.p1 != layer value")
        if k in ("eplace", "emove", "erm", "eempties"):
            occ = occupied()
            em = grid._mesa_property_layers["empty"].data if discrete else grid.empty_mask
            wrong = [c for c in coords if bool(em[c]) != (c not in occ)]
            if wrong:
                fail("empty/mismatch", i, f"after {op} ({len(where)} agents on {dims}): emptiness layer / mask wrong at {len(wrong)} cells, e.g. {wrong[:3]}")
    return {"obs": [], "failures": failures, "model": False}


def _probe_cases():
    """every (layer dtype, form, operation, operand dtype) of the DSL whose result dtype NumPy fixes: the dtype
    modify_cells leaves behind, against Model/PropLayer.v:dtype_result (C11_dtype_boundary)"""
    probes = []
    for ldt in (DT_BOOL, DT_INT, DT_FLOAT):
        for vdt in (DT_BOOL, DT_INT, DT_FLOAT):
            for kind in ("add", "mul", "max", "min"):
                for form in ("ubin", "py"):
                    if form == "py" and kind in ("max", "min") and vdt != ldt:
                        continue        # python max / min return one of their arguments: the dtype depends on the data
                    k = 1 if (vdt == DT_BOOL or kind == "mul") else (3 if vdt == DT_INT else 8)
                    probes.append(["probe", ldt, form, [kind, k], vdt])
        for kind, forms in (("not", ("uun", "py")), ("neg", ("uun", "py"))):
            for form in forms:
                probes.append(["probe", ldt, form, [kind], ldt])
    out = []
    for impl, cls in (("discrete", "OrthogonalMooreGrid"), ("legacy", "SingleGrid")):
        for s0 in range(0, len(probes), 30):
            out.append({"impl": impl, "cls": cls, "dims": [2, 2], "cap": 0, "torus": False, "ops": probes[s0:s0 + 30]})
    return out


def gen_cases(rng, tier):
    cases = []
    n = 700 if tier == "quick" else 9000
    for _ in range(n):
        cases.append(_random_case(rng))
    cases += _probe_cases()
    cases += _float_cases(rng, 60 if tier == "quick" else 600)
    cases += _bigint_cases()
    # SCALE / rare-value streams (harness/SCALE_NOTE.md)
    cases += _bigtie_cases(rng, 16 if tier == "quick" else 200)
    cases += _edge_cases(rng, 40 if tier == "quick" else 500, big=4 if tier == "quick" else 40)
    # the structured agent histories (every rejection, shared and full cells) also go through the model
    for c in enumerate_cases("quick"):
        if c["ops"] and (c["ops"][0][0] == "place" or any(o[0] in ("mrel", "nmask") for o in c["ops"])):
            cases.append(c)
    return cases


def enumerate_cases(tier, broken=False):
    """targeted sweep: on small grids with fixed tie-rich layers, every combination of
    conditions(0-2) x masks(0-2) x only_empty x extreme(0-2 criteria, both modes) x form, for both
    implementations, after a few agent placements; plus every rejecting property-layer call."""
    import random

    rng = random.Random(4242)
    shapes = {"discrete": [(1, 1), (2, 2), (2, 3), (2, 2, 2)], "legacy": [(1, 1), (2, 2), (2, 3)]}
    if tier == "thorough":
        shapes = {"discrete": [(1, 1), (2, 2), (2, 3), (3, 3), (2, 2, 2)], "legacy": [(1, 1), (2, 2), (2, 3), (3, 3)]}
    for impl, shs in shapes.items():
        for dims in shs:
            coords = [list(c) for c in itertools.product(*(range(d) for d in dims))]
            size = len(coords)
            for rep in range(2 if tier == "thorough" else 1):
                pre = []
                if impl == "discrete":
                    pre += [["create", 1, DT_INT, 1], ["create", 2, DT_FLOAT, 16]]
                    h1, h2 = 1, 2
                else:
                    pre += [["new", 1, DT_INT, list(dims), 1], ["add", 0], ["new", 2, DT_FLOAT, list(dims), 16], ["add", 1]]
                    h1, h2 = 0, 1
                pre.append(["setarr", ["h", h1], [rng.choice([0, 1, 2, 2]) for _ in range(size)]])
                pre.append(["setarr", ["n", 2], [rng.choice([8, 16, 16, 24]) for _ in range(size)]])
                legcls = ["SingleGrid", "MultiGrid"][rep % 2] if tier == "thorough" else "MultiGrid"
                for a in range(1, 1 + max(2, size // 2)):
                    pre.append(["place", a, rng.choice(coords)])      # MultiGrid: several agents share a cell
                pre.append(["rm", 1])
                pre.append(["move", 2, rng.choice(coords)])
                selects = []
                condsets = [[], [[1, ["ge", 1]]], [[2, ["lt", 24]]], [[1, ["ne", 0]], [2, ["ge", 16]]], [[1, ["gt", 7]]]]
                extsets = [[], [[1, 0]], [[1, 1]], [[2, 0]], [[1, 0], [2, 1]], [[2, 1], [1, 0]]]
                m1 = [rng.random() < 0.7 for _ in range(size)]
                m2 = [rng.random() < 0.6 for _ in range(size)]
                masksets = [[], [m1], [m1, m2], [[False] * size]]
                for cs in condsets:
                    for es in extsets:
                        for ms in masksets:
                            for oe in (False, True):
                                selects.append(["select", cs, es, ms, oe, (len(selects) % 3) != 0, len(ms) == 1])
                for s in range(0, len(selects), 40):
                    yield {"impl": impl, "cls": ("OrthogonalMooreGrid" if impl == "discrete" else legcls),
                           "dims": list(dims), "cap": 0, "ops": pre + selects[s:s + 40]}
            # rejecting calls
            rej = []
            if impl == "discrete":
                rej += [["create", 1, DT_INT, 1], ["create", 1, DT_INT, 2], ["new", 1, DT_INT, list(dims), 0], ["add", 2],
                        ["add", 1]]
                for n in range(100, 110):
                    rej += [["create", n, DT_INT, 0], ["place", n, coords[0]], ["rm", n]]
                rej += [["new", 3, DT_INT, [d + 1 for d in dims], 0], ["add", 3], ["remove", 5], ["remove", 1], ["remove", 1],
                        ["lwrite", ["h", 1], [d for d in dims], 3], ["lwrite", ["h", 1], [-d - 1 for d in dims], 3],
                        ["modcells", ["h", 1], "ubin", ["add", 1], False, None],
                        ["modcells", ["h", 1], "uun", ["neg"], False, None],
                        ["select", [[5, ["gt", 0]]], [], [], False, True, False],
                        ["select", [], [[5, 0]], [], False, True, False]]
            else:
                rej += [["new", 1, DT_INT, list(dims), 1], ["add", 0], ["add", 0], ["new", 1, DT_INT, list(dims), 0], ["add", 1],
                        ["new", 3, DT_INT, [d + 1 for d in dims], 0], ["add", 2], ["remove", 5], ["remove", 1], ["remove", 1],
                        ["add", 0],
                        ["lwrite", ["h", 0], [d for d in dims], 3], ["lwrite", ["n", 1], [-d - 1 for d in dims], 3],
                        ["modcell", ["h", 0], [d for d in dims], "py", ["add", 1], False],
                        ["modcell", ["h", 0], coords[-1], "ubin", ["add", 1], False],
                        ["modcell", ["h", 0], coords[-1], "uun", ["neg"], True],
                        ["modcell", ["h", 0], coords[-1], "uun", ["neg"], False],
                        ["modcells", ["h", 0], "ubin", ["add", 1], False, None],
                        ["modcells", ["h", 0], "uun", ["neg"], False, None],
                        ["place", 1, coords[0]], ["place", 2, coords[0]],
                        ["select", [], [[1, 2]], [], False, True, False]]
            yield {"impl": impl, "cls": ("OrthogonalVonNeumannGrid" if impl == "discrete" else "SingleGrid"),
                   "dims": list(dims), "cap": 0, "ops": rej}
            # agents: every rejection (full cell via place / move / move_relative, occupied SingleGrid cell, no cell in
            # that direction) from a state with a shared / full cell, each followed by only_empty selections
            sel = [["select", [], [], [], True, True, False], ["select", [], [], [], True, False, False]]
            c0, c1 = coords[0], coords[-1]
            nd = len(dims)
            step = [0] * (nd - 1) + [1]
            if impl == "discrete":
                sweep = [list(d) for d in itertools.product((-1, 0, 1), repeat=nd)]
                for cls in ("OrthogonalMooreGrid", "OrthogonalVonNeumannGrid") + (("HexGrid",) if nd == 2 else ()):
                    for torus in (False, True):
                        # every direction of {-1,0,1}^n from two cells of different row parity, with and without the torus;
                        # the neighbourhood mask of every cell (empty neighbourhoods on 1-cell-wide grids), aggregates
                        ops = [["create", 1, DT_INT, 2], ["place", 1, c0], ["place", 2, c1]]
                        for d in sweep:
                            ops += [["mrel", 1, d], ["move", 1, c0], ["mrel", 2, d], ["move", 2, c1]]
                        for c in coords[:6]:
                            for ic in (False, True):
                                ops.append(["nmask", c, ic, 1, True])
                        ops += [["agg", ["n", 1], k] for k in (0, 1, 2, 3)] + [["agg", ["n", 0], 0], *sel]
                        ops += [["lsel", ["n", 1], [cmpk, 2], al] for cmpk in CMPS for al in (True, False)]
                        yield {"impl": impl, "cls": cls, "dims": list(dims), "cap": 0, "torus": torus, "ops": ops}
                    for cap in (0, 1, 2):
                        ops = [["place", 1, c0], ["place", 2, c0], ["place", 3, c0], *sel, ["place", 4, c1], ["move", 4, c0],
                               ["mrel", 4, [-x for x in step]], ["mrel", 4, [0] * nd], ["mrel", 4, [1] * nd], ["mrel", 1, step],
                               *sel, ["mrel", 1, [-x for x in step]], ["mrel", 1, [-x for x in step]], ["move", 1, c0],
                               ["rm", 1], ["rm", 2], *sel, ["move", 4, c0], ["move", 4, c0], *sel]
                        yield {"impl": impl, "cls": cls, "dims": list(dims), "cap": cap, "ops": ops}
            else:
                for cls in ("MultiGrid", "HexMultiGrid", "SingleGrid"):
                    for when in (0, 2, 4):
                        ops = [["place", 1, c0], ["place", 2, c0 if "Multi" in cls else c1], ["place", 3, c1], ["rm", 3], *sel,
                               ["rm", 1], ["rm", 2], *sel, ["place", 4, c1], ["move", 4, c0], *sel, ["rm", 4], *sel]
                        ops.insert(when, ["empties", when % 2])
                        yield {"impl": impl, "cls": cls, "dims": list(dims), "cap": 0, "ops": ops}
                for cls in ("SingleGrid", "MultiGrid", "HexSingleGrid", "HexMultiGrid"):
                    if True:
                        masks = [["nmask", c, ic, r, mo] for c in coords[:4] for ic in (False, True) for r in (1, 2) for mo in (False, True)]
                    ops = [*masks, ["new", 1, DT_FLOAT, list(dims), 8], ["add", 0], ["agg", ["h", 0], 0], ["agg", ["n", 1], 3],
                           ["place", 1, c0], ["place", 2, c0], ["place", 3, c1], *sel, ["move", 3, c0], ["move", 1, c0],
                           ["move", 1, c1], *sel, ["rm", 2], ["rm", 1], *sel, ["rm", 3], *sel, ["place", 2, c0], ["move", 2, c0], *sel]
                    yield {"impl": impl, "cls": cls, "dims": list(dims), "cap": 0, "ops": ops}
    # scale / edge streams: many more when something broke or in the thorough tier
    yield from _bigtie_cases(rng, 120)
    yield from _edge_cases(rng, 300, big=20)
    # random histories with more selects
    for i in range(200 if tier == "quick" else 1500):
        yield _random_case(rng)


# ------------------------------------------------------------------ implementation side
def _kind_dt(arr):
    return {"b": DT_BOOL, "i": DT_INT, "u": DT_INT, "f": DT_FLOAT}.get(arr.dtype.kind, 9)


def _enc(v, failures=None):
    """numpy / python scalar -> scaled int"""
    import numpy as np

    if isinstance(v, (bool, np.bool_)):
        return int(bool(v))
    if isinstance(v, (int, np.integer)):
        return int(v)
    if isinstance(v, (float, np.floating)):
        s = float(v) * 16
        if s != int(s):
            return 10 ** 9 + 7          # non-dyadic: never equal to anything expected
        return int(s)
    return 10 ** 9 + 9


def _pyval(dt, v):
    return bool(v) if dt == DT_BOOL else (int(v) if dt == DT_INT else v / 16.0)


def _salt(op):
    """a deterministic number from the content of an operation (never from its index: the shrinker deletes ops)"""
    t = 0
    stack = [op]
    while stack:
        x = stack.pop()
        if isinstance(x, (list, tuple)):
            stack.extend(x)
        elif isinstance(x, bool):
            t += 1 if x else 2
        elif isinstance(x, int):
            t += abs(x) * 7 + 3
        elif isinstance(x, str):
            t += sum(map(ord, x))
    return t


def _as(dt, v, salt, allow0d=True):
    """the value v (layer units) of dtype dt as the API may be handed it: python scalar, NumPy scalar, 0-d array,
    and - for 0 / 1 in an int layer - a python bool"""
    import numpy as np

    x = _pyval(dt, v)
    k = salt % 4
    if k == 1:
        return {DT_BOOL: np.bool_, DT_INT: np.int64, DT_FLOAT: np.float64}[dt](x)
    if k == 2 and allow0d:
        return np.array(x)
    if k == 3 and dt == DT_INT and v in (0, 1):
        return bool(v)
    return x


def _mk_cond(dt, cd):
    import operator

    k = _pyval(dt, cd[1])
    f = {"gt": operator.gt, "ge": operator.ge, "lt": operator.lt, "le": operator.le, "eq": operator.eq, "ne": operator.ne}[cd[0]]
    return lambda x: f(x, k)


def _cond_z(cd, v):
    k = cd[1]
    return {"gt": v > k, "ge": v >= k, "lt": v < k, "le": v <= k, "eq": v == k, "ne": v != k}[cd[0]]


def _vdt(f, ldt):
    return f[2] if len(f) > 2 else ldt


def _k_layer(f, ldt):
    """the operand in the layer's scale"""
    if f[0] == "mul" or len(f) < 2:
        return f[1] if len(f) > 1 else None
    return f[1] * 16 if (ldt == DT_FLOAT and _vdt(f, ldt) != DT_FLOAT) else f[1]


def _operand(f, ldt):
    """the python value handed to the implementation"""
    if len(f) < 2:
        return None
    vdt = _vdt(f, ldt)
    if f[0] == "mul":
        return bool(f[1]) if vdt == DT_BOOL else (int(f[1]) if vdt == DT_INT else float(f[1]))
    return _pyval(vdt, f[1])


def _fop_z(f, v, ldt=DT_INT):
    k = _k_layer(f, ldt)
    if f[0] == "add":
        return int(bool(v) or bool(k)) if ldt == DT_BOOL else v + k
    if f[0] == "mul":
        return v * k
    if f[0] == "max":
        return max(v, k)
    if f[0] == "min":
        return min(v, k)
    if f[0] == "not":
        return (16 if ldt == DT_FLOAT else 1) if v == 0 else 0
    if f[0] == "neg":
        return -v
    raise ValueError(f)


def _mk_operation(dt, form, f):
    """returns (callable, value)"""
    import numpy as np

    kind = f[0]
    k = _operand(f, dt)
    if form == "ubin":
        return {"add": np.add, "mul": np.multiply, "max": np.maximum, "min": np.minimum}[kind], k
    if form == "uun":
        return {"not": np.logical_not, "neg": np.negative}[kind], k
    if form == "py":
        fn = {"add": lambda x: x + k, "mul": lambda x: x * k, "max": lambda x: max(x, k), "min": lambda x: min(x, k),
              "not": lambda x: not x, "neg": lambda x: -x}[kind]
        return fn, k
    raise ValueError(form)


def _norm(dims, c):
    """numpy index normalisation; None = IndexError"""
    if len(c) != len(dims):
        return None
    out = []
    for d, x in zip(dims, c):
        if 0 <= x < d:
            out.append(x)
        elif -d <= x < 0:
            out.append(x + d)
        else:
            return None
    return tuple(out)


class _Run:
    def __init__(self, case):
        import random
        import warnings

        import mesa

        self.case = case
        self.impl = case["impl"]
        self.discrete = self.impl == "discrete"
        self.multi = "Multi" in case["cls"]
        self.cap = case.get("cap") or 0
        self.dims = tuple(case["dims"])
        self.coords = list(itertools.product(*(range(d) for d in self.dims)))
        self.model = mesa.Model(seed=1)
        with warnings.catch_warnings():
            warnings.simplefilter("ignore")
            if self.discrete:
                import mesa.discrete_space as ds
                from mesa.discrete_space.property_layer import PropertyDescriptor, PropertyLayer

                self.PL, self.PD = PropertyLayer, PropertyDescriptor
                cap = case.get("cap") or 0
                capform = case.get("capform", "int")
                capacity = (0 if capform == "zero" else None) if not cap else (float(cap) if capform == "float" else cap)
                uc = case.get("usercls", 0)
                base = getattr(ds, case["cls"])
                if uc == 1:
                    class UserGrid(base):
                        """a docstring-only subclass"""
                    gcls, gkw = UserGrid, {}
                elif uc >= 2:
                    class UserGrid(base):
                        palette = "terrain"                  # class-level default

                        def __init__(self, *a, label="x", **kw):   # extra constructor argument
                            super().__init__(*a, **kw)
                            self.label = label
                    gcls, gkw = UserGrid, {"label": "y"}
                else:
                    gcls, gkw = base, {}
                if uc >= 2:
                    class UserCell(ds.Cell):
                        """user cell class with a class-level default and a property (names the clash test must see)"""
                        terrain = 3

                        @property
                        def moisture(self):
                            return 1
                    gkw["cell_klass"] = UserCell

                    class UserLayer(PropertyLayer):
                        unit = "m"

                        def __init__(self, name, dimensions, default_value=0.0, dtype=float, note=None):
                            super().__init__(name, dimensions, default_value=default_value, dtype=dtype)
                            self.note = note
                    self.PL = UserLayer
                elif uc == 1:
                    class UserLayer(PropertyLayer):
                        """docstring-only subclass"""
                    self.PL = UserLayer
                self.grid = gcls(self.dims, torus=bool(case.get("torus")), capacity=capacity, random=random.Random(1), **gkw)
                self.handles = [self.grid._mesa_property_layers["empty"]]
            else:
                import mesa.space as msp

                self.PL = msp.PropertyLayer
                lbase = getattr(msp, case["cls"])
                if case.get("usercls", 0):
                    class UserLegacyGrid(lbase):
                        """docstring-only subclass"""

                    class UserLegacyLayer(msp.PropertyLayer):
                        unit = "m"
                    lbase, self.PL = UserLegacyGrid, UserLegacyLayer
                self.grid = lbase(self.dims[0], self.dims[1], False)
                self.handles = []
        # prior history in the same process: a sibling grid of the same class with layers of the same names must neither
        # influence this grid nor be influenced by it (dynamic cell classes, descriptors, class-level sets)
        self.sibling = None
        if sum(self.dims) % 2:
            with warnings.catch_warnings():
                warnings.simplefilter("ignore")
                if self.discrete:
                    sib = type(self.grid)(self.dims, torus=False, random=random.Random(2))
                    for nm in ("p1", "p2", "p3"):
                        sib.create_property_layer(nm, default_value=77, dtype=int)
                    sib._cells[self.coords[0]].p1 = 78
                else:
                    sib = type(self.grid)(self.dims[0], self.dims[1], False)
                    for nm in ("p1", "p2", "p3"):
                        sib.add_property_layer(self.PL(nm, self.dims[0], self.dims[1], 77, dtype=int))
            self.sibling = sib
        self.agents = {}      # id -> agent object (ever created)
        # the oracle's shadow: what the statement says the values are
        self.sh = [dict.fromkeys(self.coords, 1)] if self.discrete else []     # per handle: coord -> scaled int
        self.sh_dims = [self.dims] if self.discrete else []
        self.sh_dt = [DT_BOOL] if self.discrete else []
        self.sh_name = [0] if self.discrete else []
        self.sh_grid = {0: 0} if self.discrete else {}                         # name -> handle
        self.sh_agents = {}                                                    # agent id -> coord
        self.failures = []
        self.poisoned = False   # a cell attribute was shadowed: the cells no longer work
        self.empty_ok = True    # the emptiness layer / mask currently agrees with the agents' positions
        self.empty_reported = False
        self.shape_reported = set()

    # ---- access to the implementation
    def gdict(self):
        return self.grid._mesa_property_layers if self.discrete else self.grid.properties

    def arr(self, Lr):
        return Lr.data

    def hindex(self, Lr):
        for i, h in enumerate(self.handles):
            if h is Lr:
                return i
        return -5

    def ldims(self, Lr):
        return tuple(Lr.dimensions) if self.discrete else (Lr.width, Lr.height)

    def view(self):
        out = [len(self.handles)]
        for h in self.handles:
            a = self.arr(h)
            d = self.ldims(h)
            out += [CODES.get(h.name, -6), _kind_dt(a), len(d), *d]
            out += [_enc(a[c]) for c in itertools.product(*(range(x) for x in a.shape))]
        out.append(-7)
        for n, Lr in self.gdict().items():
            out += [CODES.get(n, -6), self.hindex(Lr)]
        out.append(-8)
        if self.discrete:
            for n in self.gdict():
                out.append(CODES.get(n, -6))
                for c in self.coords:
                    cell = self.grid._cells[c]
                    try:
                        out.append(_enc(getattr(cell, n)))
                    except AttributeError:
                        out.append(-4)
        out.append(-9)
        if self.discrete:
            out += sorted(CODES.get(n, -6) for n in self.grid.cell_klass._mesa_properties)
        out.append(-10)
        if self.discrete:
            out += sorted(CODES.get(n, -6) for n, v in vars(self.grid.cell_klass).items() if isinstance(v, self.PD))
        out.append(-11)
        if self.discrete:
            out += [int(len(self.grid._cells[c]._agents) == 0) for c in self.coords]
        else:
            out += [int(self.grid._grid[c[0]][c[1]] in (None, [])) for c in self.coords]
        out.append(-12)
        if not self.discrete:
            out += [int(bool(self.grid.empty_mask[c])) for c in self.coords]
        return out

    def resolve(self, ref, salt=0):
        """the layer object behind a reference; a name is resolved through every public way, interchangeably: the
        attribute grid.<name>, the registry dict, (legacy) grid.properties[name]"""
        if ref[0] == "h":
            return self.handles[ref[1]] if 0 <= ref[1] < len(self.handles) else None
        name = NAMES[ref[1]]
        if self.discrete and salt % 2 == 0:
            try:
                return getattr(self.grid, name)
            except AttributeError:
                return None
        return self.gdict().get(name)

    def fail(self, key, i, what, c18=None):
        self.failures.append({"key": f"C11/{self.impl}/{key}", "op": i, "what": what})
        if c18:
            self.failures.append({"key": f"C18/property-layer/{c18}", "op": i, "what": what})

    # ---- the oracle's checks on the state after an operation
    def check_state(self, i, op):
        kind = op[0]
        # (1) every layer holds what the history wrote (shadow) - through the layer view
        for hi, h in enumerate(self.handles):
            if self.discrete and hi == 0:
                continue                      # the built-in "empty" layer: check (4)
            a = self.arr(h)
            if tuple(a.shape) != tuple(self.sh_dims[hi]) or _kind_dt(a) != self.sh_dt[hi]:
                if hi in self.shape_reported:
                    continue
                self.shape_reported.add(hi)
                self.fail("layer/shape-or-dtype-changed", i,
                          f"after {op}: layer {h.name} has shape {a.shape} dtype {a.dtype}, was created with {self.sh_dims[hi]} / dtype code {self.sh_dt[hi]}")
                continue
            bad = [(c, _enc(a[c]), self.sh[hi][c]) for c in self.sh[hi] if _enc(a[c]) != self.sh[hi][c]]
            if bad:
                c, got, exp = bad[0]
                self.fail(f"{kind}/wrong-values", i,
                          f"after {op}: layer {h.name!r} (handle {hi}) at {c} holds {got}/16ths-or-int, the history's writes give {exp} ({len(bad)} cells differ)")
                for c, got, _ in bad:         # report a divergence once, then follow the implementation
                    self.sh[hi][c] = got
        # (2) the grid's table is what the history attached
        got = {CODES.get(n, -6): self.hindex(Lr) for n, Lr in self.gdict().items()}
        if got != self.sh_grid:
            self.fail(f"{kind}/wrong-layer-table", i, f"after {op}: grid layers {got}, history attached {self.sh_grid}")
        if self.discrete:
            names = set(self.gdict())
            descr = {n for n, v in vars(self.grid.cell_klass).items() if isinstance(v, self.PD)}
            props = set(self.grid.cell_klass._mesa_properties)
            if not (names == descr == props):
                self.fail("one-value/tables-disagree", i,
                          f"after {op}: grid layers {sorted(names)}, cell descriptors {sorted(descr)}, _mesa_properties {sorted(props)}")
            # grid.<name> is the attached layer of that name - and nothing once the layer is removed
            for code, nm in NAMES.items():
                if code >= 100:
                    continue
                cur = self.gdict().get(nm)
                try:
                    via = getattr(self.grid, nm)
                except AttributeError:
                    via = None
                if via is not cur:
                    self.fail("one-value/grid-attribute-stale", i,
                              f"after {op}: grid.{nm} is " + ("a layer that is no longer attached (handle %d)" % self.hindex(via) if via is not None else "missing")
                              + ", the attached layer of that name is " + ("handle %d" % self.hindex(cur) if cur is not None else "none (AttributeError expected)"))
                    break
            # (3) the two views
            for n, Lr in self.gdict().items():
                for c in self.coords:
                    cell = self.grid._cells[c]
                    try:
                        cv = _enc(getattr(cell, n))
                    except AttributeError:
                        cv = None
                    lv = _enc(Lr.data[c]) if tuple(Lr.data.shape) == self.dims else None
                    if cv != lv:
                        self.fail("one-value/cell-vs-layer", i,
                                  f"after {op}: cell{c}.{n} reads {cv} but layer {n}.data{c} reads {lv}")
                        break
        if self.sibling is not None:
            sd = self.sibling._mesa_property_layers if self.discrete else self.sibling.properties
            exp1 = 78 if self.discrete else 77
            ok = (sorted(n for n in sd if n != "empty") == ["p1", "p2", "p3"] and int(sd["p1"].data[self.coords[0]]) == exp1
                  and all(int(sd[nm].data[c]) == 77 for nm in ("p2", "p3") for c in self.coords)
                  and (not self.discrete or bool(sd["empty"].data.all())))
            if not ok:
                self.fail("sibling-grid/cross-talk", i, f"after {op}: a second grid of the same class in the same process was changed by operations on this one")
        # (4) emptiness
        occ = set(self.sh_agents.values())
        self.empty_ok = True
        if self.discrete:
            e = self.gdict().get("empty")
            if e is not None:
                bad = [c for c in self.coords if bool(e.data[c]) != (c not in occ)]
                self.empty_ok = not bad
                if bad and not self.empty_reported:
                    self.empty_reported = True
                    self.fail("empty/mismatch", i,
                              f"after {op}: layer 'empty' at {bad[0]} is {bool(e.data[bad[0]])} but the cell is {'occupied' if bad[0] in occ else 'empty'} (agents at {sorted(occ)})")
        else:
            bad = [c for c in self.coords if bool(self.grid.empty_mask[c]) != (c not in occ)]
            self.empty_ok = not bad
            if bad and not self.empty_reported:
                self.empty_reported = True
                self.fail("empty/mismatch", i,
                          f"after {op}: empty_mask{bad[0]} is {bool(self.grid.empty_mask[bad[0]])} but the cell is {'occupied' if bad[0] in occ else 'empty'}")

    # ---- expected outcome of a select, stated directly over the current arrays
    def expected_select(self, conds, exts, masks, only_empty):
        """returns ('ok', [coords row-major]) or ('err', kind)"""
        gd = self.gdict()
        occ = set(self.sh_agents.values())
        cur = [c for c in self.coords if all(m[self.coords.index(c)] for m in masks)]
        if only_empty:
            cur = [c for c in cur if c not in occ]
        for n, cd in conds:
            if NAMES[n] not in gd:
                return "err", E_KEY
            a = gd[NAMES[n]].data
            cur = [c for c in cur if _cond_z(cd, _enc(a[c]))]
        for n, mode in exts:
            if NAMES[n] not in gd:
                return "err", E_KEY
            if mode not in (0, 1):
                return "err", E_VALUE
            a = gd[NAMES[n]].data
            if cur:
                vals = [_enc(a[c]) for c in cur]
                t = max(vals) if mode == 0 else min(vals)
                cur = [c for c in cur if _enc(a[c]) == t]
        return "ok", cur


def _only_empty_is_culprit(R, kw, exp):
    """differential diagnosis: the same query with only_empty replaced by an explicit mask of the
    actually empty cells gives the exact answer"""
    import numpy as np

    occ = set(R.sh_agents.values())
    em = np.zeros(R.dims, dtype=bool)
    for c in R.coords:
        em[c] = c not in occ
    kw2 = {k: v for k, v in kw.items() if k != "only_empty"}
    ms = kw2.get("masks", [])
    ms = list(ms) if isinstance(ms, list) else [ms]
    kw2["masks"] = [*ms, em]
    try:
        got = [tuple(int(x) for x in c) for c in R.grid.select_cells(return_list=True, **kw2)]
    except Exception:  # noqa: BLE001
        return False
    return got == exp


def _reentrant(R, f):
    """a user condition that, while the library is evaluating it cell by cell, calls back into the public API (reads only:
    a selection, a cell attribute, the layer table) before answering"""
    def g(x):
        R.grid.select_cells(only_empty=True)
        for n, Lr in list(R.gdict().items())[:2]:
            Lr.data[tuple(0 for _ in Lr.data.shape)]
            if R.discrete:
                getattr(R.grid._cells[R.coords[0]], n)
                getattr(R.grid, n)
        return f(x)
    return g


_AGENT_CLASSES = {}


def _agent_class(discrete, a):
    """heterogeneous population: the framework class, a subclass of a subclass, a class with a mixin AFTER the framework
    base in the MRO, and an agent whose truth value is False and whose len() is 0"""
    import mesa
    from mesa.discrete_space import CellAgent

    key = (discrete, a % 4)
    if key not in _AGENT_CLASSES:
        base = CellAgent if discrete else mesa.Agent

        class Sub(base):
            pass

        class SubSub(Sub):
            extra = 1

        class Mixin:
            tag = "m"

        class WithMixinAfter(base, Mixin):
            pass

        class Falsy(base):
            def __bool__(self):
                return False

            def __len__(self):
                return 0

        _AGENT_CLASSES[key] = [base, SubSub, WithMixinAfter, Falsy][a % 4]
    return _AGENT_CLASSES[key]


def _exc_kind(e):
    if isinstance(e, KeyError):
        return E_KEY
    if isinstance(e, IndexError):
        return E_INDEX
    if isinstance(e, ValueError):
        return E_VALUE
    if isinstance(e, AttributeError):
        return E_ATTR
    if isinstance(e, TypeError):
        return E_TYPE
    return E_EXC


SITE = {"add": "add_property_layer", "create": "add_property_layer", "remove": "remove_property_layer",
        "lwrite": "set_cell", "modcell": "modify_cell", "modcells": "modify_cells", "set": "set_cells",
        "setarr": "set_cells", "select": "select_cells", "place": "place_agent", "cellwrite": "cell-write",
        "move": "move_agent", "mrel": "move_relative", "rm": "remove_agent", "new": "PropertyLayer", "nmask": "get_neighborhood_mask", "agg": "aggregate", "probe": "modify_cells-dtype", "lsel": "layer_select_cells", "boom": "user-callable", "empties": "empties"}


FLOATS = [0.1, 0.2, 0.3, 1 / 3, 2 / 3, 1e-300, 1e300, -0.0, 0.7, 2 ** 53 + 2.0, -1.1, 1e-9, 123456.789]


def _float_cases(rng, n):
    """oracle-only stream: float layers holding NON-dyadic values (the Z-valued model cannot represent them)"""
    out = []
    for _ in range(n):
        impl = rng.choice(["discrete", "legacy"])
        dims = rng.choice([(1, 1), (2, 2), (2, 3), (1, 4), (3, 3)])
        coords = list(itertools.product(*(range(d) for d in dims)))
        ops = []
        for _ in range(rng.randint(5, 14)):
            k = rng.random()
            if k < 0.3:
                ops.append(["fw", list(rng.choice(coords)), rng.choice(FLOATS), rng.randrange(3)])
            elif k < 0.45:
                ops.append(["fset", rng.choice(FLOATS), rng.choice(CMPS), rng.choice(FLOATS)])
            elif k < 0.65:
                ops.append(["fmod", rng.choice(["add", "mul", "max", "neg"]), rng.choice(FLOATS), rng.choice(["ubin", "py"]),
                            rng.choice([None, [rng.choice(CMPS), rng.choice(FLOATS)]])])
            elif k < 0.9:
                ops.append(["fsel", rng.choice(CMPS), rng.choice(FLOATS), rng.choice([None, 0, 1])])
            else:
                ops.append(["fagg", rng.randrange(4)])
        out.append({"impl": impl, "cls": "OrthogonalMooreGrid" if impl == "discrete" else "SingleGrid", "dims": list(dims),
                    "cap": 0, "torus": False, "stream": "float", "ops": ops})
    return out


def _run_float(case):
    """non-dyadic floats: what is written is read back BIT-EXACT through both views; conditional set / modify follow IEEE
    double arithmetic exactly (python float arithmetic is the same arithmetic); selections compare exactly; np.sum /
    np.mean within 1e-12 relative (NumPy sums pairwise), np.max / np.min exactly"""
    import math
    import operator
    import random
    import warnings

    import numpy as np

    warnings.simplefilter("ignore")
    impl = case["impl"]
    discrete = impl == "discrete"
    dims = tuple(case["dims"])
    coords = list(itertools.product(*(range(d) for d in dims)))
    if discrete:
        import mesa.discrete_space as ds

        grid = getattr(ds, case["cls"])(dims, torus=False, random=random.Random(1))
        Lr = grid.create_property_layer("p1", default_value=0.1, dtype=float)
    else:
        import mesa.space as msp

        grid = getattr(msp, case["cls"])(dims[0], dims[1], False)
        Lr = msp.PropertyLayer("p1", dims[0], dims[1], 0.1, dtype=float)
        grid.add_property_layer(Lr)
    sh = dict.fromkeys(coords, 0.1)
    cmpf = {"gt": operator.gt, "ge": operator.ge, "lt": operator.lt, "le": operator.le, "eq": operator.eq, "ne": operator.ne}
    failures = []

    def fail(key, i, what):
        failures.append({"key": f"C11/{impl}/float/{key}", "op": i, "what": what})

    def same(a, b):
        return a == b and math.copysign(1, a) == math.copysign(1, b)

    for i, op in enumerate(case["ops"]):
        k = op[0]
        try:
            if k == "fw":
                c, x, how = tuple(op[1]), op[2], op[3]
                if c not in sh:
                    continue
                v = [x, np.float64(x), np.array(x)][how]
                if discrete and how != 1:
                    grid._cells[c].p1 = v
                elif discrete:
                    Lr.data[c] = v
                else:
                    Lr.set_cell(c, v)
                sh[c] = x
            elif k == "fset":
                _, x, cm, kk = op
                Lr.set_cells(x, lambda v, f=cmpf[cm], kk=kk: f(v, kk))
                for c in sh:
                    if cmpf[cm](sh[c], kk):
                        sh[c] = x
            elif k == "fmod":
                _, kind, kk, form, cd = op
                cf = (lambda v, f=cmpf[cd[0]], q=cd[1]: f(v, q)) if cd else None
                pyf = {"add": lambda v: v + kk, "mul": lambda v: v * kk, "max": lambda v: max(v, kk), "neg": lambda v: -v}[kind]
                if kind == "neg":
                    fn, val = (np.negative, None) if form == "ubin" else (pyf, None)
                elif form == "ubin":
                    fn, val = {"add": np.add, "mul": np.multiply, "max": np.maximum}[kind], kk
                else:
                    fn, val = pyf, None
                if discrete:
                    grid.modify_properties("p1", fn, val, cf)
                else:
                    Lr.modify_cells(fn, val, cf)
                for c in sh:
                    if cd is None or cmpf[cd[0]](sh[c], cd[1]):
                        sh[c] = float(pyf(sh[c]))
            elif k == "fsel":
                _, cm, kk, ext = op
                kw = {"conditions": {"p1": lambda a, f=cmpf[cm], kk=kk: f(a, kk)}}
                if ext is not None:
                    kw["extreme_values"] = {"p1": ["highest", "lowest"][ext]}
                got = [tuple(int(x) for x in c) for c in grid.select_cells(**kw)]
                exp = [c for c in coords if cmpf[cm](sh[c], kk)]
                if ext is not None and exp:
                    t = (max if ext == 0 else min)(sh[c] for c in exp)
                    exp = [c for c in exp if sh[c] == t]
                if got != exp:
                    fail("select_cells/wrong-cells", i, f"{op}: got {got}, exact answer {exp} for values {sh}")
                one = [tuple(int(x) for x in c) for c in Lr.select_cells(lambda a, f=cmpf[cm], kk=kk: f(a, kk))]
                if one != [c for c in coords if cmpf[cm](sh[c], kk)]:
                    fail("layer_select_cells/wrong-cells", i, f"{op}: PropertyLayer.select_cells gave {one} for values {sh}")
            elif k == "fagg":
                fn = [np.sum, np.max, np.min, np.mean][op[1]]
                r = float(Lr.aggregate(fn) if discrete else Lr.aggregate_property(fn))
                vals = [sh[c] for c in coords]
                exp = [math.fsum(vals), max(vals), min(vals), math.fsum(vals) / len(vals)][op[1]]
                ok = (r == exp) if op[1] in (1, 2) else math.isclose(r, exp, rel_tol=1e-12, abs_tol=1e-300 + 1e-12 * max(abs(v) for v in vals))
                if not ok:
                    fail("aggregate/wrong-value", i, f"{op}: got {r!r}, the values {vals} give {exp!r}")
        except Exception as e:  # noqa: BLE001
            fail(f"{k}/unexpected-exception", i, f"{op} raised {type(e).__name__}: {e}")
            break
        # both views, bit for bit
        bad = [c for c in coords if not same(float(Lr.data[c]), sh[c])]
        if bad:
            fail(f"{k}/wrong-values", i, f"after {op}: layer at {bad[0]} holds {float(Lr.data[bad[0]])!r}, the history gives {sh[bad[0]]!r}")
            for c in bad:
                sh[c] = float(Lr.data[c])
        if discrete:
            bad = [c for c in coords if not same(float(grid._cells[c].p1), float(Lr.data[c]))]
            if bad:
                fail("one-value/cell-vs-layer", i, f"after {op}: cell{bad[0]}.p1 = {float(grid._cells[bad[0]].p1)!r} but the layer holds {float(Lr.data[bad[0]])!r}")
    return {"obs": [], "failures": failures, "model": False}


def run_impl(case):
    import warnings

    import numpy as np

    if case.get("stream") == "float":
        return _run_float(case)
    if case.get("stream") == "edge":
        return _run_edge(case)
    warnings.simplefilter("ignore")
    R = _Run(case)
    obs = []
    ofm = [{} for _ in case["ops"]]     # what the model additionally needs: outcomes / the resolved layer dtype
    discrete = R.discrete
    for i, op in enumerate(case["ops"]):
        kind = op[0]
        if R.poisoned:
            obs.append([-99])
            continue
        try:
            before = R.view()
        except Exception:  # noqa: BLE001
            before = None
        expect_err = None       # kind the statement expects (None: must succeed)
        result = None           # ("ok", payload) | ("skip",) | ("err", kind)
        sh_update = None        # closure applied to the shadow when the call succeeded
        try:
            if kind == "new":
                _, n, dt, dims, v = op
                dtype = {DT_BOOL: bool, DT_INT: int, DT_FLOAT: float}[dt]
                if discrete:
                    h = R.PL(NAMES[n], tuple(dims), default_value=_pyval(dt, v), dtype=dtype)
                else:
                    h = R.PL(NAMES[n], dims[0], dims[1], _pyval(dt, v), dtype=dtype)
                R.handles.append(h)
                R.sh.append(dict.fromkeys(itertools.product(*(range(d) for d in dims)), v))
                R.sh_dims.append(tuple(dims))
                R.sh_dt.append(dt)
                R.sh_name.append(n)
                result = ("ok", [len(R.handles) - 1])
            elif kind == "create":
                _, n, dt, v = op
                if not discrete:
                    result = ("skip",)
                else:
                    if n in R.sh_grid or n >= 100:
                        expect_err = E_VALUE
                    dtype = {DT_BOOL: bool, DT_INT: int, DT_FLOAT: float}[dt]
                    h = R.grid.create_property_layer(NAMES[n], default_value=_pyval(dt, v), dtype=dtype)
                    R.handles.append(h)
                    R.sh.append(dict.fromkeys(R.coords, v))
                    R.sh_dims.append(R.dims)
                    R.sh_dt.append(dt)
                    R.sh_name.append(n)
                    R.sh_grid[n] = len(R.handles) - 1
                    result = ("ok", [len(R.handles) - 1])
            elif kind == "add":
                hi = op[1]
                if not (0 <= hi < len(R.handles)):
                    result = ("skip",)
                else:
                    n = R.sh_name[hi]
                    if n in R.sh_grid or tuple(R.sh_dims[hi]) != R.dims or (discrete and n >= 100):
                        expect_err = E_VALUE
                    R.grid.add_property_layer(R.handles[hi])
                    R.sh_grid[n] = hi
                    result = ("ok", [])
            elif kind == "remove":
                n = op[1]
                if n not in R.sh_grid:
                    expect_err = E_KEY if discrete else E_VALUE
                R.grid.remove_property_layer(NAMES[n])
                R.sh_grid.pop(n, None)
                result = ("ok", [])
            elif kind == "cellwrite":
                _, c, n, v = op
                c = tuple(c)
                if not discrete or c not in R.grid._cells or not isinstance(vars(R.grid.cell_klass).get(NAMES[n]), R.PD):
                    result = ("skip",)
                else:
                    hi = R.sh_grid.get(n)
                    setattr(R.grid._cells[c], NAMES[n], _as(R.sh_dt[hi] if hi is not None else DT_INT, v, _salt(op)))
                    if hi is not None:
                        R.sh[hi][c] = v
                    result = ("ok", [])
            elif kind in ("lwrite", "set", "setarr", "modcells", "modcell"):
                Lr = R.resolve(op[1], _salt(op))
                if Lr is None or (kind == "modcell" and discrete):
                    result = ("skip",)
                else:
                    hi = R.hindex(Lr)
                    dt = R.sh_dt[hi]
                    ofm[i]["ldt"] = dt
                    ldims = R.sh_dims[hi]
                    byname = op[1][0] == "n"
                    if kind == "lwrite":
                        _, _, c, v = op
                        cn = _norm(ldims, c)
                        if cn is None:
                            expect_err = E_INDEX
                        if discrete:
                            Lr.data[tuple(c)] = _as(dt, v, _salt(op))
                        else:
                            Lr.set_cell(tuple(c), _as(dt, v, _salt(op)))
                        if cn is not None:
                            R.sh[hi][cn] = v
                    elif kind == "set":
                        _, _, v, cd = op
                        cf = _mk_cond(dt, cd) if cd else None
                        if cf is not None and _salt(op) % 5 == 0:
                            cf = _reentrant(R, cf)
                        if discrete and byname and _salt(op) % 3:
                            R.grid.set_property(Lr.name, _as(dt, v, _salt(op)), cf)
                        else:
                            Lr.set_cells(_as(dt, v, _salt(op)), cf)
                        for c, x in R.sh[hi].items():
                            if cd is None or _cond_z(cd, x):
                                R.sh[hi][c] = v
                    elif kind == "setarr":
                        vals = op[2]
                        keys = list(R.sh[hi])
                        dtype = {DT_BOOL: bool, DT_INT: int, DT_FLOAT: float}[dt]
                        a = np.array([_pyval(dt, v) for v in vals], dtype=dtype)
                        if len(vals) == len(keys):
                            a = a.reshape(ldims)
                        else:
                            expect_err = E_VALUE
                        if discrete and byname:
                            R.grid.set_property(Lr.name, a)
                        elif discrete:
                            Lr.data = a
                        else:
                            Lr.set_cells(a)
                        if a.dtype.kind != "b":
                            a += 1              # the caller keeps using ITS array: the layer must hold a copy
                        else:
                            np.logical_not(a, out=a)
                        for c, v in zip(keys, vals):
                            R.sh[hi][c] = v
                    elif kind == "modcells":
                        _, _, form, f, hasval, cd = op
                        fn, k = _mk_operation(dt, form, f)
                        if form == "ubin" and k is not None and _salt(op) % 3:
                            k = np.asarray(k)[()] if _salt(op) % 3 == 1 else np.array(k)      # NumPy scalar / 0-d array operand
                        cf = _mk_cond(dt, cd) if cd else None
                        if form == "ubin" and not hasval:
                            expect_err = E_VALUE
                        value = (k if k is not None else 1) if hasval else None
                        if discrete and byname and _salt(op) % 3:
                            R.grid.modify_properties(Lr.name, fn, value, cf)
                        else:
                            Lr.modify_cells(fn, value, cf)
                        for c, x in R.sh[hi].items():
                            if cd is None or _cond_z(cd, x):
                                R.sh[hi][c] = _fop_z(f, x, dt)
                    else:
                        _, _, c, form, f, hasval = op
                        fn, k = _mk_operation(dt, form, f)
                        cn = _norm(ldims, c)
                        if cn is None:
                            expect_err = E_INDEX
                        elif form != "py" and not hasval:
                            expect_err = E_VALUE
                        elif form == "uun" and hasval:
                            expect_err = E_TYPE
                        value = (k if k is not None else 1) if hasval else None
                        Lr.modify_cell(tuple(c), fn, value)
                        if cn is not None:
                            R.sh[hi][cn] = _fop_z(f, R.sh[hi][cn], dt)
                    result = ("ok", [])
            elif kind == "select":
                _, conds, exts, masks, only_empty, aslist, bare = op
                st, exp = R.expected_select(conds, exts, masks, only_empty)
                if st == "err":
                    expect_err = exp
                gd = R.gdict()

                def dt_of(n):
                    Lr = gd.get(NAMES[n])
                    return R.sh_dt[R.hindex(Lr)] if Lr is not None else DT_INT

                kw = {}
                if conds:
                    kw["conditions"] = {NAMES[n]: _mk_cond(dt_of(n), cd) for n, cd in conds}
                if exts:
                    kw["extreme_values"] = {NAMES[n]: {0: "highest", 1: "lowest"}.get(m, "middle") for n, m in exts}
                if masks:
                    ms = [np.array(m, dtype=bool).reshape(R.dims) for m in masks]
                    kw["masks"] = ms[0] if (bare and len(ms) == 1) else ms
                if only_empty:
                    kw["only_empty"] = True
                if bare:                        # explicit empty / falsy arguments instead of leaving them out
                    kw.setdefault("conditions", {})
                    kw.setdefault("extreme_values", {})
                    if not masks:
                        kw["masks"] = []
                    kw.setdefault("only_empty", False)
                arg_snapshot = (list(kw.get("conditions") or {}), dict(kw.get("extreme_values") or {}),
                                [m.copy() for m in (kw["masks"] if isinstance(kw.get("masks"), list) else ([kw["masks"]] if "masks" in kw else []))])
                try:
                    got_l = R.grid.select_cells(return_list=True, **kw)
                    got_m = R.grid.select_cells(return_list=False, **kw)
                except Exception as e:  # noqa: BLE001
                    if st == "ok" and only_empty and _only_empty_is_culprit(R, kw, exp):
                        R.fail("select_cells/only_empty-ignored", i,
                               f"select_cells(conditions={conds}, extreme_values={exts}, masks={len(masks)}, only_empty=True) raised "
                               f"{type(e).__name__}: {e}; with an explicit mask of the empty cells instead of only_empty the answer is exact")
                        obs.append([-1, 99] + R.view())
                        continue
                    raise
                gl = [tuple(int(x) for x in c) for c in got_l]
                after_args = (list(kw.get("conditions") or {}), dict(kw.get("extreme_values") or {}),
                              list(kw["masks"] if isinstance(kw.get("masks"), list) else ([kw["masks"]] if "masks" in kw else [])))
                if (after_args[0] != arg_snapshot[0] or after_args[1] != arg_snapshot[1] or len(after_args[2]) != len(arg_snapshot[2])
                        or any(not np.array_equal(x, y) for x, y in zip(after_args[2], arg_snapshot[2]))):
                    R.fail("select_cells/mutates-arguments", i, f"{op}: select_cells changed the conditions / extreme_values / masks it was given")
                again = [tuple(int(x) for x in c) for c in R.grid.select_cells(return_list=True, **kw)]
                if again != gl:
                    R.fail("select_cells/not-repeatable", i, f"{op}: the same query asked twice without a change in between gave {gl} then {again}")
                gm_arr = np.asarray(np.ma.getdata(got_m)).astype(bool)
                if isinstance(got_m, np.ma.MaskedArray):
                    gm_arr = gm_arr & ~np.ma.getmaskarray(got_m) if False else gm_arr
                gm = [c for c in R.coords if gm_arr[c]]
                desc = (f"select_cells(conditions={conds}, extreme_values={exts}, masks={len(masks)}, only_empty={only_empty}) "
                        f"on {case['cls']}{R.dims}")
                if st == "ok" and not (only_empty and not R.empty_ok):   # a wrong emptiness layer is reported by empty/mismatch
                    occ = set(R.sh_agents.values())
                    if only_empty and any(c in occ for c in gl + gm):
                        R.fail("select_cells/only_empty-ignored", i,
                               f"{desc}: returned occupied cell(s) {[c for c in gl if c in occ]}; agents at {sorted(occ)}; got {gl}, exact answer {exp}")
                    elif sorted(gl) != sorted(exp) and only_empty and _only_empty_is_culprit(R, kw, exp):
                        R.fail("select_cells/only_empty-ignored", i,
                               f"{desc}: got {gl}, exact answer {exp}; with an explicit mask of the empty cells instead of only_empty the answer is exact")
                    elif sorted(gl) != sorted(exp):
                        R.fail("select_cells/wrong-cells", i, f"{desc}: got {gl}, exact answer {exp}")
                    elif gl != exp:
                        R.fail("select_cells/list-order", i, f"{desc}: got {gl}, row-major order is {exp}")
                    if sorted(gm) != sorted(gl):
                        R.fail("select_cells/list-mask-differ", i, f"{desc}: list form {gl} but mask form selects {gm}")
                    if tuple(gm_arr.shape) != R.dims:
                        R.fail("select_cells/mask-shape", i, f"{desc}: mask form has shape {gm_arr.shape}")
                if aslist:
                    result = ("ok", [len(gl)] + [x for c in gl for x in c])
                else:
                    result = ("ok", [int(gm_arr[c]) for c in R.coords])
            elif kind == "nmask":
                # get_neighborhood_mask: True exactly on the neighbourhood the grid itself reports (C07 / C09 own the
                # neighbourhood: it is handed to the model as an outcome), all False when that is empty
                _, c, ic, r, moore = op
                c = tuple(c)
                leg_hex = case["cls"].startswith("Hex") and not discrete
                if leg_hex:
                    import mesa.space as _msp

                    hex_own = "get_neighborhood_mask" in vars(_msp._HexGrid)      # fix C11-5 present?
                if c not in R.coords or (leg_hex and not hex_own):
                    # legacy hex grids before fix C11-5: the inherited method passes `moore` to _HexGrid.get_neighborhood
                    result = ("skip",)
                else:
                    if discrete:
                        nb = {tuple(x.coordinate) for x in R.grid._cells[c].get_neighborhood(radius=r, include_center=ic)}
                    elif leg_hex:
                        nb = {tuple(int(v) for v in x) for x in R.grid.get_neighborhood(c, ic, r)}
                    else:
                        nb = {tuple(int(v) for v in x) for x in R.grid.get_neighborhood(c, moore, ic, r)}
                    ofm[i]["nb"] = [list(x) for x in sorted(nb)]
                    m = (R.grid.get_neighborhood_mask(c, include_center=ic, radius=r) if discrete
                         else (R.grid.get_neighborhood_mask(c, ic, r) if leg_hex else R.grid.get_neighborhood_mask(c, moore, ic, r)))
                    got = {k for k in R.coords if bool(m[k])}
                    first = m.copy()
                    m[...] = ~m                     # the caller owns the result: a second call must not see this
                    m2 = (R.grid.get_neighborhood_mask(c, radius=r, include_center=ic) if discrete
                          else (R.grid.get_neighborhood_mask(c, ic, r) if leg_hex else R.grid.get_neighborhood_mask(c, moore, ic, r)))
                    if not np.array_equal(m2, first):
                        R.fail("get_neighborhood_mask/not-repeatable", i,
                               f"get_neighborhood_mask({c}, include_center={ic}, radius={r}) asked twice (the first result modified by the caller, "
                               f"keyword order swapped) gave different masks")
                    m = first
                    if tuple(m.shape) != R.dims or got != nb or m.dtype.kind != "b":
                        R.fail("get_neighborhood_mask/wrong-mask", i,
                               f"get_neighborhood_mask({c}, include_center={ic}, radius={r}) is True on {sorted(got)} "
                               f"(shape {m.shape}, dtype {m.dtype}), the neighbourhood is {sorted(nb)}")
                    result = ("ok", [int(bool(m[k])) for k in R.coords] if tuple(m.shape) == R.dims else [-5])
            elif kind == "agg":
                _, ref, akind = op
                Lr = R.resolve(ref)
                n = len(R.coords)
                if Lr is None or (akind == 3 and n & (n - 1)):
                    result = ("skip",)          # the mean is only observed where the division is exact (n a power of two)
                else:
                    hi = R.hindex(Lr)
                    dt = R.sh_dt[hi]
                    fn = {0: np.sum, 1: np.max, 2: np.min, 3: np.mean}[akind]
                    r = Lr.aggregate(fn) if discrete else Lr.aggregate_property(fn)
                    vals = list(R.sh[hi].values())
                    scale = 16 if dt == DT_FLOAT else 1
                    if akind == 3:
                        got = float(r) * len(vals) * scale
                        exp = [sum(vals), len(vals)]
                        gotl = [int(got) if got == int(got) else 10 ** 9 + 7, len(vals)]
                    else:
                        exp = [{0: sum, 1: max, 2: min}[akind](vals)]
                        gotl = [_enc(r)]
                    if gotl != exp:
                        R.fail("aggregate/wrong-value", i,
                               f"{op}: {['sum', 'max', 'min', 'mean'][akind]} over layer {Lr.name!r} gives {r!r} (= {gotl} in layer units), the values {vals} give {exp}")
                    result = ("ok", gotl)
            elif kind == "empties":
                # legacy: grid.empties / exists_empty_cells() read at an arbitrary point (builds the lazy set; later mask
                # updates take another path); compared with the REAL cell contents; no observable change: the model skips it
                if discrete:
                    result = ("skip",)
                else:
                    occ = set(R.sh_agents.values())
                    exp = {c for c in R.coords if c not in occ}
                    got = set(R.grid.empties) if op[1] == 0 else None
                    ex = R.grid.exists_empty_cells()
                    if (got is not None and {tuple(c) for c in got} != exp) or bool(ex) != bool(exp):
                        R.fail("empties/mismatch", i, f"{op}: grid.empties = {sorted(got) if got is not None else '-'}, exists_empty_cells() = {ex}, "
                                                      f"the cells without an agent are {sorted(exp)}")
                    result = ("skip",)
            elif kind == "boom":
                # a condition / operation supplied by the user that RAISES part-way: nothing may have changed, and
                # the history continues from that state (oracle only; the model skips the operation)
                _, ref, which, bulk = op
                Lr = R.resolve(ref)
                if Lr is None:
                    result = ("skip",)
                else:
                    hi = R.hindex(Lr)
                    calls = []

                    exc = [ZeroDivisionError, StopIteration, IndexError, KeyError, AttributeError, TypeError, ValueError][_salt(op) % 7]

                    def bad(x, calls=calls):
                        calls.append(1)
                        if len(calls) >= 2:
                            raise exc("user code failed")
                        return x

                    try:
                        if which == "cond":
                            Lr.set_cells(_pyval(R.sh_dt[hi], next(iter(R.sh[hi].values()))), bad)
                        elif bulk or discrete:
                            Lr.modify_cells(bad)
                        else:
                            calls.append(1)
                            Lr.modify_cell(tuple(R.coords[0]), lambda x: bad(x))
                        raised = False
                    except exc:
                        raised = True
                    if not raised:
                        R.fail("user-exception/swallowed", i, f"{op}: the exception raised by the user's callable did not propagate")
                    if R.view() != before:
                        R.fail("user-exception/not-atomic", i, f"{op}: the user's callable raised, but the observable state changed",
                               c18="user-callable-raises")
                    result = ("skip",)
            elif kind == "lsel":
                # PropertyLayer.select_cells(condition, return_list): one layer, the condition applied to its array
                _, ref, cd, aslist = op
                Lr = R.resolve(ref)
                if Lr is None:
                    result = ("skip",)
                else:
                    hi = R.hindex(Lr)
                    dt = R.sh_dt[hi]
                    cf = _mk_cond(dt, cd)
                    got_l = [tuple(int(x) for x in c) for c in Lr.select_cells(cf, return_list=True)]
                    got_m = np.asarray(Lr.select_cells(cf, return_list=False)).astype(bool)
                    keys = list(R.sh[hi])
                    exp = [c for c in keys if _cond_z(cd, R.sh[hi][c])]
                    gm = [c for c in keys if got_m[c]] if tuple(got_m.shape) == tuple(R.sh_dims[hi]) else None
                    if got_l != exp or gm != exp:
                        R.fail("layer_select_cells/wrong-cells", i,
                               f"{op}: PropertyLayer.select_cells on {Lr.name!r}: list form {got_l}, mask form {gm}, the cells satisfying the condition are {exp}")
                    result = ("ok", ([len(got_l)] + [x for c in got_l for x in c]) if aslist
                              else ([int(got_m[c]) for c in keys] if gm is not None else [-5]))
            elif kind == "probe":
                # the dtype modify_cells leaves behind on a fresh 2x2 layer of dtype ldt for an operand of dtype vdt
                _, ldt, form, f, vdt = op
                dtype = {DT_BOOL: bool, DT_INT: int, DT_FLOAT: float}[ldt]
                init = {DT_BOOL: True, DT_INT: 2, DT_FLOAT: 1.5}[ldt]
                if discrete:
                    P = R.PL("probe", (2, 2), default_value=init, dtype=dtype)
                else:
                    P = R.PL("probe", 2, 2, init, dtype=dtype)
                fn, k = _mk_operation(ldt, form, [*f[:2], vdt] if len(f) > 1 else f)
                try:
                    P.modify_cells(fn, k if form == "ubin" else None)
                    code = _kind_dt(P.data)
                except TypeError:
                    code = 8
                result = ("ok", [code])
            elif kind in ("place", "move", "mrel", "rm"):
                a = op[1]

                def others(c):
                    return sum(1 for b, v in R.sh_agents.items() if v == c and b != a)

                def rejects(c):
                    """the statement's side: does cell c refuse agent a"""
                    if discrete:
                        return bool(R.cap) and others(c) >= R.cap
                    return (not R.multi) and others(c) > 0

                if kind == "place":
                    c = tuple(op[2])
                    if c not in R.coords or a in R.sh_agents:
                        result = ("skip",)
                    else:
                        if a not in R.agents:
                            import mesa
                            from mesa.discrete_space import CellAgent

                            R.agents[a] = _agent_class(discrete, a)(R.model)
                        ag = R.agents[a]
                        if rejects(c):
                            expect_err = E_EXC
                        if discrete:
                            ag.cell = R.grid._cells[c]
                        else:
                            R.grid.place_agent(ag, c)
                        R.sh_agents[a] = c
                        result = ("ok", [])
                elif kind == "move":
                    c = tuple(op[2])
                    if c not in R.coords or a not in R.sh_agents:
                        result = ("skip",)
                    else:
                        ag = R.agents[a]
                        if rejects(c) and R.sh_agents[a] != c:
                            expect_err = E_EXC
                        if discrete:
                            if sum(c) % 2:
                                ag.cell = R.grid._cells[c]
                            else:
                                ag.move_to(R.grid._cells[c])
                        else:
                            R.grid.move_agent(ag, c)
                        R.sh_agents[a] = c
                        result = ("ok", [])
                elif kind == "mrel":
                    d = tuple(op[2])
                    if not discrete or a not in R.sh_agents:
                        result = ("skip",)
                    else:
                        ag = R.agents[a]
                        c0 = R.sh_agents[a]
                        t = tuple(x + y for x, y in zip(c0, d))
                        if case.get("torus"):
                            t = tuple(x % m for x, m in zip(t, R.dims))
                        nzc = sum(1 for x in d if x)
                        cls = case["cls"]
                        if cls == "HexGrid":
                            # the statement's own hex adjacency (offset layout, parity of the second coordinate)
                            tab = ([(-1, -1), (0, -1), (-1, 0), (1, 0), (-1, 1), (0, 1)] if c0[1] % 2
                                   else [(0, -1), (1, -1), (-1, 0), (1, 0), (0, 1), (1, 1)])
                            is_offset = d in tab
                        else:
                            is_offset = (len(d) == len(c0) and all(-1 <= x <= 1 for x in d)
                                         and (nzc >= 1 if cls == "OrthogonalMooreGrid" else nzc == 1))
                        ok_dir = is_offset and t in R.grid._cells
                        if not ok_dir:
                            expect_err = E_VALUE
                        elif rejects(t) and t != c0:
                            expect_err = E_EXC
                        ag.move_relative(d)
                        R.sh_agents[a] = t
                        result = ("ok", [])
                else:
                    if a not in R.sh_agents:
                        result = ("skip",)
                    else:
                        ag = R.agents[a]
                        if discrete:
                            ag.cell = None
                        else:
                            R.grid.remove_agent(ag)
                        del R.sh_agents[a]
                        result = ("ok", [])
            else:
                raise ValueError(f"unknown op {op}")
            if discrete and kind in ("place", "move", "mrel", "rm"):
                occ = set(R.sh_agents.values())
                R.sh[0] = {c: int(c not in occ) for c in R.coords}
            # the call returned
            if expect_err is not None and result[0] == "ok":
                if kind in ("create", "add") and discrete and (op[1] >= 100 if kind == "create" else R.sh_name[op[1]] >= 100):
                    nm = NAMES[op[1]] if kind == "create" else NAMES[R.sh_name[op[1]]]
                    R.fail("add_property_layer/shadows-cell-attribute", i,
                           f"{op}: a layer named {nm!r} was accepted although every cell already has an attribute {nm!r}; "
                           f"the class attribute now hides it (cell.{nm} reads the layer)")
                    R.poisoned = True
                else:
                    R.fail(f"{SITE[kind]}/missing-exception", i, f"{op} was accepted; the statement expects error kind {expect_err}")
        except Exception as e:  # noqa: BLE001
            k = _exc_kind(e)
            if expect_err is not None and k == expect_err:
                result = ("err", k)
            else:
                result = ("err", 99)
                if kind == "select" and discrete and op[4] and isinstance(e, TypeError):
                    R.fail("select_cells/only_empty-ignored", i,
                           f"{op}: select_cells(only_empty=True) raised {type(e).__name__}: {e} (the PropertyLayer object, not its array, is and-ed into the mask)")
                elif kind == "modcells" and op[2] == "uun":
                    R.fail("modify_cells/unary-ufunc-rejected", i,
                           f"{op}: modify_cells with the unary ufunc np.{'logical_not' if op[3][0] == 'not' else 'negative'} raised {type(e).__name__}: {e}")
                else:
                    R.fail(f"{SITE[kind]}/unexpected-exception", i, f"{op} raised {type(e).__name__}: {e}"
                           + (f" (expected error kind {expect_err})" if expect_err else ""))
            # a rejected call must leave everything as it was (the shadow is only updated after a call returned)
            try:
                after = R.view()
            except Exception:  # noqa: BLE001
                after = None
            if after != before:
                site = SITE[kind]
                R.fail(f"{site}/not-atomic", i, f"{op} raised {type(e).__name__} but changed the observable state", c18=site)
        try:
            v = R.view()
        except Exception:  # noqa: BLE001
            v = [-99]
        if result[0] == "ok":
            obs.append([0] + list(result[1]) + v)
        elif result[0] == "skip":
            obs.append([-2] + v)
        else:
            obs.append([-1, result[1]] + v)
        try:
            R.check_state(i, op)
        except Exception as e:  # noqa: BLE001
            R.fail(f"{SITE[kind]}/state-unreadable", i, f"after {op} the state can no longer be read: {type(e).__name__}: {e}")
    return {"obs": obs, "failures": R.failures, "ops_for_model": ofm}


# ------------------------------------------------------------------ model side
def _ref(r):
    return f"(ByHandle {L.z(r[1])})" if r[0] == "h" else f"(ByName {L.z(r[1])})"


def _cond(cd):
    return f"(C{cd[0][0].upper()}{cd[0][1]}, {L.z(cd[1])})"


def _ocond(cd):
    return "None" if cd is None else f"(Some {_cond(cd)})"


def _fop(f, ldt=DT_INT):
    """the operation resolved against the layer's dtype ldt (operand converted to the layer's scale; `+` on a bool
    layer is logical or; logical_not on a float layer yields 1.0 / 0.0)"""
    if len(f) > 1:
        k = _k_layer(f, ldt)
        name = {"add": "FOr" if ldt == DT_BOOL else "FAdd", "mul": "FMul", "max": "FMax", "min": "FMin"}[f[0]]
        return f"{name} {L.z(k)}"
    return {"not": "FNotF" if ldt == DT_FLOAT else "FNot", "neg": "FNeg"}[f[0]]


FORM = {"ubin": "UBin", "uun": "UUn", "py": "PyFn"}


def _op(case, op, extra=None):
    k = op[0]
    extra = extra or {}
    ldt = extra.get("ldt")
    ldt = DT_INT if ldt is None else ldt
    if k == "new":
        return f"NewLayer {L.z(op[1])} {L.z(op[2])} {L.zlist(op[3])} {L.z(op[4])}"
    if k == "create":
        return f"Create {L.z(op[1])} {L.z(op[2])} {L.z(op[3])}"
    if k == "add":
        return f"AddLayer {L.z(op[1])}"
    if k == "remove":
        return f"RemoveLayer {L.z(op[1])}"
    if k == "cellwrite":
        return f"CellWrite {L.zlist(op[1])} {L.z(op[2])} {L.z(op[3])}"
    if k == "lwrite":
        return f"LayerWrite {_ref(op[1])} {L.zlist(op[2])} {L.z(op[3])}"
    if k == "set":
        return f"SetCells {_ref(op[1])} {L.z(op[2])} {_ocond(op[3])}"
    if k == "setarr":
        return f"SetArray {_ref(op[1])} {L.zlist(op[2])}"
    if k == "modcells":
        return f"ModifyCells {_ref(op[1])} {FORM[op[2]]} ({_fop(op[3], ldt)}) {L.b(op[4])} {_ocond(op[5])}"
    if k == "modcell":
        return f"ModifyCell {_ref(op[1])} {L.zlist(op[2])} {FORM[op[3]]} ({_fop(op[4], ldt)}) {L.b(op[5])}"
    if k == "select":
        conds = L.lst([L.pair(L.z(n), _cond(cd)) for n, cd in op[1]])
        exts = L.lst([L.pair(L.z(n), L.z(m)) for n, m in op[2]])
        masks = L.lst([L.lst([L.b(x) for x in m]) for m in op[3]])
        return f"Select {conds} {exts} {masks} {L.b(op[4])} {L.b(op[5])}"
    if k == "nmask":
        if "nb" not in extra:
            return "Skip"
        return f"NbhdMask {L.lst([L.zlist(c) for c in extra['nb']])}"
    if k == "agg":
        n = 1
        for d in case["dims"]:
            n *= d
        if op[2] == 3 and n & (n - 1):
            return "Skip"
        return f"Aggregate {_ref(op[1])} {L.z(op[2])}"
    if k in ("boom", "empties"):
        return "Skip"
    if k == "lsel":
        return f"LayerSelect {_ref(op[1])} {_cond(op[2])} {L.b(op[3])}"
    if k == "probe":
        f = [*op[3][:2], op[4]] if len(op[3]) > 1 else op[3]
        return f"ProbeDtype {L.z(op[1])} {FORM[op[2]]} ({_fop(f, op[1])}) {L.z(op[4])}"
    if k == "mrel":
        if case["impl"] != "discrete":
            return "Skip"
        geom = {"OrthogonalMooreGrid": 0, "OrthogonalVonNeumannGrid": 1, "HexGrid": 2}[case["cls"]]
        return f"MoveRel {L.z(op[1])} {L.zlist(op[2])} {geom} {L.b(bool(case.get('torus')))}"
    if k == "place":
        return f"Place {L.z(op[1])} {L.zlist(op[2])}"
    if k == "move":
        return f"Move {L.z(op[1])} {L.zlist(op[2])}"
    if k == "rm":
        return f"Remove {L.z(op[1])}"
    raise ValueError(op)


def coq_case(case):
    if case.get("stream") in ("float", "edge"):        # oracle-only streams: nothing for the model to run
        return "{| c_discrete := true; c_multi := false; c_cap := 0; c_dims := [1; 1]; c_ops := [] |}"
    extras = case.get("_ops_for_model") or [{}] * len(case["ops"])
    if len(extras) != len(case["ops"]):
        extras = [{}] * len(case["ops"])
    ops = L.lst([_op(case, o, e) for o, e in zip(case["ops"], extras)])
    return (f"{{| c_discrete := {L.b(case['impl'] == 'discrete')}; c_multi := {L.b('Multi' in case['cls'])}; "
            f"c_cap := {L.z(case.get('cap') or 0)}; c_dims := {L.zlist(case['dims'])}; c_ops := {ops} |}}")


def op_kinds(case):
    if case.get("stream") in ("float", "edge"):
        return [f"{case['impl']}:{case['stream']}-stream/{op[0]}" for op in case["ops"]]
    out = []
    for op in case["ops"]:
        k = op[0]
        if k == "select":
            k += "/" + ("c" if op[1] else "") + ("x" if op[2] else "") + ("m" if op[3] else "") + ("e" if op[4] else "") + ("/list" if op[5] else "/mask")
        elif k == "modcells":
            k += "/" + op[2] + ("/cond" if op[5] else "")
        elif k == "set":
            k += "/cond" if op[3] else ""
        out.append(case["impl"] + ":" + k)
    return out


def nontrivial(case):
    obs = case.get("_obs", [])
    ops = case["ops"]
    if len(ops) < 4 or len(obs) != len(ops):
        return False
    wrote = any(o[0] in ("cellwrite", "lwrite", "set", "setarr", "modcells", "modcell") and b[0] == 0 for o, b in zip(ops, obs))
    sel = any(o[0] == "select" and b[0] == 0 and ((o[5] and b[1] > 0) or (not o[5] and any(b[1:1 + 4]))) for o, b in zip(ops, obs))
    return wrote and sel


LEVEL_TEXT = ("33 machine-checked Coq theorems (closed under the global context, each with a non-vacuity Example among 13) over an executable "
              "Gallina model of BOTH property-layer implementations: layer objects in a heap; the grid's layer dict, the per-class "
              "PropertyDescriptors and _mesa_properties as separate tables updated in source order; NumPy index normalisation; bulk set / "
              "modify with every rejection path; the select_cells pipeline run in the stage order re-extracted from the source; agents with "
              "cell capacity, the repaired cell setter, move_relative on Moore / von Neumann / hex grids with torus, SingleGrid and MultiGrid "
              "mask updates. Proved for ALL operation histories (induction / invariants, no bounds): cell attribute and layer read the same "
              "value (C11_one_value, C11_tables_invariant); writes through either view and bulk set / modify are read back pointwise "
              "(C11_write_read_cell/_layer, C11_bulk_set/_modify); the emptiness layer and the legacy empty_mask of SingleGrid and MultiGrid "
              "equal actual emptiness (C11_empty_layer_true, C11_empty_mask_true); select_cells returns exactly the coordinates satisfying "
              "masks, conditions, 'no agent in the cell' and the sequential highest / lowest criteria (C11_select_exact, "
              "C11_select_exact_actual, C11_list_mask_same, C11_layer_select_exact); get_neighborhood_mask is True exactly on the reported "
              "neighbourhood, all False when empty (C11_nbhd_mask_exact, C11_nbhd_mask_hex_of_source); aggregate is the sum / mean / max / "
              "min of the cells' values (C11_aggregate_exact); the admissible dtype pairs are exactly the dtype-preserving ones "
              "(C11_dtype_boundary); every rejected call leaves the state identical, 'Cell is full' included (C18_proplayer_atomic, "
              "_continue, _full_cell). Code-level T1: 19 function bodies (set_cells, modify_cells, modify_cell, set_cell, "
              "PropertyDescriptor.__get__/__set__, add / remove_property_layer, the extreme-value loop body, get_neighborhood_mask x3, "
              "ufunc_requires_additional_input; both source files) are translated from the working tree on every run and proved equal to "
              "the model's functions by robust bridge lemmas (C11_source_*_is_model, C11_step_modify_cells_of_source), with the headline "
              "statements restated about the translated code (C11_bulk_modify_of_source, C11_extreme_exact_of_source, "
              "C11_nbhd_mask_of_source); table-level T1 for the stage order and the only_empty operand (C11_source_select_order, "
              "C11_source_only_empty_array). T2: every history is run on the implementation and evaluated by the model under vm_compute "
              "(per-operation hashes of the whole observable state); an independent oracle states the property on the implementation "
              "and supplies the failing input.")
LEVEL_NOTE = ("Theorems are about the model and about the translated source functions; what connects them to CPython / NumPy is T1 (fail-closed "
              "translation + bridge lemmas) and T2 (differential testing), not proof: NumPy primitives are list functions of a hand-written "
              "library, user callables and the neighbourhood computation are parameters. Oracle-only (no model): float layers with "
              "non-dyadic values, user callables that raise, argument-mutation / repeatability checks, the sibling grid. Not covered at all: "
              "values after a dtype change, from_data, pickling of layers, NaN. Defects found by this check and fixed in /repo: C11-1 "
              "(only_empty and-ed the layer object), C11-2 (layer names shadowing inherited cell attributes), C11-3 (unary ufuncs refused: "
              "nargs vs nin), C11-4 (get_neighborhood_mask on an empty neighbourhood), C11-5 (legacy hex get_neighborhood_mask); no known "
              "finding remains open. Trusted: Coq kernel, translators, driver / observer / printer. No axioms.")
TECHNIQUE = ("Coq proof (invariants by induction over operation histories; 202 lemmas in 3 proof files; closed under the global context) + "
             "code-level T1 (source functions translated to Gallina on every run, bridge lemmas) + vm_compute correspondence (T2) + "
             "independent oracle incl. oracle-only streams")
DESIGN_REF = "DESIGN.md section 4, C11 (and C18 property-layer sites)"
