"""C01 - a seeded run is reproducible in every process, hash seed and history.

Two kinds of histories:
  * model-tied ("world" cases): a small Mesa model (registry, a legacy SingleGrid/MultiGrid, a cell space built
    with or without the model's generator) and a list of operations - derivation terms over the stochastic API
    (whose generator and members are compared with gen_of / eval of coq/Model/Rng.v), create/remove, and
    legacy move_to_empty / DiscreteSpace.select_random_empty_cell with the set of empties iterated in a *permuted*
    order (the outcome index is recorded and handed to the model).
  * implementation-against-implementation ("env" cases, "model": False): the nine bundled examples and random
    API scripts, each run in fresh subprocesses under different PYTHONHASHSEED values, fresh and after prior
    in-process histories, through batch_run with 1 and 2 spawn workers, for seed=int and rng=int|SeedSequence|
    Generator|list; per-step digests must agree; the process-global generators must stay bit-identical;
    reset_randomizer / reset_rng with the starting seed replay the stream; every space/collection reachable from a
    model carries model.random.
This file is also the subprocess worker:  python C01.py --worker  < jobs.json  > results.json
"""
import hashlib
import json
import os
import subprocess
import sys

HERE = os.path.dirname(os.path.abspath(__file__))
try:
    import coqlit as L
except ImportError:  # inside a worker subprocess the printers are not needed
    L = None

ID = "C01"
COQ_PROPERTY_FILE = "Properties/C01.v"
COQ_DEPS = ["Common/ListX.v", "Common/ObsHash.v", "Generated/Tables.v", "Model/Rng.v", "Model/Seed.v", "Proofs/RngProofs.v",
            "Proofs/RngBridge.v"]
COQ_IMPORTS = "From Mesa Require Import Model.Rng."
COQ_CASE_TYPE = "case"
COQ_RUN = "run_case"
TABLE_CONSTRUCTS = ["mte_choice_sorted", "global_rng_sites", "unordered_iteration_sites", "rng_sites", "model_init_code", "model_init_skeleton",
                    "reset_randomizer_code", "reset_rng_code", "agent_generator_props"]
ENUM_ALWAYS = False
REPO = os.environ.get("VERIF_REPO", "/repo")

EXAMPLES = {
    # name -> (module, class, small kwargs)
    "BoidFlockers": ("mesa.examples.basic.boid_flockers.model", "BoidFlockers", {"population_size": 12, "width": 30, "height": 30, "vision": 8}),
    "BoltzmannWealth": ("mesa.examples.basic.boltzmann_wealth_model.model", "BoltzmannWealth", {"n": 15, "width": 5, "height": 5}),
    "ConwaysGameOfLife": ("mesa.examples.basic.conways_game_of_life.model", "ConwaysGameOfLife", {"width": 8, "height": 8}),
    "Schelling": ("mesa.examples.basic.schelling.model", "Schelling", {"width": 8, "height": 8, "density": 0.7}),
    "VirusOnNetwork": ("mesa.examples.basic.virus_on_network.model", "VirusOnNetwork", {"num_nodes": 12, "avg_node_degree": 3, "initial_outbreak_size": 2}),
    "EpsteinCivilViolence": ("mesa.examples.advanced.epstein_civil_violence.model", "EpsteinCivilViolence", {"width": 10, "height": 10, "citizen_vision": 3, "cop_vision": 3, "max_jail_term": 5}),
    "PdGrid": ("mesa.examples.advanced.pd_grid.model", "PdGrid", {"width": 8, "height": 8}),
    "SugarscapeG1mt": ("mesa.examples.advanced.sugarscape_g1mt.model", "SugarscapeG1mt", {"initial_population": 30}),
    "WolfSheep": ("mesa.examples.advanced.wolf_sheep.model", "WolfSheep", {"width": 8, "height": 8, "initial_sheep": 20, "initial_wolves": 8}),
}


# hand-written NON-default constructor arguments of every example (incl. the dict-valued `payoffs` and the activation
# regimes of PdGrid, switched-off behaviours, other sizes): instances built with these run in the same process BEFORE the
# measured default run - whatever a model leaves behind at class / module level would change the later run.
# A dict with tuple keys is written {"__tuplekeys__": [[[k1, k2], v], ...]} (JSON).
ALT_KWARGS = {
    "BoidFlockers": [{"population_size": 7, "width": 20, "height": 15, "speed": 2, "vision": 5, "separation": 1, "cohere": 0.1,
                      "separate": 0.05, "match": 0.2}],
    "BoltzmannWealth": [{"n": 9, "width": 4, "height": 3}],
    "ConwaysGameOfLife": [{"width": 5, "height": 6, "initial_fraction_alive": 0.6}],
    "Schelling": [{"width": 6, "height": 5, "density": 0.5, "minority_pc": 0.3, "homophily": 0.7, "radius": 2}],
    "VirusOnNetwork": [{"num_nodes": 8, "avg_node_degree": 2, "initial_outbreak_size": 3, "virus_spread_chance": 0.9,
                        "virus_check_frequency": 0.1, "recovery_chance": 0.8, "gain_resistance_chance": 0.9}],
    "EpsteinCivilViolence": [{"width": 8, "height": 7, "citizen_density": 0.5, "cop_density": 0.15, "citizen_vision": 2,
                              "cop_vision": 4, "legitimacy": 0.3, "max_jail_term": 3, "active_threshold": 0.05,
                              "arrest_prob_constant": 1.1, "movement": False, "max_iters": 50}],
    "PdGrid": [{"width": 6, "height": 5, "activation_order": "Sequential",
                "payoffs": {"__tuplekeys__": [[["C", "C"], 2.0], [["C", "D"], 0.0], [["D", "C"], 0.5], [["D", "D"], 0.1]]}},
               {"width": 5, "height": 5, "activation_order": "Simultaneous",
                "payoffs": {"__tuplekeys__": [[["C", "C"], 0.2], [["C", "D"], 3], [["D", "C"], 0], [["D", "D"], 1]]}}],
    "SugarscapeG1mt": [{"initial_population": 15, "endowment_min": 10, "endowment_max": 20, "metabolism_min": 2,
                        "metabolism_max": 3, "vision_min": 2, "vision_max": 3, "enable_trade": False}],
    "WolfSheep": [{"width": 6, "height": 5, "initial_sheep": 10, "initial_wolves": 5, "sheep_reproduce": 0.2, "wolf_reproduce": 0.1,
                   "wolf_gain_from_food": 8, "grass": True, "grass_regrowth_time": 4, "sheep_gain_from_food": 2}],
}


def _decode_kwargs(kw):
    out = {}
    for k, v in kw.items():
        if isinstance(v, dict) and "__tuplekeys__" in v:
            v = {tuple(a): b for a, b in v["__tuplekeys__"]}
        out[k] = v
    return out


# =====================================================================================================
#  worker side (runs inside a fresh interpreter; imports mesa lazily)
# =====================================================================================================
def _sha(x):
    return hashlib.sha1(json.dumps(x, sort_keys=False, default=str).encode()).hexdigest()


def _canon(v, depth=0):
    """canonical, hash-seed independent, address free description of a value"""
    import enum
    import random as _r

    import numpy as np

    import mesa
    from mesa.agent import AgentSet
    from mesa.discrete_space import Cell, CellCollection

    if v is None or isinstance(v, (bool, str)):
        return v
    if isinstance(v, int):
        return v
    if isinstance(v, float):
        return ["f", repr(v)]
    if isinstance(v, enum.Enum):
        return ["enum", repr(v)]
    if isinstance(v, np.generic):
        return ["np", repr(v.item())]
    if isinstance(v, np.ndarray):
        return ["arr", v.dtype.str, list(v.shape), hashlib.sha1(np.ascontiguousarray(v).tobytes()).hexdigest() if v.dtype != object else "obj"]
    if depth > 6:
        return ["deep", type(v).__name__]
    if isinstance(v, mesa.Agent):
        return ["agent", type(v).__name__, v.unique_id]
    if isinstance(v, Cell):
        return ["cell", _canon(v.coordinate, depth + 1)]
    if isinstance(v, mesa.Model):
        return "model"
    if isinstance(v, _r.Random):
        return ["Random", _sha(v.getstate())]
    if isinstance(v, np.random.Generator):
        return ["Generator", _sha(_canon(v.bit_generator.state, depth + 1))]
    if isinstance(v, AgentSet):
        return ["agentset", [a.unique_id for a in v]]
    if isinstance(v, CellCollection):
        return ["cells", [_canon(c.coordinate, depth + 1) for c in v]]
    if isinstance(v, (list, tuple)):
        return [_canon(x, depth + 1) for x in v]
    if isinstance(v, dict):
        items = [[json.dumps(_canon(k, depth + 1), default=str), _canon(x, depth + 1)] for k, x in v.items()]
        return ["dict", sorted(items, key=lambda kv: kv[0])]
    if isinstance(v, (set, frozenset)):
        return ["set", sorted(json.dumps(_canon(x, depth + 1), default=str) for x in v)]
    return ["obj", type(v).__name__]


def snapshot(model):
    """everything the statement names: agents in AgentSet order with id, class, all public attributes, pos / cell /
    position; activation-relevant generator states; model counters and public attributes; DataCollector frames"""
    agents = []
    for a in model.agents:
        d = {"class": type(a).__name__, "id": a.unique_id}
        for k, v in vars(a).items():
            if not k.startswith("_") and k != "model":
                d[k] = _canon(v)
        for name in ("pos", "cell", "position"):
            try:
                if hasattr(a, name):
                    d[name] = _canon(getattr(a, name))
            except Exception as e:  # noqa: BLE001
                d[name] = ["raises", type(e).__name__]
        agents.append(d)
    m = {}
    for k, v in vars(model).items():
        if k.startswith("_") or k in ("random", "rng", "step", "datacollector", "simulator"):
            continue
        m[k] = _canon(v)
    by_type = {t.__name__: [a.unique_id for a in s] for t, s in model.agents_by_type.items()}
    # data kept at CLASS level by the model / agent classes (what one instance can leave behind for the next)
    import mesa as _mesa

    class_data = {}
    for cls in [type(model)] + list(model.agents_by_type):
        for c in cls.__mro__:
            if c.__module__.startswith("mesa.") and not c.__module__.startswith("mesa.examples"):
                continue
            if c is object or c.__module__ in ("builtins", "typing", "abc", "collections.abc"):
                continue
            for k, v in vars(c).items():
                if k.startswith("_") or callable(v) or isinstance(v, (property, classmethod, staticmethod)) or hasattr(v, "__get__"):
                    continue
                class_data[f"{c.__name__}.{k}"] = _canon(v)
    spaces = {}
    try:
        from mesa.discrete_space import DiscreteSpace
        from mesa.space import NetworkGrid, _Grid

        for k, v in vars(model).items():
            if isinstance(v, DiscreteSpace):
                spaces[k] = [[_canon(c.coordinate), [_canon(n.coordinate) for n in c.connections.values()],
                              [a.unique_id for a in c._agents]] for c in v._cells.values()]
                layers = getattr(v, "_mesa_property_layers", None)
                if layers:    # property layers of a cell space (e.g. Sugarscape's sugar / spice, the `empty` layer)
                    spaces[k + ".property_layers"] = {n: _canon(getattr(lay, "data", None)) for n, lay in layers.items()}
            elif isinstance(v, _Grid):
                spaces[k] = [[x, y, _canon(v._grid[x][y])] for x in range(v.width) for y in range(v.height) if v._grid[x][y]]
                if getattr(v, "properties", None):
                    spaces[k + ".property_layers"] = {n: _canon(getattr(lay, "data", None)) for n, lay in v.properties.items()}
            elif isinstance(v, NetworkGrid):
                spaces[k] = [sorted(map(repr, v.G.edges)), [[repr(n), _canon(v.G.nodes[n].get("agent"))] for n in v.G.nodes]]
    except Exception as e:  # noqa: BLE001
        spaces["error"] = type(e).__name__
    snap = {"steps": model.steps, "agents": agents, "by_type": by_type, "model": m, "spaces": spaces, "class_data": class_data,
            "agent_types": [t.__name__ for t in model.agent_types],
            "random": _sha(model.random.getstate()), "rng": _sha(_canon(model.rng.bit_generator.state))}
    dc = getattr(model, "datacollector", None)
    if dc is not None:
        snap["dc_model_vars"] = _canon(dc.model_vars)
        snap["dc_agent_records"] = _canon(getattr(dc, "_agent_records", {}))
        snap["dc_tables"] = _canon(getattr(dc, "tables", {}))
        # agent-type reporters: {step: {type: [records]}} - the class objects are named
        atr = getattr(dc, "_agenttype_records", {})
        snap["dc_agenttype_records"] = _canon({st: {getattr(t, "__name__", str(t)): recs for t, recs in per.items()}
                                               for st, per in atr.items()})
        # the frames themselves where they can be built (what the user reads)
        frames = {}
        for name in ("get_model_vars_dataframe", "get_agent_vars_dataframe"):
            try:
                df = getattr(dc, name)()
                frames[name] = [[str(c) for c in df.columns], [str(i) for i in df.index[:400]], _canon(df.to_numpy().tolist()[:400])]
            except Exception as e:  # noqa: BLE001  no reporters of that kind / nothing collected yet
                frames[name] = ["unavailable", type(e).__name__]
        snap["dc_frames"] = frames
    return snap


def _digest(snap):
    # class-level data is diagnosis only (a class-level cache that never reaches the trajectory is not a violation)
    snap = {k: v for k, v in snap.items() if k != "class_data"}
    return int(hashlib.sha1(json.dumps(snap, sort_keys=True, default=str).encode()).hexdigest()[:15], 16)


def _global_state():
    import random

    import numpy as np

    st = np.random.get_state()
    return _sha(random.getstate()), hashlib.sha1(st[1].tobytes()).hexdigest() + f":{st[2]}:{st[3]}:{st[4]!r}"


def _walk_generators(model):
    """every space and collection reachable from the model must carry model.random (statement, 2nd sentence).
    Returns a list of (path, ok)."""
    from mesa.agent import AgentSet
    from mesa.discrete_space import CellCollection, DiscreteSpace
    from mesa.experimental.continuous_space import ContinuousSpace as XCS

    out = []
    rnd = model.random

    def chk(path, obj):
        out.append((path, getattr(obj, "random", None) is rnd))

    chk("model.agents", model.agents)
    for a in list(model.agents)[:3] + list(model.agents)[-1:]:
        out.append((f"{type(a).__name__}.random", a.random is rnd))
        out.append((f"{type(a).__name__}.rng", a.rng is model.rng))
    for t, s in model.agents_by_type.items():
        chk(f"model.agents_by_type[{t.__name__}]", s)
    for name, v in vars(model).items():
        if isinstance(v, DiscreteSpace):
            chk(f"model.{name}", v)
            chk(f"model.{name}.all_cells", v.all_cells)
            chk(f"model.{name}.empties", v.empties)
            cells = list(v.all_cells)
            for c in cells[:3] + cells[-1:]:
                chk(f"model.{name}[cell]", c)
                chk(f"model.{name}[cell].neighborhood", c.neighborhood)
            if any(not c.is_empty for c in cells):
                chk(f"model.{name}.agents", v.agents)
        elif isinstance(v, XCS):
            chk(f"model.{name}", v)
            chk(f"model.{name}.agents", v.agents)
        elif isinstance(v, (AgentSet, CellCollection)):
            chk(f"model.{name}", v)
    return out


def _make_example(name, kwargs, seed):
    import importlib

    mod, cls, _ = EXAMPLES[name]
    klass = getattr(importlib.import_module(mod), cls)
    if name == "WolfSheep":
        from mesa.experimental.devs import ABMSimulator

        sim = ABMSimulator()
        model = klass(seed=seed, simulator=sim, **_decode_kwargs(kwargs))
        return model, (lambda: sim.run_for(1))
    model = klass(seed=seed, **_decode_kwargs(kwargs))
    return model, model.step


def run_example_job(job, detail_step=None):
    """-> {"digests": [d0 (after __init__), d1, ...], "global_changed_at": None|step, "gens": [...bad paths]}"""
    import warnings

    g0 = _global_state()
    changed = None
    with warnings.catch_warnings():
        warnings.simplefilter("ignore")
        model, stepper = _make_example(job["model"], job.get("kwargs", {}), job["seed"])
        digests = []
        snaps = None
        s = snapshot(model)
        digests.append(_digest(s))
        if detail_step == 0:
            snaps = s
        if _global_state() != g0:
            changed = 0
        for i in range(job["steps"]):
            stepper()
            s = snapshot(model)
            digests.append(_digest(s))
            if detail_step == i + 1:
                snaps = s
            if changed is None and _global_state() != g0:
                changed = i + 1
        bad = [p for p, ok in _walk_generators(model) if not ok]
    return {"digests": digests, "global_changed_at": changed, "gens": sorted(set(bad)), "detail": snaps}


# ---------------------------------------------------------------------------- API scripts
def _seed_kwargs(form, s):
    import numpy as np

    if form == "seed":
        return {"seed": s}
    if form == "rng-int":
        return {"rng": s}
    if form == "rng-seq":
        return {"rng": np.random.SeedSequence(s)}
    if form == "rng-gen":
        return {"rng": np.random.default_rng(s)}
    if form == "rng-list":
        return {"rng": [s, s + 1]}
    # wider value domains of what Model accepts as seed / rng
    if form == "seed-float":
        return {"seed": s + 0.5}           # random.Random takes it, numpy's default_rng does not (TypeError fall-back)
    if form == "seed-str":
        return {"seed": f"mesa-{s}"}       # str seeds are hashed with sha512, not with the process hash seed
    if form == "seed-big":
        return {"seed": s + 2**70}
    if form == "seed-bool":
        return {"seed": bool(s % 2)}
    if form == "rng-npint":
        return {"rng": np.int64(s)}        # random.Random refuses a numpy scalar (TypeError fall-back)
    if form == "rng-big":
        return {"rng": s + 2**70}
    if form == "rng-array":
        return {"rng": np.array([s, s + 1])}   # array of ints (random.Random refuses it: fall-back)
    raise ValueError(form)


# MODULE-LEVEL reporter functions: the very same function objects serve every script model of a process (the prior in-process
# history and the measured model), and they DRAW from the model's generators - whatever a library keeps per function at module
# level (validation caches, memoisation) would shift the random stream of a later model
def _rep_sample(m):
    return len(m.agents.shuffle().select(at_most=5))


def _rep_rng(m):
    return int(m.rng.integers(1000))


def _rep_scaled(m, k):
    return m.random.randrange(k)


def _arep_draw(a):
    return a.random.randrange(100)


def _arep_rng(a):
    return int(a.rng.integers(50))


def make_shared(spec):
    """the externally built MUTABLE objects a script model is given: a networkx graph (discrete_space.Network / legacy
    NetworkGrid), PropertyLayer objects (legacy grids), a list handed to create_agents, a parameter dict.  The scripts only
    READ them, so whatever a later model sees differently was left behind by Mesa, not by the script."""
    import warnings

    import networkx as nx

    w, h = spec["w"], spec["h"]
    g = nx.convert_node_labels_to_integers(nx.grid_2d_graph(w, h))
    layers = []
    if spec["space"] in ("single", "multi"):
        import numpy as np

        from mesa.space import PropertyLayer

        with warnings.catch_warnings():
            warnings.simplefilter("ignore")
            lay = PropertyLayer("elev", w, h, 0, dtype=int)
        lay.data[:] = np.arange(w * h).reshape(w, h) % 3
        layers = [lay]
    return {"graph": g, "layers": layers, "energies": [3, 1, 4, 1, 5, 9, 2, 6], "params": {"bonus": 1, "weights": [1, 2, 3]}}


def build_script_model(spec, shared=None):
    """A model made only of Mesa's stochastic API; spec is JSON.  Returns (model, do_op)."""
    import networkx as nx

    import mesa
    from mesa.discrete_space import CellAgent, HexGrid, Network, OrthogonalMooreGrid, OrthogonalVonNeumannGrid
    from mesa.experimental.continuous_space import ContinuousSpace as XCS
    from mesa.experimental.continuous_space import ContinuousSpaceAgent
    from mesa.space import MultiGrid, NetworkGrid, SingleGrid

    kind = spec["space"]
    w, h, torus = spec["w"], spec["h"], spec["torus"]
    cellspace = kind in ("moore", "vonneumann", "hex", "network")
    legacy = kind in ("single", "multi")
    if shared is None:
        shared = make_shared(spec)

    def behave(a):
        """one activation: draws from the agent's generators only"""
        a.energy += a.random.randrange(5) - 2 + shared["params"]["bonus"] * (shared["params"]["weights"][a.unique_id % 3] % 2)
        if a.random.random() < 0.5:
            a.mark = int(a.rng.integers(1000))
        m = a.model
        if kind == "netgrid":
            g = m.grid
            if a.pos is not None:
                if a.random.random() < 0.7:
                    g.move_agent(a, a.random.choice(g.get_neighborhood(a.pos)))
                others = [b for b in g.get_neighbors(a.pos, include_center=True) if b is not a]
                if others:
                    a.friend = a.random.choice(others).unique_id
            return
        if cellspace and a.cell is None:
            return    # the space was full when this agent was created
        if cellspace:
            if a.random.random() < 0.7:
                nb = a.cell.neighborhood
                if len(nb):
                    if a.random.random() < 0.5 or m.capacity is not None:
                        free = nb.select(lambda c: not c.is_full)
                        if len(free):
                            a.cell = free.select_random_cell()
                    else:
                        a.cell = nb.select_random_cell()
            if a.random.random() < 0.3:
                nb2 = a.cell.get_neighborhood(radius=2, include_center=True)
                if any(True for _ in nb2.agents):
                    a.friend = nb2.select_random_agent().unique_id
        elif legacy:
            g = m.grid
            if a.pos is not None:
                r = a.random.random()
                if r < 0.3 and g.exists_empty_cells():
                    g.move_to_empty(a)
                elif r < 0.7:
                    nbh = g.get_neighborhood(a.pos, moore=True, include_center=False, radius=1)
                    if kind == "single":
                        nbh = [p for p in nbh if g.is_cell_empty(p)]
                    g.move_agent_to_one_of(a, list(nbh), selection="closest" if a.random.random() < 0.4 else "random")
                else:
                    nbs = g.get_neighbors(a.pos, moore=True, include_center=False, radius=1)
                    if nbs:
                        a.friend = a.random.choice(nbs).unique_id
                if a.pos is not None and "elev" in getattr(g, "properties", {}):
                    a.mark += int(g.properties["elev"].data[a.pos])     # read only
        elif kind == "cont":
            import numpy as np

            a.position = a.position + np.array([a.random.randrange(-2, 3), a.random.randrange(-2, 3)]) * 0.5
            nbs, _ = a.get_neighbors_in_radius(3.0)
            if nbs:
                a.friend = a.random.choice(sorted(nbs, key=lambda x: x.unique_id)).unique_id

    base = CellAgent if cellspace else (ContinuousSpaceAgent if kind == "cont" else mesa.Agent)

    class KA(base):
        def __init__(self, model, energy=0, group=0, **kw):
            if kind == "cont":
                super().__init__(model.space, model)
            else:
                super().__init__(model)
            self.energy = energy
            self.group = group
            self.mark = 0
            self.friend = 0

        def act(self):
            behave(self)

        def __bool__(self):          # some agents are "false" objects: nothing in Mesa may test `if agent:`
            return self.unique_id % 3 != 0

    class KB(KA):
        pass

    class KC(KB):                     # a subclass of a subclass, sized and empty
        def __len__(self):
            return 0

        def __bool__(self):
            return False

    class Mixin:
        tag = 7

        def act(self):                # shadowed by KA.act: the mixin stands AFTER the framework base in the MRO
            raise AssertionError("mixin method must not win")

    class KM(KA, Mixin):
        pass

    class ScriptModel(mesa.Model):
        def __init__(self, **kw):
            super().__init__(**kw)
            self.capacity = spec.get("capacity")
            self.log = []
            r = self.random
            if kind == "moore":
                self.grid = OrthogonalMooreGrid((w, h), torus=torus, capacity=self.capacity, random=r)
            elif kind == "vonneumann":
                self.grid = OrthogonalVonNeumannGrid((w, h), torus=torus, capacity=self.capacity, random=r)
            elif kind == "hex":
                self.grid = HexGrid((w, h), torus=False, capacity=self.capacity, random=r)
            elif kind == "network":
                self.grid = Network(shared["graph"], capacity=self.capacity, random=r)     # the graph is built outside
            elif kind == "netgrid":
                self.grid = NetworkGrid(shared["graph"])
            elif kind == "single":
                self.grid = SingleGrid(w, h, torus, property_layers=shared["layers"] or None)
            elif kind == "multi":
                self.grid = MultiGrid(w, h, torus, property_layers=shared["layers"] or None)
            elif kind == "cont":
                self.space = XCS([[0, w], [0, h]], torus=True, random=r, n_agents=max(2, spec["n"]))
            self.populate(spec["n"])
            if spec.get("dc"):
                import functools

                # all four model-reporter forms (function, method, attribute name, [function, args]) + functools.partial; agent
                # reporters as attribute name and as functions - functions are module level and draw from the generators
                self.total = 0
                self.datacollector = mesa.DataCollector(
                    model_reporters={"sample": _rep_sample, "np": _rep_rng, "method": self.count_marked, "attr": "total",
                                     "listform": [_rep_scaled, [self, 7]], "partial": functools.partial(_rep_scaled, k=11)},
                    agent_reporters={"energy": "energy", "draw": _arep_draw, "npdraw": _arep_rng} if spec["dc"] > 1 else {"energy": "energy"})
                self.datacollector.collect(self)

        def count_marked(self):
            self.total += 1
            return sum(1 for a in self.agents if a.mark) + self.random.randrange(3)

        def place(self, a):
            if cellspace:
                if self.capacity is not None:
                    if len(self.grid.empties):
                        self.grid._try_random = self.random.random() < 0.5 if hasattr(self.grid, "_try_random") else None
                        a.cell = self.grid.select_random_empty_cell()
                else:
                    a.cell = self.grid.all_cells.select_random_cell()
            elif kind == "single":
                if self.grid.exists_empty_cells():
                    self.grid.move_to_empty(a) if a.pos is not None else self.grid.place_agent(
                        a, self.random.choice(sorted(self.grid.empties)))
            elif kind == "multi":
                self.grid.place_agent(a, (self.random.randrange(w), self.random.randrange(h)))
            elif kind == "netgrid":
                self.grid.place_agent(a, self.random.choice(list(shared["graph"].nodes)))
            elif kind == "cont":
                a.position = [self.random.randrange(w * 2) / 2, self.random.randrange(h * 2) / 2]

        def populate(self, n):
            na = n // 2
            if na:
                if self.random.random() < 0.5:    # arguments drawn from the model's NumPy generator (ndarray path of create_agents)
                    s = KA.create_agents(self, na, self.rng.integers(0, 10, size=na), group=self.rng.integers(0, 3, size=na))
                else:
                    s = KA.create_agents(self, na, [self.random.randrange(10) for _ in range(na)], group=[i % 3 for i in range(na)])
                for a in s:
                    self.place(a)
            if n - na:
                k2 = n - na
                s = KB.create_agents(self, k2, shared["energies"][:k2] if k2 <= len(shared["energies"]) else 5,
                                     group=self.random.randrange(3))    # a list built outside the model
                for a in s.shuffle():
                    self.place(a)
            if n >= 3 and kind != "cont":
                for cls_ in (KC, KM):
                    for a in cls_.create_agents(self, 1, self.random.randrange(10), group=1):
                        self.place(a)

        def step(self):
            self.agents.shuffle_do("act")

    model = ScriptModel(**_seed_kwargs(spec["form"], spec["seed"]))

    def do_op(op):
        k = op[0]
        if k == "step":
            model.step()
            if spec.get("dc"):
                model.datacollector.collect(model)
        elif k == "collect":
            if spec.get("dc"):
                model.datacollector.collect(model)
                model.datacollector.collect(model)      # a second collect at the same logical time
        elif k == "shuffle_do":
            model.agents.shuffle_do("act")
        elif k == "shuffle_inplace":
            model.agents.shuffle(inplace=True)
        elif k == "shuffle_copy_do":
            model.agents.shuffle().do("act")
        elif k == "select_frac":
            model.agents.shuffle().select(at_most=0.5).do("act")
        elif k == "select_filter":
            model.agents.select(lambda a: a.energy >= 0).shuffle_do("act")
        elif k == "by_type":
            for t in list(model.agents_by_type):
                model.agents_by_type[t].shuffle_do("act")
        elif k == "groupby":
            model.agents.groupby("group").do("shuffle_do", "act")
        elif k == "sort_do":
            model.agents.sort("energy").select(at_most=3).shuffle_do("act")
        elif k == "populate":
            model.populate(op[1])
        elif k == "abandon_iter":
            # iterators / generators started and dropped half-way, then the same collections are used again
            its = [iter(model.agents), iter(model.agents.shuffle()), (a for a in model.agents if a.energy > 0)]
            if cellspace:
                its += [iter(model.grid.all_cells), model.grid.all_cells.agents, iter(model.grid.empties)]
            for it in its:
                next(it, None)
            model.agents.shuffle_do("act")
            model.agents.shuffle_do("act")      # a second activation at the same logical time
        elif k == "bad_move":
            # a rejected call, then the run continues: move into a full cell / onto an occupied position
            try:
                if cellspace and model.capacity is not None:
                    full = [c for c in model.grid.all_cells if c.is_full]
                    movers = [a for a in model.agents if a.cell is not None and (not full or a.cell is not full[0])]
                    if full and movers:
                        model.random.choice(movers).cell = full[0]
                elif kind == "single":
                    placed = [a for a in model.agents if a.pos is not None]
                    if len(placed) >= 2:
                        model.grid.move_agent(placed[0], placed[1].pos)
                else:
                    model.agents.select(at_most=-1).shuffle_do("act")
                    model.random.choice([])
            except Exception as e:  # noqa: BLE001
                model.log.append(["rejected", type(e).__name__])
            model.agents.shuffle_do("act")
        elif k == "nbhd_walk":
            # SCALE: every agent walks to a random cell of a LARGE neighbourhood (radius op[1]) and picks a random agent in it
            r = op[1]
            if cellspace:
                for j, a in enumerate(model.agents.shuffle()):
                    if a.cell is None:
                        continue
                    nb = a.cell.get_neighborhood(radius=r, include_center=False)
                    if len(nb):
                        if j % 3 == 0 and any(True for _ in nb.agents):
                            a.friend = nb.select_random_agent().unique_id
                        if model.capacity is None:
                            a.cell = nb.select_random_cell()
                        else:
                            a.mark = sum(int(x) for x in (nb.select_random_cell().coordinate if isinstance(nb.cells[0].coordinate, tuple) else [nb.select_random_cell().coordinate]))
        elif k == "relocate":
            # every agent, in random order, moves to a random empty cell (nearly full grids: many draws, both strategies)
            for a in model.agents.shuffle():
                if cellspace and model.capacity == 1:
                    if hasattr(model.grid, "_try_random"):
                        model.grid._try_random = bool(op[1])
                    if len(model.grid.empties):
                        a.cell = model.grid.select_random_empty_cell()
                elif kind == "single":
                    if a.pos is not None and model.grid.exists_empty_cells():
                        model.grid.move_to_empty(a)
        elif k == "remove":
            if len(model.agents):
                a = model.random.choice(list(model.agents))
                if cellspace or kind == "cont":
                    a.remove()
                else:
                    if a.pos is not None:
                        model.grid.remove_agent(a)
                    a.remove()
        elif k == "space_agents":
            sp = getattr(model, "grid", None) or getattr(model, "space", None)
            if sp is not None and (kind != "cont" or len(sp.active_agents)):
                import warnings as _w

                with _w.catch_warnings():
                    _w.simplefilter("ignore")  # an EMPTY legacy space's .agents is the documented unseeded fall-back
                    ags = sp.agents
                if len(ags):
                    ags.shuffle_do("act")
        elif k == "rand_cell" and cellspace:
            c = model.grid.all_cells.select_random_cell()
            model.log.append(["rand_cell", list(c.coordinate) if isinstance(c.coordinate, tuple) else c.coordinate])
        elif k == "rand_agent" and cellspace:
            if any(True for _ in model.grid.all_cells.agents):
                model.log.append(["rand_agent", model.grid.all_cells.select_random_agent().unique_id])
        elif k == "rand_empty" and cellspace:
            if len(model.grid.empties):
                if hasattr(model.grid, "_try_random"):
                    model.grid._try_random = bool(op[1])
                c = model.grid.select_random_empty_cell()
                model.log.append(["rand_empty", list(c.coordinate) if isinstance(c.coordinate, tuple) else c.coordinate])
        elif k == "np_draw":
            model.log.append(["np", int(model.rng.integers(10**6)), repr(float(model.rng.random()))])
        elif k == "reset_replay":
            pass  # handled by the reset job
        else:
            model.log.append(["skip", k])

    return model, do_op


def _unseeded_warned(wl):
    """a UserWarning was issued (classified by category, never by message text; FutureWarning etc. are other categories)"""
    return any(w.category is UserWarning for w in wl)


def run_script_job(job, detail_step=None, share=False):
    """share=True: the measured model is built from the VERY SAME externally built objects (graph, layers, lists, parameter
    dict) that a prior model of the same kind (other seed) was given and ran on, in this process"""
    import warnings

    spec = job["spec"]
    shared = make_shared(spec)
    prior_keepalive = None
    if share:
        with warnings.catch_warnings():
            warnings.simplefilter("ignore")
            try:
                pm, pdo = build_script_model(dict(spec, seed=spec["seed"] + 1), shared)
                for op in spec["ops"]:
                    pdo(op)
                prior_keepalive = pm
            except Exception:  # noqa: BLE001  a prior history that fails is still a prior history
                pass
    g0 = _global_state()
    changed = None
    warned = []
    with warnings.catch_warnings(record=True) as wl:
        warnings.simplefilter("always")
        model, do_op = build_script_model(spec, shared)
        digests = []
        snaps = None
        s = snapshot(model)
        digests.append(_digest(s))
        if detail_step == 0:
            snaps = s
        if _global_state() != g0:
            changed = 0
        for i, op in enumerate(spec["ops"]):
            do_op(op)
            s = snapshot(model)
            digests.append(_digest(s))
            if detail_step == i + 1:
                snaps = s
            if changed is None and _global_state() != g0:
                changed = i + 1
        bad = [p for p, ok in _walk_generators(model) if not ok]
        warned = sorted({f"{os.path.basename(w.filename)}:{w.lineno}" for w in wl if w.category is UserWarning})
    return {"digests": digests, "global_changed_at": changed, "gens": sorted(set(bad)), "detail": snaps, "unseeded_warnings": warned}


def _reset_through_collections(form, s):
    """re-seeding must replay the run THROUGH every collection Mesa derived for the model, before or after the reset:
    a fixed sequence of stochastic decisions (none of which changes the model) is drawn, the generators are reset (no
    argument / the seed they started from), and the same sequence has to come out, from collections that still carry
    model.random."""
    import copy
    import warnings

    import mesa
    from mesa.discrete_space import CellAgent, OrthogonalMooreGrid

    class RW(CellAgent):
        def __init__(self, model, cell):
            super().__init__(model)
            self.cell = cell

    class RV(RW):
        pass

    class World(mesa.Model):
        def __init__(self, **kw):
            super().__init__(**kw)
            self.grid = OrthogonalMooreGrid((4, 4), torus=True, random=self.random)
            cs = list(self.grid.all_cells)
            self.made = RW.create_agents(self, 5, [cs[i] for i in (0, 5, 5, 10, 15)])
            RV.create_agents(self, 3, [cs[i] for i in (1, 2, 7)])

    def held_of(m):
        cs = list(m.grid.all_cells)
        st = m.random.getstate()
        try:
            return _held_of(m, cs)
        finally:
            m.random.setstate(st)   # deriving the held collections must not count as draws of the run

    def _held_of(m, cs):
        return {"create_agents set": m.made, "agents.select": m.agents.select(lambda a: a.unique_id != 2), "copy(agents)": copy.copy(m.agents),
                "agents.shuffle()": m.agents.shuffle(), "groupby": m.agents.groupby(lambda a: a.unique_id % 2).groups[1],
                "grid.agents": m.grid.agents, "all_cells": m.grid.all_cells, "empties": m.grid.empties,
                "cell.neighborhood": cs[5].neighborhood, "cell.get_neighborhood(2)": cs[0].get_neighborhood(2, True),
                "all_cells.select": m.grid.all_cells.select(lambda c: c.coordinate[0] > 0)}

    def ids(x):
        return [a.unique_id for a in x]

    def draws(m, held, with_rng):
        out = []
        out.append(("model.agents.shuffle", ids(m.agents.shuffle())))
        order = []
        m.agents.shuffle_do(lambda a: order.append(a.unique_id))
        out.append(("model.agents.shuffle_do", order))
        out.append(("agents_by_type[RW].shuffle", ids(m.agents_by_type[RW].shuffle())))
        order = []
        m.agents_by_type[RV].shuffle_do(lambda a: order.append(a.unique_id))
        out.append(("agents_by_type[RV].shuffle_do", order))
        out.append(("agents.select(at_most=0.5 after shuffle)", ids(m.agents.shuffle().select(at_most=0.5))))
        for name, c in held.items():
            if hasattr(c, "shuffle"):
                out.append((f"{name} (derived before the reset) .shuffle", ids(c.shuffle())))
            else:
                out.append((f"{name} (derived before the reset) .select_random_cell", list(c.select_random_cell().coordinate)))
                if any(True for _ in c.agents):
                    out.append((f"{name} (derived before the reset) .select_random_agent", c.select_random_agent().unique_id))
        m.grid._try_random = True
        out.append(("grid.select_random_empty_cell (try random)", list(m.grid.select_random_empty_cell().coordinate)))
        m.grid._try_random = False
        out.append(("grid.select_random_empty_cell (list)", list(m.grid.select_random_empty_cell().coordinate)))
        out.append(("grid.all_cells.select_random_cell", list(m.grid.all_cells.select_random_cell().coordinate)))
        out.append(("grid.empties.select_random_cell", list(m.grid.empties.select_random_cell().coordinate)))
        out.append(("cell.neighborhood.select_random_agent", list(m.grid.all_cells)[6].neighborhood.select_random_agent().unique_id))
        out.append(("grid.agents.shuffle", ids(m.grid.agents.shuffle())))
        a = m.agents[3]
        out.append(("agent.random.random", repr(a.random.random())))
        if with_rng:
            out.append(("agent.rng.integers", [int(x) for x in a.rng.integers(0, 10**6, size=4)]))
            out.append(("rng draws by the agents of model.agents.shuffle()", [int(b.rng.integers(1000)) for b in m.agents.shuffle()]))
            out.append(("rng draws by grid.agents", [repr(float(b.rng.random())) for b in m.grid.agents]))
            made = RW.create_agents(m, 3, [list(m.grid.all_cells)[int(i)] for i in m.rng.integers(0, 16, size=3)])
            out.append(("create_agents with rng-derived cells", [list(b.cell.coordinate) for b in made]))
            for b in list(made):
                b.remove()
        return out

    def identity(m, held):
        st = m.random.getstate()
        try:
            return _identity(m, held)
        finally:
            m.random.setstate(st)

    def _identity(m, held):
        objs = dict(held)
        objs.update({"model.agents": m.agents, "agents_by_type[RW]": m.agents_by_type[RW], "agents_by_type[RV]": m.agents_by_type[RV],
                     "grid": m.grid, "grid[cell]": list(m.grid.all_cells)[3], "model.agents.shuffle() (derived now)": m.agents.shuffle(),
                     "grid.empties (derived now)": m.grid.empties})
        bad = [k for k, o in objs.items() if o.random is not m.random]
        if m.agents[0].random is not m.random:
            bad.append("agent.random")
        if m.agents[0].rng is not m.rng:
            bad.append("agent.rng")
        return sorted(bad)

    def first_diff(a, b):
        return next((f"{x[0]}: {x[1]} then {y[1]}" for x, y in zip(a, b) if x != y), None)

    with_rng = form in ("seed", "rng-int")
    out = {}
    with warnings.catch_warnings():
        warnings.simplefilter("ignore")
        m = World(**_seed_kwargs(form, s))
        held = held_of(m)
        out["identity_before"] = identity(m, held)
        d1 = draws(m, held, with_rng)
        m.reset_randomizer()
        if with_rng:
            m.reset_rng(s)
        out["identity_after_default"] = identity(m, held)
        d2 = draws(m, held, with_rng)
        out["diff_default"] = first_diff(d1, d2) if form not in STD_DRAW_AT_INIT else None
        m.reset_randomizer(m._seed)
        if with_rng:
            m.reset_rng(s)
        out["identity_after_explicit"] = identity(m, held)
        d3 = draws(m, held, with_rng)
        out["diff_explicit"] = first_diff(d1, d3) if form not in STD_DRAW_AT_INIT else None
        m2 = World(**_seed_kwargs(form, s))
        d4 = draws(m2, held_of(m2), with_rng)
        out["diff_fresh"] = first_diff(d1, d4)
        out["through"] = _sha(d1)
    return out


# seed forms numpy's default_rng refuses: Model.__init__ then draws model.rng's seed FROM model.random (one randint), so the
# stream a user sees after construction starts one draw later than the stream after reset_randomizer(seed)
STD_DRAW_AT_INIT = ("seed-float", "seed-str")


def run_reset_job(job):
    """reset_randomizer(seed0) / reset_rng(seed0) replay the first n draws; model built with each seed form"""
    import numpy as np

    import mesa

    form, s, n = job["form"], job["seed"], job["n"]
    out = {}
    m = mesa.Model(**_seed_kwargs(form, s))
    first = [m.random.random() for _ in range(n)] + [m.random.randrange(1000) for _ in range(n)]
    firstnp = [int(x) for x in m.rng.integers(0, 10**9, size=n)]
    # explicit forms (the statement): re-seed with the seed the generator started from
    seed0 = m._seed
    m.reset_randomizer(seed0)
    again = [m.random.random() for _ in range(n)] + [m.random.randrange(1000) for _ in range(n)]
    consumed = form in STD_DRAW_AT_INIT
    out["randomizer_explicit"] = (first == again) if (seed0 is not None and not consumed) else None
    m.reset_randomizer()
    again2 = [m.random.random() for _ in range(n)] + [m.random.randrange(1000) for _ in range(n)]
    out["randomizer_default"] = (first == again2) if not consumed else None
    out["seed0_is_none"] = seed0 is None
    if form in ("seed", "rng-int", "rng-list"):
        arg = s if form != "rng-list" else [s, s + 1]
        m.reset_rng(arg)
        againnp = [int(x) for x in m.rng.integers(0, 10**9, size=n)]
        out["rng_explicit"] = firstnp == againnp
    elif form == "rng-seq":
        m.reset_rng(np.random.SeedSequence(s))
        againnp = [int(x) for x in m.rng.integers(0, 10**9, size=n)]
        out["rng_explicit"] = firstnp == againnp
    else:
        out["rng_explicit"] = None
    # two models, same seed: same stream
    m2 = mesa.Model(**_seed_kwargs(form, s))
    f2 = [m2.random.random() for _ in range(n)] + [m2.random.randrange(1000) for _ in range(n)]
    out["same_seed_same_stream"] = f2 == first and [int(x) for x in m2.rng.integers(0, 10**9, size=n)] == firstnp
    out["stream"] = _sha([first, firstnp])
    out["coll"] = _reset_through_collections(form, s)
    # boundary: seed= and rng= both given is rejected with ValueError, and leaves the process-global generators alone
    g0 = _global_state()
    try:
        mesa.Model(seed=s, rng=s)
        out["both_given"] = "accepted"
    except ValueError:
        out["both_given"] = "ValueError"
    except Exception as e:  # noqa: BLE001
        out["both_given"] = type(e).__name__
    out["both_given_global_untouched"] = _global_state() == g0
    return out


def run_batch_job(job):
    """batch_run of an example with `procs` worker processes -> canonical multiset of rows (RunId kept: it is
    assigned before dispatch, so a row is identified by it)"""
    import importlib
    import warnings

    from mesa.batchrunner import batch_run

    mod, cls, kw = EXAMPLES[job["model"]]
    klass = getattr(importlib.import_module(mod), cls)
    params = dict(kw)
    params.update(job.get("kwargs", {}))
    params["seed"] = job["seeds"]
    with warnings.catch_warnings():
        warnings.simplefilter("ignore")
        rows = batch_run(klass, params, number_processes=job["procs"], iterations=job["iterations"],
                         max_steps=job["steps"], data_collection_period=1, display_progress=False)
    canon = sorted(json.dumps(_canon(r), sort_keys=True, default=str) for r in rows)
    # iterations with the same kwargs (same seed) must give the same rows apart from RunId / iteration
    per = {}
    for r in rows:
        key = (r["iteration"], json.dumps(_canon(r.get("seed"))))
        rr = {k: v for k, v in r.items() if k not in ("RunId", "iteration")}
        per.setdefault(key, []).append(json.dumps(_canon(rr), sort_keys=True, default=str))
    by_seed = {}
    for (it, sd), v in per.items():
        by_seed.setdefault(sd, {})[it] = _sha(sorted(v))
    iter_equal = all(len(set(d.values())) == 1 for d in by_seed.values())
    return {"rows": _sha(canon), "n": len(rows), "iterations_equal": iter_equal}


USERCODE_VARIANTS = ("ctor-raise", "step-raise", "churn-self", "user-hash-eq", "remove-other-in-activation")
# forced collector regimes (deterministic: none of them depends on the real allocation history of the process)
GC_REGIMES = ("default", "gc disabled throughout (one gc.collect() at the end)", "gc.collect() before every model step",
              "gc.collect() inside every agent step")


def run_usercode_job(job):
    """USER CODE in the loop (implementation + oracle only): models whose agents sit in reference cycles and whose
    constructors / steps raise and are caught, create and remove agents during activations, define value-based __eq__ / __hash__.
    The same seeded model is run under five garbage-collector regimes in this process; a seeded run must not depend on when the
    collector runs.  -> per-step digests of the first regime, and the first regime / step that differs from it."""
    import gc
    import warnings

    import mesa

    variant, seed, steps = job["variant"], job["seed"], job["steps"]

    class UA(mesa.Agent):
        def __init__(self, model, wealth=1):
            super().__init__(model)
            self.wealth = wealth
            self.strategy = self.cautious          # a bound method of itself: a reference cycle, as ordinary as it gets
            self.partner = None
            if variant == "ctor-raise" and wealth < 0:
                raise ValueError("negative wealth")  # validation at the END of the user's __init__

        def cautious(self, other):
            return 1 if self.wealth > other.wealth else 0

        def remove(self):                              # an override that extends the hook
            self.wealth = 0
            super().remove()

        if variant == "user-hash-eq":
            def __eq__(self, other):
                return isinstance(other, UA) and self.unique_id == other.unique_id

            def __hash__(self):
                return hash(("UA", self.unique_id))

        def step(self):
            m = self.model
            if m._collect_in_step:
                gc.collect()                          # user code may run the collector whenever it likes
            other = self.random.choice(m.agents)
            gift = self.strategy(other)
            self.wealth -= gift
            other.wealth += gift
            if variant in ("churn-self", "user-hash-eq", "step-raise"):
                other.partner = self                  # a partner that refers back: a two-object cycle
            m._log.append(self.unique_id)
            r = self.random.random()
            if variant == "step-raise" and r < 0.08:
                raise self.random.choice([StopIteration, KeyError, IndexError, AttributeError, TypeError, ValueError])("user code")
            if variant == "churn-self":
                if r < 0.10:
                    UA(m, self.random.randint(1, 9))  # creates an agent during the activation
                elif r < 0.18 and len(m.agents) > 4:
                    self.remove()                      # removes itself during the activation
            if variant == "remove-other-in-activation":
                if r < 0.10:
                    UA(m, 2)
                elif r < 0.22 and len(m.agents) > 4:
                    victims = [a for a in m.agents if a is not self]
                    self.random.choice(victims).remove()

    class UB(UA):
        """a docstring-only subclass"""

    class UM(mesa.Model):
        def __init__(self, seed=None):
            self._log = []
            super().__init__(seed=seed)
            self._collect_in_step = COLLECT[0]
            UA.create_agents(self, 6, [self.random.randint(1, 9) for _ in range(6)])
            if variant == "ctor-raise":
                for bad in ([4, 7, -3, 5, 2], [-1], [3, -2]):
                    try:
                        UA.create_agents(self, len(bad), bad)
                    except ValueError:
                        pass                          # bad input data: keep the agents we have
                try:
                    UA(self, -5)
                except ValueError:
                    pass
            UA.create_agents(self, 5, 3)

        # overridden public hooks that call super() (user subclasses as the library intends them)
        def register_agent(self, agent):
            super().register_agent(agent)
            self._log.append(-agent.unique_id)

        def deregister_agent(self, agent):
            self._log.append(-1000 - agent.unique_id)
            super().deregister_agent(agent)

        def step(self):
            try:
                k = self.steps % 4
                if k == 0:
                    self.agents.shuffle_do("step")
                elif k == 1:
                    self.agents.shuffle().do("step")
                elif k == 2:
                    self.agents.shuffle(inplace=True).map("step")
                else:
                    self.agents.groupby(lambda a: a.wealth % 2).do(lambda g: g.shuffle_do("step"))
            except (StopIteration, KeyError, IndexError, AttributeError, TypeError, ValueError) as e:
                self._log.append(type(e).__name__)     # the caller catches it and carries on

    COLLECT = [False]

    def one(regime):
        keep = None
        old = gc.get_threshold()
        COLLECT[0] = regime == 3
        try:
            if regime == 1:
                gc.disable()
            with warnings.catch_warnings():
                warnings.simplefilter("ignore")
                m = UM(seed=seed)
                out = []
                s0 = snapshot(m)
                s0["log"] = list(m._log)
                out.append(_digest(s0))
                for _ in range(steps):
                    if regime == 2:
                        gc.collect()
                    m.step()
                    sn = snapshot(m)
                    sn["log"] = list(m._log[-60:])
                    out.append(_digest(sn))
            return out, [a.unique_id for a in m.agents], len(m._log)
        finally:
            gc.enable()
            gc.set_threshold(*old)
            gc.collect()
            del keep

    g0 = _global_state()
    gc.collect()
    gc.freeze()          # everything that exists so far is left alone: the collections below only look at this job's objects (fast)
    try:
        # the reference is a FORCED regime (collector off), so the digests compared across interpreters do not depend on the
        # real allocation history; the default regime is one of the regimes compared with it
        ref, ids, nlog = one(1)
        diff = None
        for r in (3, 2, 0):
            d, ids2, nlog2 = one(r)
            if d != ref:
                st = next((k for k, (x, y) in enumerate(zip(d, ref)) if x != y), min(len(d), len(ref)))
                diff = [r, st, ids[:12], ids2[:12], nlog, nlog2]
                break
    finally:
        gc.unfreeze()
    return {"digests": ref, "gc_diff": diff, "global_changed": _global_state() != g0}


def run_batch_graph_job(job):
    """batch_run with number_processes=1 over a parameter that holds ONE graph object (every run of the sweep gets the very
    same object) against the same runs on pristine graphs: the collected model data must be equal run by run"""
    import warnings

    import networkx as nx

    import mesa
    from mesa.batchrunner import batch_run
    from mesa.discrete_space import CellAgent, Network
    from mesa.space import NetworkGrid

    legacy = job["grid"] == "NetworkGrid"

    def make_graph():
        g = nx.cycle_graph(8)
        g.add_edges_from([(0, 4), (2, 6)])
        return g

    class GA(mesa.Agent if legacy else CellAgent):
        def __init__(self, model):
            super().__init__(model)
            self.wealth = 1

        def step(self):
            g = self.model.grid
            if legacy:
                g.move_agent(self, self.random.choice(g.get_neighborhood(self.pos)))
                others = [a for a in g.get_neighbors(self.pos, include_center=True) if a is not self]
            else:
                self.cell = self.cell.neighborhood.select_random_cell()
                others = [a for a in self.cell.agents if a is not self]
            if others and self.wealth > 0:
                self.random.choice(others).wealth += 1
                self.wealth -= 1

    class GraphModel(mesa.Model):
        def __init__(self, graph=None, n=6, seed=None):
            super().__init__(seed=seed)
            if legacy:
                self.grid = NetworkGrid(graph)
                for a in GA.create_agents(self, n):
                    self.grid.place_agent(a, self.random.choice(list(graph.nodes)))
            else:
                self.grid = Network(graph, random=self.random)
                for a in GA.create_agents(self, n):
                    a.cell = self.grid.all_cells.select_random_cell()
            self.datacollector = mesa.DataCollector(
                {"sig": lambda m: sum((a.unique_id + 1) * (a.wealth + 3) * ((a.pos if legacy else a.cell.coordinate) + 5) for a in m.agents),
                 "n_in_space": lambda m: len(m.grid.agents)})
            self.datacollector.collect(self)

        def step(self):
            self.agents.shuffle_do("step")
            self.datacollector.collect(self)

    with warnings.catch_warnings():
        warnings.simplefilter("ignore")
        shared_graph = make_graph()
        rows = batch_run(GraphModel, {"graph": [shared_graph], "seed": job["seeds"]}, number_processes=1, iterations=job["iterations"],
                         max_steps=job["steps"], data_collection_period=1, display_progress=False)
        got = {}
        for r in rows:
            got.setdefault((r["iteration"], r["seed"]), []).append((r["Step"], r["sig"], r["n_in_space"]))
        want = {}
        for sd in job["seeds"]:
            rows1 = batch_run(GraphModel, {"graph": [make_graph()], "seed": [sd]}, number_processes=1, iterations=1,
                              max_steps=job["steps"], data_collection_period=1, display_progress=False)
            want[sd] = sorted((r["Step"], r["sig"], r["n_in_space"]) for r in rows1)
    bad = [[it, sd, sorted(v)[:3], want[sd][:3]] for (it, sd), v in sorted(got.items()) if sorted(v) != want[sd]]
    return {"n": len(rows), "bad": bad[:2], "rows": _sha(sorted((k, sorted(v)) for k, v in got.items()))}


def run_job(job, detail_step=None, share=False):
    k = job["kind"]
    if k == "example":
        return run_example_job(job, detail_step)
    if k == "script":
        return run_script_job(job, detail_step, share)
    if k == "batch_graph":
        return run_batch_graph_job(job)
    if k == "usercode":
        return run_usercode_job(job)
    if k == "reset":
        return run_reset_job(job)
    if k == "batch":
        return run_batch_job(job)
    raise ValueError(k)


_JUNK = []


def worker_main():
    req = json.load(sys.stdin)
    out = []
    for item in req["items"]:
        try:
            # priors: in-process histories run before the measured job
            if "priors" in item:    # allocate and keep / free many objects: later objects live at other addresses
                _JUNK.append([object() for _ in range(3000 + 700 * len(_JUNK))])
                _JUNK.append([[i] for i in range(2000)])
                del _JUNK[-1][::2]
            for p in item.get("priors", []):
                try:
                    run_job(p)
                except Exception:  # noqa: BLE001  a prior history that fails is still a prior history
                    pass
            r = run_job(item["job"], item.get("detail_step"), bool(item.get("share")))
            out.append({"ok": True, "res": r})
        except Exception as e:  # noqa: BLE001
            import traceback

            out.append({"ok": False, "err": f"{type(e).__name__}: {e}", "tb": traceback.format_exc()[-1200:]})
    sys.stdout.write("\n@@RESULT@@" + json.dumps(out, default=str))


# =====================================================================================================
#  parent side: environments (fresh interpreters, hash seeds, prior histories, spawn workers)
# =====================================================================================================
def _spawn(items, hashseed):
    env = dict(os.environ)
    env.update(PYTHONPATH=REPO + os.pathsep + os.path.dirname(HERE), PYTHONHASHSEED=str(hashseed),
               PYTHONDONTWRITEBYTECODE="1", MPLBACKEND="Agg")
    return subprocess.Popen([sys.executable, os.path.abspath(__file__), "--worker"], stdin=subprocess.PIPE,
                            stdout=subprocess.PIPE, stderr=subprocess.PIPE, text=True, env=env), json.dumps({"items": items})


def _collect(proc_payload, timeout=600):
    proc, payload = proc_payload
    try:
        out, err = proc.communicate(payload, timeout=timeout)
    except subprocess.TimeoutExpired:
        proc.kill()
        return None, "worker timed out"
    if "@@RESULT@@" not in out:
        return None, (err or out)[-1500:]
    return json.loads(out.split("@@RESULT@@")[1]), None


def _job_name(job):
    if job["kind"] in ("example", "batch"):
        return job["model"]
    if job["kind"] == "batch_graph":
        return "batch_run/shared-graph"
    if job["kind"] == "usercode":
        return "usercode/" + job["variant"]
    if job["kind"] == "script":
        return "api-script"
    return "Model"


def _diff_snap(a, b):
    """first difference between two snapshots, in words (+ what differs at class level, as a hint at the cause)"""
    if a is None or b is None:
        return "no detail available"
    hint = ""
    ca, cb = a.get("class_data", {}), b.get("class_data", {})
    for k in sorted(set(ca) | set(cb)):
        if ca.get(k) != cb.get(k):
            hint = f"; class-level data differs too: {k} = {json.dumps(ca.get(k))[:160]} vs {json.dumps(cb.get(k))[:160]}"
            break
    return _diff_snap0({k: v for k, v in a.items() if k != "class_data"}, {k: v for k, v in b.items() if k != "class_data"}) + hint


def _diff_snap0(a, b):
    if a.get("steps") != b.get("steps"):
        return f"model.steps {a.get('steps')} vs {b.get('steps')}"
    ia = [(x["class"], x["id"]) for x in a["agents"]]
    ib = [(x["class"], x["id"]) for x in b["agents"]]
    if ia != ib:
        for i, (x, y) in enumerate(zip(ia, ib)):
            if x != y:
                return f"agent order differs at index {i}: {x} vs {y} ({len(ia)} vs {len(ib)} agents)"
        return f"number of agents {len(ia)} vs {len(ib)}"
    for x, y in zip(a["agents"], b["agents"]):
        for k in sorted(set(x) | set(y)):
            if x.get(k) != y.get(k):
                return f"agent {x['class']}#{x['id']} attribute {k}: {json.dumps(x.get(k))[:80]} vs {json.dumps(y.get(k))[:80]}"
    for k in sorted(set(a) | set(b)):
        if k not in ("agents",) and a.get(k) != b.get(k):
            return f"{k}: {json.dumps(a.get(k), default=str)[:100]} vs {json.dumps(b.get(k), default=str)[:100]}"
    return ("the two re-runs made for this report agree with each other at that step: the difference does not reproduce run by run - it depends on the allocation history / memory addresses of the process")


def _prior_for(job, j):
    """an in-process history to run before the second measurement of `job`"""
    if job["kind"] == "example":
        other = sorted(EXAMPLES)[(sorted(EXAMPLES).index(job["model"]) + 1 + j) % len(EXAMPLES)]
        alts = [{"kind": "example", "model": job["model"], "kwargs": kw, "seed": job["seed"] + 2 + n, "steps": 2}
                for n, kw in enumerate(ALT_KWARGS.get(job["model"], []))]
        return alts + [dict(job, seed=job["seed"] + 1, steps=2),
                       {"kind": "example", "model": other, "kwargs": EXAMPLES[other][2], "seed": job["seed"], "steps": 2}]
    if job["kind"] == "script":
        sp = dict(job["spec"], seed=job["spec"]["seed"] + 1)
        if job["spec"].get("scale"):      # MANY models in the process before the measured one
            import random as _r

            g = _r.Random(job["spec"]["seed"] + j)
            small = [dict(_script_spec(g), seed=g.randrange(1000)) for _ in range(40)]
            big = dict(sp, n=min(sp["n"], 60), ops=sp["ops"][:1])
            return [{"kind": "script", "spec": x} for x in small] + [{"kind": "script", "spec": big}]
        return [{"kind": "script", "spec": sp}]
    return []


def run_env_case(case):
    jobs = case["jobs"]   # not "ops": the framework's op-deleting shrinker is not applied to environment histories
    hashseeds = case.get("hashseeds", [0, 1, 2])
    obs = [[-2] for _ in jobs]
    failures = []
    if not jobs:
        return {"obs": [], "failures": [], "model": False}
    procs = []
    for hi, h in enumerate(hashseeds):
        order = list(range(len(jobs)))
        order = order[hi % len(jobs):] + order[:hi % len(jobs)]      # every job comes first in some interpreter
        items = [{"job": jobs[i], "idx": i} for i in order]
        if case.get("priors", True):
            items += [{"job": jobs[i], "idx": i, "priors": _prior_for(jobs[i], hi), "share": jobs[i]["kind"] == "script"}
                      for i in order if jobs[i]["kind"] in ("example", "script")]
        procs.append((h, order, items, _spawn(items, h)))
    runs = {i: [] for i in range(len(jobs))}    # job index -> [(env description, result)]
    for h, order, items, pp in procs:
        res, err = _collect(pp)
        if res is None:
            failures.append({"key": "driver-exception", "op": -1, "what": f"worker (PYTHONHASHSEED={h}) produced no result: {err}"})
            continue
        for pos, (it, r) in enumerate(zip(items, res)):
            i = it["idx"]
            envd = f"PYTHONHASHSEED={h}, " + (
                "fresh interpreter" if pos == 0 else
                ("after a model that was given the very same externally built objects (graph, layers, lists, parameter dict) "
                 "and other models ran in the same process" if it.get("share") else
                 "after instances of the same class with non-default constructor arguments and other models ran in the same process")
                if "priors" in it else "after other models ran in the same process")
            runs[i].append((envd, r, h, it))
    for i in runs:   # the reference is the run in a fresh interpreter when there is one
        runs[i].sort(key=lambda x: 0 if "fresh interpreter" in x[0] else 1)
    for i, job in enumerate(jobs):
        name = _job_name(job)
        rs = runs[i]
        bad = [(e, r) for e, r, _, _ in rs if not r["ok"]]
        if bad:
            failures.append({"key": f"C01/{name}/unexpected-exception", "op": i,
                             "what": f"{job['kind']} {name} raised in [{bad[0][0]}]: {bad[0][1]['err']}\n{bad[0][1].get('tb', '')[-600:]}"})
            obs[i] = [-1, 99]
            continue
        if not rs:
            continue
        ref_env, ref, ref_h, ref_it = rs[0]
        rr = ref["res"]
        if job["kind"] in ("example", "script"):
            obs[i] = list(rr["digests"])
            for e, r, h, it in rs[1:]:
                d = r["res"]["digests"]
                if d != rr["digests"]:
                    step = next((k for k, (x, y) in enumerate(zip(d, rr["digests"])) if x != y), min(len(d), len(rr["digests"])))
                    # re-run both with the full snapshot of that step
                    pa = _spawn([dict(ref_it, detail_step=step)], ref_h)
                    pb = _spawn([dict(it, detail_step=step)], h)
                    ra, _ = _collect(pa)
                    rb, _ = _collect(pb)
                    sa = ra[0]["res"]["detail"] if ra and ra[0]["ok"] else None
                    sb = rb[0]["res"]["detail"] if rb and rb[0]["ok"] else None
                    what = (f"{name} built twice with the same arguments and seed {job.get('seed', job.get('spec', {}).get('seed'))} "
                            f"gives different trajectories: [{ref_env}] vs [{e}] first differ at step {step} "
                            f"(0 = state after __init__): {_diff_snap(sa, sb)}")
                    failures.append({"key": f"C01/{name}/trajectory-differs", "op": i, "what": what})
                    break
            ch = next(((e, r["res"]["global_changed_at"]) for e, r, _, _ in rs if r["res"]["global_changed_at"] is not None), None)
            if ch:
                failures.append({"key": f"C01/{name}/global-generator-touched", "op": i,
                                 "what": f"{name}: random.getstate() / np.random.get_state() differ before and after "
                                         f"{'the constructor' if ch[1] == 0 else 'step ' + str(ch[1])} [{ch[0]}]: a process-global generator was drawn from or re-seeded"})
            if rr["gens"]:
                failures.append({"key": f"C01/{name}/space-generator-not-models", "op": i,
                                 "what": f"{name}(seed={job.get('seed')}): these objects do not carry model.random (an unseeded Random() instead): {', '.join(rr['gens'])}"})
            if rr.get("unseeded_warnings"):
                failures.append({"key": f"C01/{name}/unseeded-container", "op": i,
                                 "what": f"{name}: a container was built without the model's generator although one was passed everywhere: {rr['unseeded_warnings']}"})
        elif job["kind"] == "reset":
            form = job["form"]
            flags = [rr["same_seed_same_stream"], rr["randomizer_explicit"], rr["randomizer_default"], rr["rng_explicit"]]
            obs[i] = [2 if f is None else int(bool(f)) for f in flags]
            if not rr["same_seed_same_stream"] or any(r["res"]["stream"] != rr["stream"] for _, r, _, _ in rs):
                failures.append({"key": f"C01/Model/same-seed-different-stream/{form}", "op": i,
                                 "what": f"two Model({form}={job['seed']}) objects (or two interpreters) do not produce the same random / rng stream"})
            if rr["randomizer_explicit"] is False:
                failures.append({"key": f"C01/Model.reset_randomizer/explicit-seed-does-not-replay/{form}", "op": i,
                                 "what": f"Model({form}={job['seed']}): reset_randomizer(model._seed) does not replay the first {job['n']} draws of model.random"})
            if rr["randomizer_default"] is False:
                failures.append({"key": "C01/Model.reset_randomizer/starting-seed-not-recorded", "op": i,
                                 "what": f"Model({form}={job['seed']}): model.random was seeded with {job['seed']} but model._seed is "
                                         f"{'None' if rr['seed0_is_none'] else 'something else'}; reset_randomizer() "
                                         "('reset using the current seed') re-seeds from OS entropy and the stream is not replayed"})
            cl = rr.get("coll") or {}
            if any(r["res"].get("coll", {}).get("through") != cl.get("through") for _, r, _, _ in rs):
                failures.append({"key": f"C01/Model/same-seed-different-draws-through-collections/{form}", "op": i,
                                 "what": f"two interpreters draw different sequences through the collections of the same seeded model ({form}={job['seed']})"})
            if cl.get("identity_before"):
                failures.append({"key": "C01/Model/collections-without-model-generator", "op": i,
                                 "what": f"Model({form}={job['seed']}) with a grid built with random=model.random: these do not carry model.random: {cl['identity_before']}"})
            for which in ("default", "explicit"):
                call = "reset_randomizer()" if which == "default" else "reset_randomizer(model._seed)"
                bad = [x for x in cl.get(f"identity_after_{which}", []) if x not in cl.get("identity_before", [])]
                if bad:
                    failures.append({"key": "C01/Model.reset_randomizer/collections-keep-old-generator", "op": i,
                                     "what": f"Model({form}={job['seed']}): after {call} these collections / objects no longer carry "
                                             f"model.random (they keep the generator that was not re-seeded): {bad}"})
                if cl.get(f"diff_{which}"):
                    failures.append({"key": "C01/Model.reset_randomizer/draws-through-collections-do-not-replay", "op": i,
                                     "what": f"Model({form}={job['seed']}): the same sequence of stochastic decisions drawn before and after "
                                             f"{call}" + (f" + reset_rng({job['seed']})" if form in ("seed", "rng-int") else "")
                                             + f" differs, first at {cl[f'diff_{which}']}"})
            if cl.get("diff_fresh"):
                failures.append({"key": f"C01/Model/same-seed-different-draws-through-collections/{form}", "op": i,
                                 "what": f"a second model with {form}={job['seed']} draws differently through its collections: {cl['diff_fresh']}"})
            if rr.get("both_given", "ValueError") != "ValueError" or rr.get("both_given_global_untouched") is False:
                failures.append({"key": "C01/Model/seed-and-rng-both-given", "op": i,
                                 "what": f"Model(seed={job['seed']}, rng={job['seed']}) must raise ValueError without touching the global "
                                         f"generators: {rr.get('both_given')}, globals untouched: {rr.get('both_given_global_untouched')}"})
            if rr["rng_explicit"] is False and form in ("seed", "rng-int"):
                failures.append({"key": f"C01/Model.reset_rng/explicit-seed-does-not-replay/{form}", "op": i,
                                 "what": f"Model({form}={job['seed']}): reset_rng({job['seed']}) does not replay the first {job['n']} draws of model.rng"})
        elif job["kind"] == "usercode":
            obs[i] = list(rr["digests"])
            if rr["gc_diff"]:
                r_, st, ids1, ids2, n1, n2 = rr["gc_diff"]
                failures.append({"key": f"C01/{name}/depends-on-gc-timing", "op": i,
                                 "what": f"the same seeded model (user-code variant '{job['variant']}', seed {job['seed']}) run twice in one process gives "
                                         f"different trajectories depending on when the garbage collector runs: regime '{GC_REGIMES[1]}' vs '{GC_REGIMES[r_]}' first "
                                         f"differ at step {st}; final model.agents {ids1}... vs {ids2}..., activation log lengths {n1} vs {n2}"})
            if any(r["res"]["digests"] != rr["digests"] for _, r, _, _ in rs):
                failures.append({"key": f"C01/{name}/trajectory-differs", "op": i,
                                 "what": f"user-code variant '{job['variant']}' (seed {job['seed']}): per-step digests differ between interpreters / hash seeds"})
            if rr["global_changed"]:
                failures.append({"key": f"C01/{name}/global-generator-touched", "op": i, "what": "the process-global generators changed"})
        elif job["kind"] == "batch_graph":
            obs[i] = [rr["n"], len(rr["bad"])]
            if rr["bad"]:
                it, sd, g, wnt = rr["bad"][0]
                failures.append({"key": f"C01/batch_run/shared-graph/{job['grid']}/depends-on-earlier-runs", "op": i,
                                 "what": f"batch_run(number_processes=1) over a parameter holding ONE networkx graph for a {job['grid']} model: "
                                         f"the run seed={sd} iteration={it} collected (step, signature, agents in space) {g}... but the same run on a "
                                         f"pristine graph collects {wnt}...: an earlier model of the sweep left state behind in the shared graph"})
            if any(r["res"]["rows"] != rr["rows"] for _, r, _, _ in rs):
                failures.append({"key": f"C01/batch_run/shared-graph/{job['grid']}/hash-seed-changes-results", "op": i,
                                 "what": "the same sweep gives different rows under different PYTHONHASHSEED"})
        elif job["kind"] == "batch":
            obs[i] = [rr["n"], int(rr["iterations_equal"])]
            if not rr["iterations_equal"]:
                failures.append({"key": f"C01/batch_run/{name}/iterations-differ", "op": i,
                                 "what": f"batch_run({name}, seed={job['seeds']}, iterations={job['iterations']}, number_processes={job['procs']}): "
                                         "two iterations with the same kwargs (same seed) report different rows"})
            same = [j for j, o in enumerate(jobs) if o["kind"] == "batch" and j < i and
                    {k: v for k, v in o.items() if k != "procs"} == {k: v for k, v in job.items() if k != "procs"}]
            for j in same:
                other = runs[j][0][1]
                if other["ok"] and other["res"]["rows"] != rr["rows"]:
                    failures.append({"key": f"C01/batch_run/{name}/workers-change-results", "op": i,
                                     "what": f"batch_run({name}, seed={job['seeds']}) with number_processes={jobs[j]['procs']} and "
                                             f"{job['procs']} report different rows ({other['res']['n']} vs {rr['n']} rows)"})
            if any(r["res"]["rows"] != rr["rows"] for _, r, _, _ in rs):
                failures.append({"key": f"C01/batch_run/{name}/hash-seed-changes-results", "op": i,
                                 "what": f"batch_run({name}, seed={job['seeds']}, number_processes={job['procs']}) reports different rows under different PYTHONHASHSEED"})
    return {"obs": obs, "failures": failures, "model": False}


# =====================================================================================================
#  world cases: the real code against coq/Model/Rng.v
# =====================================================================================================
T_SITE = {"agents": "Model.agents", "bytype": "Model.agents_by_type", "select": "AgentSet.select", "selectall": "AgentSet.select",
          "shuffle": "AgentSet.shuffle", "sort": "AgentSet.sort", "group": "AgentSet.groupby", "copy": "copy.copy(AgentSet)",
          "new": "AgentSet", "space_agents": "DiscreteSpace.agents", "legacy_agents": "_Grid.agents",
          "xagents": "legacy-or-continuous-space.agents",
          "call": "DiscreteSpace.all_cells", "cempties": "DiscreteSpace.empties", "cnbhd": "Cell.get_neighborhood",
          "cselect": "CellCollection.select", "cnew": "CellCollection"}


class _NoSuch(Exception):
    pass


def run_world_case(case):
    import copy
    import random as _random
    import warnings

    import mesa
    from mesa.agent import AgentSet
    from mesa.discrete_space import CellAgent, CellCollection, OrthogonalMooreGrid, OrthogonalVonNeumannGrid
    from mesa.space import SingleGrid

    failures = []
    obs = []
    ops_m = []

    def fail(key, i, what):
        failures.append({"key": key, "op": i, "what": what})

    class RecRandom(_random.Random):
        """records what the generator was asked for (DESIGN 2.4); same draws as random.Random"""

        def choice(self, seq):
            if not len(seq):
                raise IndexError("Cannot choose from an empty sequence")
            i = self._randbelow(len(seq))
            self.__dict__.setdefault("log", []).append(("choice", i))
            return seq[i]

        def randrange(self, *a, **k):
            r = super().randrange(*a, **k)
            self.__dict__.setdefault("log", []).append(("randrange", r))
            return r

    class PermSet(set):
        """a set whose iteration order is an arbitrary (salted) permutation: what a hash table may do"""

        salt = 0
        count = 0
        last = None

        def __iter__(self):
            items = sorted(set.__iter__(self))
            PermSet.count += 1
            _random.Random(self.salt * 7919 + PermSet.count).shuffle(items)
            self.last = list(items)
            return iter(items)

    class WA0(CellAgent):
        def __init__(self, model, key=0):
            super().__init__(model)
            self.key = key

        def __bool__(self):      # agents with an odd key are "false" objects (case["falsy"]): Mesa must never test `if agent:`
            return not (case.get("falsy") and self.key % 2 == 1)

    class WA1(WA0):
        pass

    from mesa.experimental.continuous_space import ContinuousSpace as XCS
    from mesa.experimental.continuous_space import ContinuousSpaceAgent

    class WC(ContinuousSpaceAgent):
        def __init__(self, space, model, key=0):
            super().__init__(space, model)
            self.key = key

    KL = [WA0, WA1, WC]
    model = mesa.Model(seed=case["seed"])
    model.random.__class__ = RecRandom
    model.random.log = []
    rnd = model.random
    with warnings.catch_warnings(record=True) as wl:
        warnings.simplefilter("always")
        ck = case.get("ckind") or ("moore" if case["moore"] else "vonneumann")
        srnd = rnd if case["space_seeded"] else None
        if ck == "hex":
            from mesa.discrete_space import HexGrid

            space = HexGrid((case["cw"], case["ch"]), torus=False, random=srnd)
        elif ck == "network":
            import networkx as _nx0

            from mesa.discrete_space import Network

            space = Network(_nx0.convert_node_labels_to_integers(_nx0.grid_2d_graph(case["cw"], case["ch"])), random=srnd)
        elif ck == "voronoi":
            from mesa.discrete_space import VoronoiGrid

            pts = [[0, 0], [10, 1], [3, 9], [12, 11], [6, 5], [1, 20], [15, 3], [8, 16], [20, 20]][:max(3, case["cw"] * case["ch"])]
            space = VoronoiGrid(pts, random=srnd)
        else:
            gcls = OrthogonalMooreGrid if ck == "moore" else OrthogonalVonNeumannGrid
            space = gcls((case["cw"], case["ch"]), torus=case["ctorus"], random=srnd)
        if not case["space_seeded"] and not _unseeded_warned(wl):
            fail("C01/DiscreteSpace/silently-unseeded", -1, "a Grid built with random=None issued no UserWarning")
    space._try_random = False
    cells = list(space._cells.values())
    cidx = {c: i for i, c in enumerate(cells)}
    conn = [[i, [cidx[n] for n in c.connections.values()]] for i, c in enumerate(cells)]
    with warnings.catch_warnings():
        warnings.simplefilter("ignore")
        lg = SingleGrid(case["lw"], case["lh"], False)
    _ = lg.empties
    lg._empties = PermSet(lg._empties)
    lg._empties.salt = case.get("salt", 0)
    cutoff = int(lg.cutoff_empties // 1)
    byid = {}
    for cls, key in case["agents"]:
        a = KL[cls](model, key)
        byid[a.unique_id] = a
    for aid, ci in case["cell_of"]:
        if aid in byid and 0 <= ci < len(cells):
            byid[aid].cell = cells[ci]
    for aid, x, y in case["lplace"]:
        if aid in byid and byid[aid].pos is None and lg.is_cell_empty((x, y)):
            lg.place_agent(byid[aid], (x, y))
    # further spaces: legacy MultiGrid / hex grids / NetworkGrid / ContinuousSpace (no generator of their own) and the
    # experimental ContinuousSpace (built with or without model.random); cells / nodes are addressed by an index 0..5
    import networkx as _nx

    from mesa.space import ContinuousSpace as LCS
    from mesa.space import HexMultiGrid, HexSingleGrid, MultiGrid, NetworkGrid

    XS = []
    with warnings.catch_warnings(record=True) as wl:
        warnings.simplefilter("always")
        for kind in case.get("xspaces", []):
            if kind == "multi":
                XS.append((kind, MultiGrid(3, 2, False)))
            elif kind == "hexsingle":
                XS.append((kind, HexSingleGrid(3, 2, False)))
            elif kind == "hexmulti":
                XS.append((kind, HexMultiGrid(3, 2, False)))
            elif kind == "network":
                XS.append((kind, NetworkGrid(_nx.path_graph(6))))
            elif kind == "cont_legacy":
                XS.append((kind, LCS(3, 2, False)))
            elif kind in ("cont_exp", "cont_exp_unseeded"):
                nw = len([w for w in wl if w.category is UserWarning])
                XS.append((kind, XCS([[0, 3], [0, 2]], torus=False, random=rnd if kind == "cont_exp" else None, n_agents=3)))
                if kind == "cont_exp_unseeded" and len([w for w in wl if w.category is UserWarning]) == nw:
                    fail("C01/ContinuousSpace/silently-unseeded", -1, "an experimental ContinuousSpace built with random=None issued no UserWarning")
    xwhere = {}     # agent id -> index of the further space it is in

    def xpos(kind, k):
        if kind in ("multi", "hexsingle", "hexmulti"):
            return (k // 2, k % 2)
        if kind == "network":
            return k
        return (0.25 + 0.5 * k, 0.5)

    def xagents(si):
        with warnings.catch_warnings(record=True) as wl:
            warnings.simplefilter("always")
            r = XS[si][1].agents
        warned = _unseeded_warned(wl)
        return r, warned

    def in_lg(a):
        return any(lg._grid[x][y] is a for x in range(case["lw"]) for y in range(case["lh"]))

    init_cells = [[i, [a.unique_id for a in c._agents]] for i, c in enumerate(cells)]
    init_lgrid = [[list(a.pos), a.unique_id] for a in byid.values() if a.pos is not None]
    init_agents = [[a.unique_id, KL.index(type(a)), a.key] for a in model.agents]

    def gflag(c):
        return 0 if getattr(c, "random", None) is rnd else 1

    def legacy_nonempty():
        return any(lg._grid[x][y] is not None for x in range(case["lw"]) for y in range(case["lh"]))

    def ev(t, i):
        """-> (collection, model term, must_be_seeded: True/False/None)"""
        k = t[0]
        if k == "agents":
            return model.agents, "TAgents", True
        if k == "bytype":
            if not any(type(a) is KL[t[1]] for a in model.agents):
                raise _NoSuch(f"(TByType {t[1]})")
            return model.agents_by_type[KL[t[1]]], f"(TByType {t[1]})", True
        if k == "space_agents":
            return space.agents, "TSpaceAgents", case["space_seeded"]
        if k == "legacy_agents":
            ne = legacy_nonempty()
            with warnings.catch_warnings(record=True) as wl:
                warnings.simplefilter("always")
                r = lg.agents
            if not ne and not _unseeded_warned(wl):
                fail("C01/_Grid.agents/silently-unseeded", i, "the .agents of an empty legacy grid got an unseeded generator without a UserWarning")
            return r, "TLegacyAgents", ne
        if k == "xagents":
            si = t[1]
            if not 0 <= si < len(XS):
                raise _NoSuch(f"(TXAgents {L.z(si)})")
            kind = XS[si][0]
            r, warned = xagents(si)
            if kind.startswith("cont_exp"):
                return r, f"(TXAgents {si})", kind == "cont_exp"
            if len(r) == 0 and not warned:
                fail(f"C01/{type(XS[si][1]).__name__}.agents/silently-unseeded", i,
                     "the .agents of an empty legacy space got an unseeded generator without a UserWarning")
            return r, f"(TXAgents {si})", len(r) > 0
        try:
            c, m, sd = ev(t[1], i)
        except _NoSuch as e:   # keep the outcomes recorded below, wrap the rest syntactically: the model fails at the same place
            raise _NoSuch(_wrap_term(t, e.args[0])) from None
        r, m2, sd2 = ev_step(k, t, c, m, sd, i)
        if sd and k != "new" and gflag(c) == 0 and gflag(r) != 0:
            fail(f"C01/{T_SITE[k]}/generator-not-propagated", i,
                 f"{_show_term(t)}: the receiver carries model.random but the result's .random is another generator")
        return r, m2, sd2

    def ev_step(k, t, c, m, sd, i):
        if k == "select":
            kmin, n = t[2], t[3]
            r = c.select(lambda a: a.key >= kmin, **({} if n is None else {"at_most": n}))
            return r, f"(TSelect {m} {L.z(kmin)} {L.opt(None if n is None else L.z(n))})", sd
        if k == "selectall":
            return c.select(), f"(TSelectAll {m})", sd
        if k == "copy":
            return copy.copy(c), f"(TCopy {m})", sd
        if k == "shuffle":
            before = [a.unique_id for a in c]
            st = c.random.getstate()
            r = c.shuffle()
            after = [a.unique_id for a in r]
            st2 = c.random.getstate()
            c.random.setstate(st)
            again = [a.unique_id for a in c.shuffle()]
            if again != after or c.random.getstate() != st2:
                fail("C01/AgentSet.shuffle/not-a-function-of-generator-state", i,
                     f"shuffle() of {before} from the same generator state gave {after} and then {again}")
            idxs = [before.index(x) for x in after] if sorted(before) == sorted(after) else [-1]
            return r, f"(TShuffle {m} {L.zlist(idxs)})", sd
        if k == "sort":
            return c.sort("key", ascending=t[2]), f"(TSort {m} {L.b(t[2])})", sd
        if k == "group":
            g = c.groupby("key").groups
            if t[2] not in g:
                raise _NoSuch(f"(TGroup {m} {L.z(t[2])})")
            return g[t[2]], f"(TGroup {m} {L.z(t[2])})", sd
        if k == "new":
            with warnings.catch_warnings(record=True) as wl:
                warnings.simplefilter("always")
                r = AgentSet(list(c), random=rnd if t[2] else None)
            if not t[2] and not _unseeded_warned(wl):
                fail("C01/AgentSet/silently-unseeded", i, "AgentSet(agents, random=None) issued no UserWarning")
            return r, f"(TNew {m} {L.b(t[2])})", bool(t[2])
        raise ValueError(k)

    def cev(t, i):
        k = t[0]
        if k == "call":
            return space.all_cells, "CAll", case["space_seeded"]
        if k == "cempties":
            return space.empties, "CEmpties", case["space_seeded"]
        if k == "cnbhd":
            if not 0 <= t[1] < len(cells):
                raise _NoSuch(f"(CNbhd {L.z(t[1])} {L.b(t[2])})")
            # the same neighbourhood through different spellings of the cached call (positional / keyword / cached property)
            if i % 3 == 0:
                nb = cells[t[1]].get_neighborhood(radius=1, include_center=t[2])
            elif i % 3 == 1 and not t[2]:
                nb = cells[t[1]].neighborhood
            else:
                nb = cells[t[1]].get_neighborhood(1, include_center=t[2])
            return nb, f"(CNbhd {t[1]} {L.b(t[2])})", case["space_seeded"]
        try:
            c, m, sd = cev(t[1], i)
        except _NoSuch as e:
            raise _NoSuch(_wrap_term(t, e.args[0])) from None
        r, m2, sd2 = cev_step(k, t, c, m, sd, i)
        if sd and k != "cnew" and gflag(c) == 0 and gflag(r) != 0:
            fail(f"C01/{T_SITE[k]}/generator-not-propagated", i,
                 f"{_show_term(t)}: the receiver carries model.random but the result's .random is another generator")
        return r, m2, sd2

    def cev_step(k, t, c, m, sd, i):
        if k == "cselect":
            oe, n = t[2], t[3]
            kw = {} if n is None else {"at_most": n}
            r = c.select((lambda cell: cell.is_empty) if oe else None, **kw)
            return r, f"(CSelect {m} {L.b(oe)} {L.opt(None if n is None else L.z(n))})", sd
        if k == "cnew":
            with warnings.catch_warnings(record=True) as wl:
                warnings.simplefilter("always")
                r = CellCollection(list(c), random=rnd if t[2] else None)
            if not t[2] and not _unseeded_warned(wl):
                fail("C01/CellCollection/silently-unseeded", i, "CellCollection(cells, random=None) issued no UserWarning")
            return r, f"(CNew {m} {L.b(t[2])})", bool(t[2])
        raise ValueError(k)

    def lview():
        out = []
        for x in range(case["lw"]):
            for y in range(case["lh"]):
                a = lg._grid[x][y]
                if a is not None:
                    out += [x, y, a.unique_id]
        return out

    for i, op in enumerate(case["ops"]):
        g0 = _global_state()
        k = op[0]
        try:
            if k in ("derive", "derivec"):
                try:
                    c, m, sd = (ev if k == "derive" else cev)(op[1], i)
                except _NoSuch as e:
                    obs.append([-2])
                    ops_m.append(("Derive " if k == "derive" else "DeriveC ") + e.args[0])
                else:
                    gf = gflag(c)
                    members = [a.unique_id for a in c] if k == "derive" else [cidx[x] for x in c]
                    obs.append([gf] + members)
                    ops_m.append(("Derive " if k == "derive" else "DeriveC ") + m)
                    if sd and gf != 0 and not any(f["op"] == i and f["key"].endswith("generator-not-propagated") for f in failures):
                        leaf = op[1]
                        while len(leaf) > 1 and isinstance(leaf[1], list):
                            leaf = leaf[1]
                        fail(f"C01/{T_SITE[leaf[0]]}/generator-not-propagated", i,
                             f"{_show_term(leaf)} does not carry model.random (so nothing derived from it does: {_show_term(op[1])})")
            elif k == "create":
                s = KL[op[1]].create_agents(model, len(op[2]), list(op[2])) if len(op[2]) != 1 else KL[op[1]].create_agents(model, 1, op[2][0])
                for a in s:
                    byid[a.unique_id] = a
                obs.append([gflag(s)] + [a.unique_id for a in s])
                ops_m.append(f"Create {op[1]} {L.zlist(op[2])}")
                if gflag(s) != 0:
                    fail("C01/Agent.create_agents/generator-not-propagated", i, "the AgentSet returned by create_agents does not carry model.random")
            elif k == "remove":
                a = byid.get(op[1])
                if a is None or a not in model.agents:
                    obs.append([-2])
                else:
                    if in_lg(a):
                        lg.remove_agent(a)
                    elif op[1] in xwhere and not XS[xwhere[op[1]]][0].startswith("cont_exp"):
                        XS[xwhere[op[1]]][1].remove_agent(a)
                    xwhere.pop(op[1], None)
                    a.remove()
                    obs.append([0] + [x.unique_id for x in model.agents])
                ops_m.append(f"Remove {op[1]}")
            elif k == "sre":
                empt = [c for c in cells if not c._agents]
                if not empt:
                    obs.append([-3])
                    ops_m.append("SelectRandomEmpty (-1)")
                else:
                    rnd.log = []
                    c = space.select_random_empty_cell()
                    ch = [r for kind, r in rnd.log if kind == "choice"]
                    # the index the generator drew (recorded when the space draws from model.random), else the position
                    kk = ch[-1] if (gflag(space) == 0 and ch) else (empt.index(c) if c in empt else -1)
                    obs.append([gflag(space), cidx[c]])
                    ops_m.append(f"SelectRandomEmpty {L.z(kk)}")
                    if c not in empt:
                        fail("C01/DiscreteSpace.select_random_empty_cell/not-empty", i, f"returned the occupied cell {c.coordinate}")
            elif k == "lplace":
                a = byid.get(op[1])
                p = (op[2], op[3])
                ok = a is not None and a in model.agents and a.pos is None and 0 <= p[0] < case["lw"] and 0 <= p[1] < case["lh"] and lg.is_cell_empty(p)
                if ok:
                    lg.place_agent(a, p)
                    obs.append([0] + lview())
                else:
                    obs.append([-2])
                ops_m.append(f"LPlace {op[1]} {L.zpair(p)}")
            elif k == "lremove":
                a = byid.get(op[1])
                if a is None or a not in model.agents or not in_lg(a):
                    obs.append([-2])
                else:
                    lg.remove_agent(a)
                    obs.append([0] + lview())
                ops_m.append(f"LRemove {op[1]}")
            elif k == "mte":
                a = byid.get(op[1])
                if a is None or a not in model.agents or op[1] in xwhere:
                    obs.append([-2])
                    ops_m.append(f"MoveToEmpty {op[1]} [] 0 []")
                else:
                    empties_before = sorted((x, y) for x in range(case["lw"]) for y in range(case["lh"]) if lg._grid[x][y] is None)
                    old = a.pos
                    st = rnd.getstate()
                    rnd.log = []
                    lg._empties.last = None
                    try:
                        lg.move_to_empty(a)
                    except Exception as e:  # noqa: BLE001
                        if type(e) is Exception and not empties_before:      # by type and position: raised with no empty cell left
                            obs.append([-1, 1])
                            ops_m.append(f"MoveToEmpty {op[1]} [] 0 []")
                            continue
                        raise
                    dest = a.pos
                    log = list(rnd.log)
                    pi = lg._empties.last if lg._empties.last is not None and len(empties_before) <= cutoff else empties_before
                    if len(empties_before) > cutoff:
                        rr = [r for kind, r in log if kind == "randrange"]
                        tape = list(zip(rr[0::2], rr[1::2]))
                        kk = 0
                        pi = []
                    else:
                        tape = []
                        ch = [r for kind, r in log if kind == "choice"]
                        kk = ch[0] if ch else (empties_before.index(dest) if dest in empties_before else -1)
                    obs.append([0, dest[0], dest[1]] + lview())
                    ops_m.append(f"MoveToEmpty {op[1]} {L.lst([L.zpair(p) for p in pi])} {L.z(kk)} {L.lst([L.zpair(p) for p in tape])}")
                    if dest not in empties_before:
                        fail("C01/_Grid.move_to_empty/destination-not-empty", i, f"moved agent {op[1]} to {dest}, which was not empty ({empties_before})")
                    # same generator state, another iteration order of the set of empties: same destination
                    st_after = rnd.getstate()
                    lg.remove_agent(a)
                    if old is not None:
                        lg.place_agent(a, old)
                    rnd.setstate(st)
                    lg._empties.salt += 101
                    lg.move_to_empty(a)
                    if a.pos != dest or rnd.getstate() != st_after:
                        fail("C01/_Grid.move_to_empty/depends-on-set-iteration-order", i,
                             f"move_to_empty(agent {op[1]}) with empties {empties_before} from the same generator state moved to {dest} "
                             f"when the set was iterated as {pi} and to {a.pos} for another iteration order of the same set")
                        lg.remove_agent(a)
                        lg.place_agent(a, dest)
                        rnd.setstate(st_after)
            elif k in ("xplace", "xremove", "xcreate"):
                si = op[1]
                if not 0 <= si < len(XS):
                    obs.append([-2])
                    ops_m.append({"xplace": f"XPlace {L.z(si)} 0 0", "xremove": f"XRemove {L.z(si)} 0", "xcreate": f"XCreate {L.z(si)} 0"}[k])
                else:
                    kind, sp = XS[si]
                    legacy_kind = not kind.startswith("cont_exp")
                    if k == "xcreate":
                        ops_m.append(f"XCreate {si} {L.z(op[2])}")
                        if legacy_kind:
                            obs.append([-2])
                        else:
                            a = WC(sp, model, op[2])
                            byid[a.unique_id] = a
                            xwhere[a.unique_id] = si
                            r, _w = xagents(si)
                            obs.append([gflag(r)] + [x.unique_id for x in r])
                            if kind == "cont_exp" and gflag(r) != 0:
                                fail("C01/ContinuousSpace.agents/generator-not-propagated", i, "experimental ContinuousSpace(random=model.random).agents does not carry model.random")
                    elif k == "xplace":
                        a = byid.get(op[2])
                        kk = op[3]
                        ops_m.append(f"XPlace {si} {L.z(op[2])} {L.z(kk)}")
                        occupied = kind == "hexsingle" and not sp.is_cell_empty(xpos(kind, kk))
                        if not legacy_kind or a is None or a not in model.agents or a.pos is not None or op[2] in xwhere or occupied:
                            obs.append([-2])
                        else:
                            sp.place_agent(a, xpos(kind, kk))
                            xwhere[op[2]] = si
                            r, warned = xagents(si)
                            obs.append([gflag(r)] + [x.unique_id for x in r])
                            if gflag(r) != 0:
                                fail(f"C01/{type(sp).__name__}.agents/generator-not-propagated", i,
                                     f"{type(sp).__name__}.agents of a space holding agents of the model does not carry model.random")
                    else:
                        a = byid.get(op[2])
                        ops_m.append(f"XRemove {si} {L.z(op[2])}")
                        if not legacy_kind or a is None or xwhere.get(op[2]) != si:
                            obs.append([-2])
                        else:
                            sp.remove_agent(a)
                            del xwhere[op[2]]
                            r, _w = xagents(si)
                            obs.append([0] + [x.unique_id for x in r])
            elif k == "reset":
                explicit = bool(op[1]) if len(op) > 1 else False
                pre = {"model.agents": model.agents, "space": space, "space.all_cells": space.all_cells, "space[cell 0]": cells[0],
                       "cell.neighborhood": cells[0].neighborhood, "space.empties": space.empties}
                for t_, s_ in model.agents_by_type.items():
                    pre[f"model.agents_by_type[{t_.__name__}]"] = s_
                if len(model.agents):
                    pre["model.agents.select(...)"] = model.agents.select(lambda a: True, at_most=3)
                carried = [n for n, o in pre.items() if o.random is model.random]
                model.reset_randomizer(*([case["seed"]] if explicit else []))
                call = f"reset_randomizer({case['seed'] if explicit else ''})"
                if model.random is not rnd:   # the generator object was replaced: keep observing the model's current one
                    rnd = model.random
                    if type(rnd) is _random.Random:
                        rnd.__class__ = RecRandom
                    rnd.__dict__.setdefault("log", [])
                lost = [n for n in carried if pre[n].random is not model.random]
                if lost:
                    fail("C01/Model.reset_randomizer/collections-keep-old-generator", i,
                         f"after model.{call} these collections, derived before the reset, no longer carry model.random "
                         f"(they keep the generator that was not re-seeded): {lost}")
                if model.random.getstate() != _random.Random(case["seed"]).getstate():
                    fail("C01/Model.reset_randomizer/stream-not-restarted", i,
                         f"after model.{call} model.random is not in the state of random.Random({case['seed']})")
                obs.append([gflag(model.agents), gflag(space)])
                ops_m.append("Reset")
            elif k == "shuffle_do":
                try:
                    c, m, sd = ev(op[1], i)
                except _NoSuch as e:
                    obs.append([-2])
                    ops_m.append(f"ShuffleDo {e.args[0]} []")
                else:
                    before = [a.unique_id for a in c]
                    called = []
                    st = c.random.getstate()
                    mst = rnd.getstate()
                    c.shuffle_do(lambda a: called.append(a.unique_id))
                    drew_model = rnd.getstate() != mst
                    st2 = c.random.getstate()
                    c.random.setstate(st)
                    again = []
                    c.shuffle_do(lambda a: again.append(a.unique_id))
                    if again != called or c.random.getstate() != st2:
                        fail("C01/AgentSet.shuffle_do/not-a-function-of-generator-state", i,
                             f"shuffle_do over {before} from the same generator state activated {called} and then {again}")
                    idxs = [before.index(x) for x in called] if sorted(before) == sorted(called) else [-1]
                    obs.append([gflag(c)] + called)
                    ops_m.append(f"ShuffleDo {m} {L.zlist(idxs)}")
                    if [a.unique_id for a in c] != before:
                        fail("C01/AgentSet.shuffle_do/reorders-the-set", i, f"shuffle_do changed the order of the AgentSet itself: {before} -> {[a.unique_id for a in c]}")
                    if sd and len(before) > 1 and not drew_model:
                        fail("C01/AgentSet.shuffle_do/drew-from-another-generator", i,
                             f"shuffle_do over {len(before)} agents of a collection carrying model.random did not advance model.random")
                    if len(before) > 1 and gflag(c) == 1 and drew_model:
                        fail("C01/AgentSet.shuffle_do/drew-from-another-generator", i,
                             "shuffle_do of a collection carrying its own generator advanced model.random")
            elif k in ("rcell", "ragent"):
                try:
                    c, m, sd = cev(op[1], i)
                except _NoSuch as e:
                    obs.append([-2])
                    ops_m.append(("RandomCell " if k == "rcell" else "RandomAgent ") + e.args[0] + " 0")
                else:
                    seq = [cidx[x] for x in c] if k == "rcell" else [a.unique_id for x in c for a in x._agents]
                    mst = rnd.getstate()
                    c.random.__dict__["log"] = []
                    try:
                        r = c.select_random_cell() if k == "rcell" else c.select_random_agent()
                    except IndexError:
                        if seq:
                            raise
                        obs.append([-1, 2])
                        ops_m.append(("RandomCell " if k == "rcell" else "RandomAgent ") + m + " 0")
                    else:
                        drew_model = rnd.getstate() != mst
                        val = cidx[r] if k == "rcell" else r.unique_id
                        ch = [x for kind, x in c.random.__dict__.get("log", []) if kind == "choice"]
                        kk = ch[-1] if (gflag(c) == 0 and ch) else (seq.index(val) if val in seq else -1)
                        if k == "ragent" and seq.count(val) > 1:
                            kk = -1   # cannot happen: an agent is in one cell
                        obs.append([gflag(c), val])
                        ops_m.append(("RandomCell " if k == "rcell" else "RandomAgent ") + m + " " + L.z(kk))
                        site = "CellCollection.select_random_cell" if k == "rcell" else "CellCollection.select_random_agent"
                        if val not in seq:
                            fail(f"C01/{site}/not-a-member", i, f"{_show_term(op[1])}: returned {val}, members are {seq}")
                        if (gflag(c) == 0) != drew_model:
                            fail(f"C01/{site}/drew-from-another-generator", i,
                                 f"{_show_term(op[1])}: the collection {'carries' if gflag(c) == 0 else 'does not carry'} model.random but "
                                 f"model.random {'advanced' if drew_model else 'did not advance'}")
            elif k == "tre":
                empt = [c for c in cells if not c._agents]
                if not empt:
                    obs.append([-3])
                    ops_m.append("TryRandomEmpty []")
                else:
                    space._try_random = True
                    tape = []
                    orig = type(space.all_cells).select_random_cell
                    ac = space.all_cells

                    def rec(self_=ac):
                        x = orig(self_)
                        tape.append(cidx[x])
                        return x

                    ac.select_random_cell = rec
                    try:
                        c = space.select_random_empty_cell()
                    finally:
                        del ac.select_random_cell
                        space._try_random = False
                    if not tape:
                        tape = [cidx[c]]
                    obs.append([gflag(space), cidx[c]])
                    ops_m.append(f"TryRandomEmpty {L.zlist(tape)}")
                    if c not in empt:
                        fail("C01/Grid.select_random_empty_cell/not-empty", i, f"returned the occupied cell {c.coordinate}")
            elif k == "oneof":
                a = byid.get(op[1])
                ps = [tuple(p) for p in op[2]]
                closest = bool(op[3])
                ok = a is not None and a in model.agents and in_lg(a)
                if not ok:
                    obs.append([-2])
                    ops_m.append(f"MoveOneOf {op[1]} {L.lst([L.zpair(p) for p in ps])} {L.b(closest)} [] 0")
                else:
                    cur = a.pos
                    offered = [p for p in ps if 0 <= p[0] < case["lw"] and 0 <= p[1] < case["lh"] and (lg.is_cell_empty(p) or p == cur)]
                    arg = list(offered)
                    rnd.log = []
                    lg.move_agent_to_one_of(a, arg, selection="closest" if closest else "random")
                    ch = [r for kind, r in rnd.log if kind == "choice"]
                    kk = ch[-1] if ch else 0
                    idxs = [offered.index(p) for p in arg] if closest and len(set(offered)) == len(offered) else []
                    if offered:
                        obs.append([0, a.pos[0], a.pos[1]] + lview())
                    else:
                        obs.append([0] + lview())
                    ops_m.append(f"MoveOneOf {op[1]} {L.lst([L.zpair(p) for p in ps])} {L.b(closest)} {L.zlist(idxs)} {L.z(kk)}")
                    if offered:
                        if a.pos not in offered:
                            fail("C01/_Grid.move_agent_to_one_of/destination-not-offered", i, f"moved to {a.pos}, offered {offered}")
                        elif closest:
                            d = lambda p: (p[0] - cur[0]) ** 2 + (p[1] - cur[1]) ** 2  # noqa: E731
                            if any(d(q) < d(a.pos) for q in offered):
                                fail("C01/_Grid.move_agent_to_one_of/not-the-closest", i, f"from {cur} moved to {a.pos} although {offered} holds a nearer position")
            else:
                raise ValueError(k)
        except Exception as e:  # noqa: BLE001
            import traceback

            if len(obs) <= i:
                obs.append([-1, 99])
            if len(ops_m) <= i:
                ops_m.append("Remove (-1)")
            fail(f"C01/world/{k}/unexpected-exception", i, f"{op} raised {type(e).__name__}: {e}  {traceback.format_exc()[-400:]}")
        if _global_state() != g0:
            fail(f"C01/{k}/global-generator-touched", i, f"{op}: random.getstate() / np.random.get_state() changed during the call")
    world = {"agents": init_agents, "next": len(case["agents"]) + 1,
             "cells": init_cells, "conn": conn, "lgrid": init_lgrid, "cutoff": cutoff}
    return {"obs": obs, "failures": failures, "ops_for_model": {"ops": ops_m, "world": world}}


def _wrap_term(t, m):
    """Gallina for constructor t applied to the already printed inner term m, with no outcome of its own (used
    above a derivation step that does not exist: the model stops at the same step)"""
    k = t[0]
    if k == "select":
        return f"(TSelect {m} {L.z(t[2])} {L.opt(None if t[3] is None else L.z(t[3]))})"
    if k == "selectall":
        return f"(TSelectAll {m})"
    if k == "copy":
        return f"(TCopy {m})"
    if k == "shuffle":
        return f"(TShuffle {m} [])"
    if k == "sort":
        return f"(TSort {m} {L.b(t[2])})"
    if k == "group":
        return f"(TGroup {m} {L.z(t[2])})"
    if k == "new":
        return f"(TNew {m} {L.b(t[2])})"
    if k == "cselect":
        return f"(CSelect {m} {L.b(t[2])} {L.opt(None if t[3] is None else L.z(t[3]))})"
    if k == "cnew":
        return f"(CNew {m} {L.b(t[2])})"
    raise ValueError(k)


def _show_term(t):
    k = t[0]
    leaf = {"agents": "model.agents", "space_agents": "space.agents", "legacy_agents": "grid.agents", "call": "space.all_cells",
            "cempties": "space.empties"}
    if k in leaf:
        return leaf[k]
    if k == "xagents":
        return f"further_space[{t[1]}].agents"
    if k == "bytype":
        return f"model.agents_by_type[K{t[1]}]"
    if k == "cnbhd":
        return f"cell[{t[1]}].get_neighborhood(1, include_center={t[2]})"
    inner = _show_term(t[1])
    return {"select": f"{inner}.select(key>={t[2] if len(t) > 2 else ''}, at_most={t[3] if len(t) > 3 else ''})", "selectall": f"{inner}.select()",
            "copy": f"copy.copy({inner})", "shuffle": f"{inner}.shuffle()", "sort": f"{inner}.sort('key')",
            "group": f"{inner}.groupby('key').groups[{t[2] if len(t) > 2 else ''}]", "new": f"AgentSet(list({inner}), random=...)",
            "cselect": f"{inner}.select(...)", "cnew": f"CellCollection(list({inner}), random=...)"}[k]


def run_impl(case):
    if case.get("kind") == "env":
        return run_env_case(case)
    return run_world_case(case)


# ------------------------------------------------------------------ Gallina printer
def coq_case(case):
    if case.get("kind") == "env":
        return "{| c_world := {| w_agents := []; w_next := 1; w_sgen := 0; w_cells := []; w_conn := []; w_lw := 0; w_lh := 0; w_lgrid := []; w_cutoff := 0; w_xspaces := [] |}; c_ops := [] |}"
    fm = case.get("_ops_for_model")
    if fm is None:
        fm = run_world_case(case)["ops_for_model"]
    w = fm["world"]
    ags = L.lst([f"{{| a_id := {a}; a_cls := {c}; a_key := {L.z(k)} |}}" for a, c, k in w["agents"]])
    cells = L.lst([L.pair(L.z(i), L.zlist(v)) for i, v in w["cells"]])
    conn = L.lst([L.pair(L.z(i), L.zlist(v)) for i, v in w["conn"]])
    lgrid = L.lst([L.pair(L.zpair(p), L.z(a)) for p, a in w["lgrid"]])
    world = (f"{{| w_agents := {ags}; w_next := {w['next']}; w_sgen := {0 if case['space_seeded'] else 1}; w_cells := {cells}; "
             f"w_conn := {conn}; w_lw := {case['lw']}; w_lh := {case['lh']}; w_lgrid := {lgrid}; w_cutoff := {w['cutoff']}; "
             f"w_xspaces := {L.lst([_xspace_lit(k) for k in case.get('xspaces', [])])} |}}")
    return f"{{| c_world := {world}; c_ops := {L.lst(fm['ops'])} |}}"


def _xspace_lit(kind):
    legacy = not kind.startswith("cont_exp")
    keyed = kind in ("multi", "hexsingle", "hexmulti", "network")
    return (f"{{| xs_legacy := {L.b(legacy)}; xs_keyed := {L.b(keyed)}; xs_single := {L.b(kind == 'hexsingle')}; "
            f"xs_gen := {0 if kind == 'cont_exp' else 1}; xs_items := [] |}}")


def op_kinds(case):
    if case.get("kind") == "env":
        return [f"env/{j['kind']}/{_job_name(j)}" for j in case["jobs"]]
    out = []
    for op in case["ops"]:
        if op[0] in ("derive", "derivec", "shuffle_do", "rcell", "ragent"):
            out.append(f"{op[0]}/{op[1][0]}")
        else:
            out.append(op[0])
    return out


def nontrivial(case):
    obs = case.get("_obs", [])
    if case.get("kind") == "env":
        return any(len(o) > 2 for o in obs)
    return len(case.get("ops", [])) >= 2 and any(len(o) > 1 and o[0] >= 0 for o in obs)


# ------------------------------------------------------------------ generation
def _gen_term(rng, depth, nkeys=4):
    if depth <= 0 or rng.random() < 0.25:
        r = rng.random()
        if r < 0.45:
            return ["agents"]
        if r < 0.65:
            return ["bytype", rng.randrange(2)]
        if r < 0.78:
            return ["space_agents"]
        if r < 0.88:
            return ["legacy_agents"]
        return ["xagents", rng.randrange(4)]
    k = rng.choice(["select", "select", "selectall", "shuffle", "shuffle", "sort", "group", "copy", "new"])
    inner = _gen_term(rng, depth - 1)
    if k == "select":
        return [k, inner, rng.randrange(-1, nkeys + 1), rng.choice([None, None, 0, 1, 2, 3, 5, -1, 100])]
    if k == "sort":
        return [k, inner, rng.random() < 0.5]
    if k == "group":
        return [k, inner, rng.randrange(nkeys)]
    if k == "new":
        return [k, inner, rng.random() < 0.7]
    return [k, inner]


def _gen_cterm(rng, depth, ncells):
    if depth <= 0 or rng.random() < 0.3:
        r = rng.random()
        if r < 0.35:
            return ["call"]
        if r < 0.6:
            return ["cempties"]
        return ["cnbhd", rng.randrange(ncells), rng.random() < 0.5]
    k = rng.choice(["cselect", "cselect", "cnew"])
    inner = _gen_cterm(rng, depth - 1, ncells)
    if k == "cselect":
        return [k, inner, rng.random() < 0.5, rng.choice([None, None, 0, 1, 2, 4])]
    return [k, inner, rng.random() < 0.7]


def _gen_world(rng, big=False):
    n = rng.randint(0, 7)
    cw, ch = rng.randint(1, 3), rng.randint(1, 3)
    lw, lh = (rng.randint(1, 3), rng.randint(1, 3)) if not big else (rng.randint(6, 7), rng.randint(6, 7))
    agents = [[rng.randrange(2), rng.randrange(4)] for _ in range(n)]
    cell_of = [[i + 1, rng.randrange(cw * ch)] for i in range(n) if rng.random() < 0.6]
    cells = [(x, y) for x in range(lw) for y in range(lh)]
    rng.shuffle(cells)
    lplace = [[i + 1, cells[j][0], cells[j][1]] for j, i in enumerate(rng.sample(range(n), min(n, rng.randint(0, len(cells)))))
              if j < len(cells)] if rng.random() < 0.85 else []
    case = {"kind": "world", "seed": rng.randrange(10**6), "agents": agents, "space_seeded": rng.random() < 0.8, "cw": cw, "ch": ch,
            "ctorus": rng.random() < 0.5, "moore": rng.random() < 0.5, "cell_of": cell_of, "lw": lw, "lh": lh, "lplace": lplace,
            "salt": rng.randrange(1000), "ops": [], "falsy": rng.random() < 0.4, "ckind": rng.choice([None, None, None, "hex", "network", "voronoi"]),
            "xspaces": [rng.choice(["multi", "hexsingle", "hexmulti", "network", "cont_legacy", "cont_exp", "cont_exp", "cont_exp_unseeded"])
                        for _ in range(rng.randint(0, 3))]}
    nid = n
    nx_ = len(case["xspaces"])
    placed = [x[0] for x in lplace]
    for _ in range(rng.randint(3, 12)):
        r = rng.random()
        if nx_ and rng.random() < 0.22:
            si = rng.randrange(nx_ + 1) if rng.random() < 0.1 else rng.randrange(nx_)
            kind = case["xspaces"][si] if si < nx_ else "multi"
            rr = rng.random()
            if kind.startswith("cont_exp") and rr < 0.8:
                case["ops"].append(["xcreate", si, rng.randrange(4)])
                nid += 1
                placed.append(nid)
            elif rr < 0.6:
                unpl = [x for x in range(1, nid + 1) if x not in placed]
                who = rng.choice(unpl) if unpl and rng.random() < 0.85 else rng.randint(1, max(1, nid))
                case["ops"].append(["xplace", si, who, rng.randrange(6)])
                placed.append(who)
            elif rr < 0.75:
                case["ops"].append(["xremove", si, rng.randint(1, max(1, nid))])
            else:
                case["ops"].append([rng.choice(["derive", "derive", "shuffle_do"]), rng.choice([["xagents", si], ["shuffle", ["xagents", si]],
                                                                                             ["select", ["xagents", si], 1, None]])])
        elif r < 0.03:
            case["ops"].append(["reset", rng.random() < 0.5])
        elif r < 0.08:
            case["ops"].append(["shuffle_do", _gen_term(rng, rng.randint(0, 3))])
        elif r < 0.14:
            cand = [(x, y) for x in range(lw) for y in range(lh)]
            rng.shuffle(cand)
            who = rng.choice(placed) if placed and rng.random() < 0.85 else rng.randint(1, max(1, nid))
            case["ops"].append(["oneof", who, [list(p) for p in cand[:rng.randint(0, min(6, len(cand)))]], rng.random() < 0.6])
        elif r < 0.4:
            case["ops"].append(["derive", _gen_term(rng, rng.randint(0, 4))])
        elif r < 0.55:
            case["ops"].append(["derivec", _gen_cterm(rng, rng.randint(0, 3), cw * ch)])
        elif r < 0.63:
            ks = [rng.randrange(4) for _ in range(rng.randint(0, 3))]
            case["ops"].append(["create", rng.randrange(2), ks])
            nid += len(ks)
        elif r < 0.70:
            case["ops"].append(["remove", rng.randint(1, max(1, nid + 1))])
        elif r < 0.73:
            case["ops"].append(["sre"] if rng.random() < 0.5 else ["tre"])
        elif r < 0.76:
            case["ops"].append([rng.choice(["rcell", "ragent"]), _gen_cterm(rng, rng.randint(0, 2), cw * ch)])
        elif r < 0.83:
            unpl = [x for x in range(1, nid + 1) if x not in placed]
            who = rng.choice(unpl) if unpl and rng.random() < 0.8 else rng.randint(1, max(1, nid))
            case["ops"].append(["lplace", who, rng.randrange(lw + 1), rng.randrange(lh)])
            placed.append(who)
        elif r < 0.88:
            who = rng.choice(placed) if placed and rng.random() < 0.8 else rng.randint(1, max(1, nid))
            case["ops"].append(["lremove", who])
            placed = [x for x in placed if x != who]
        else:
            who = rng.randint(1, max(1, nid + 1))
            case["ops"].append(["mte", who])
            if who <= nid and who not in placed:
                placed.append(who)
    return case


def _script_spec(rng):
    OPS = ["step", "shuffle_do", "shuffle_inplace", "shuffle_copy_do", "select_frac", "select_filter", "by_type", "groupby", "sort_do",
           "populate", "remove", "space_agents", "rand_cell", "rand_agent", "rand_empty", "np_draw", "abandon_iter", "bad_move", "collect", "step"]
    kind = rng.choice(["moore", "vonneumann", "hex", "network", "network", "netgrid", "netgrid", "single", "multi", "cont", "none"])
    w, h = rng.randint(2, 5), rng.randint(2, 5)
    cap = rng.choice([None, None, 1, 2]) if kind in ("moore", "vonneumann", "hex", "network") else None
    n = rng.randint(0, min(8, w * h if (cap == 1 or kind == "single") else 8))
    ops = []
    for _ in range(rng.randint(3, 8)):
        k = rng.choice(OPS)
        ops.append([k, rng.randint(1, 3)] if k == "populate" else ([k, rng.random() < 0.5] if k == "rand_empty" else [k]))
    return {"form": rng.choice(["seed", "rng-int", "rng-seq", "rng-gen", "rng-list", "seed", "rng-int", "seed-float", "seed-str", "seed-big",
                                "seed-bool", "rng-npint", "rng-big", "rng-array"]), "seed": rng.randrange(1000), "space": kind,
            "w": w, "h": h, "torus": rng.random() < 0.5, "capacity": cap, "n": n, "ops": ops, "dc": rng.choice([0, 1, 2, 2])}


def _dense_spec(rng, kind=None):
    """nearly full capacity-1 grids (orthogonal, hex) and a nearly full legacy SingleGrid: 90-97 % occupied with 2..4 empty
    cells, every agent relocated to a random empty cell several times, under both select_random_empty_cell strategies"""
    kind = kind or rng.choice(["moore", "vonneumann", "hex", "single"])
    w, h = rng.randint(6, 7), rng.randint(6, 7)
    ops = []
    flag = rng.random() < 0.5
    for _ in range(rng.randint(3, 4)):
        ops.append(["relocate", flag])
        flag = not flag
        if rng.random() < 0.3:
            ops.append(["rand_empty", True])
    return {"form": rng.choice(["seed", "rng-int"]), "seed": rng.randrange(1000), "space": kind, "w": w, "h": h, "torus": rng.random() < 0.5,
            "capacity": 1 if kind != "single" else None, "n": w * h - rng.randint(2, 4), "ops": ops, "dense": True}


def _scale_world(rng, n=1030):
    """SCALE, model-tied: > 1024 agents in the registry; shuffles, selections at 1025, sort and groups over all of them"""
    return {"kind": "world", "seed": rng.randrange(10**6), "agents": [[rng.randrange(2), rng.randrange(4)] for _ in range(n)],
            "space_seeded": True, "cw": 2, "ch": 2, "ctorus": False, "moore": True, "cell_of": [[i + 1, i % 4] for i in range(0, n, 7)],
            "lw": 2, "lh": 2, "lplace": [], "salt": 5, "falsy": True, "xspaces": ["multi"],
            "ops": [["derive", ["shuffle", ["agents"]]], ["shuffle_do", ["select", ["agents"], 0, 1025]], ["create", 1, [1] * 260],
                    ["xplace", 0, n + 5, 2], ["derive", ["sort", ["select", ["bytype", 1], 2, 257], False]], ["reset", False],
                    ["shuffle_do", ["space_agents"]], ["remove", 1024], ["derive", ["group", ["agents"], 3]]]}


def _scale_specs(rng, thorough=False, broken=False):
    """SCALE stream (implementation against implementation only): sizes and counts that cross the thresholds small examples
    never reach - neighbourhoods of radius 9..20 on tori of 400-900 cells (several thousand entries to merge), > 1024 agents in
    one AgentSet, > 256 steps, 40 models in the process before the measured one"""
    sd = rng.randrange(1000)
    out = [
        # Moore torus 20x20: a radius-9 neighbourhood merges 8 x 289 = 2312 entries, radius 10 covers the whole torus
        {"form": "seed", "seed": sd, "space": "moore", "w": 20, "h": 20, "torus": True, "capacity": None, "n": 36,
         "ops": [["nbhd_walk", 9], ["nbhd_walk", 10], ["step"], ["rand_agent"]], "scale": True},
        # 1100 agents in model.agents / by-type sets / groups (> 1024), no space
        {"form": "rng-int", "seed": sd + 1, "space": "none", "w": 2, "h": 2, "torus": False, "capacity": None, "n": 1100,
         "ops": [["shuffle_do"], ["shuffle_inplace"], ["select_frac"], ["by_type"], ["groupby"], ["remove"], ["shuffle_copy_do"]], "scale": True},
        # 260 steps of a small model (> 256)
        {"form": "seed", "seed": sd + 2, "space": rng.choice(["moore", "single", "netgrid"]), "w": 4, "h": 4, "torus": True, "capacity": None, "n": 7,
         "ops": [["step"]] * 260, "scale": True},
    ]
    out.append({"form": "seed", "seed": sd + 3, "space": "hex", "w": 30, "h": 30, "torus": False, "capacity": None, "n": 60,
                "ops": [["nbhd_walk", 12], ["nbhd_walk", 13]], "scale": True})
    if thorough or broken:
        out += [
            {"form": "seed", "seed": sd + 4, "space": "vonneumann", "w": 36, "h": 36, "torus": True, "capacity": None, "n": 40,
             "ops": [["nbhd_walk", 17], ["nbhd_walk", 20]], "scale": True},
            {"form": "rng-int", "seed": sd + 5, "space": "network", "w": 20, "h": 20, "torus": False, "capacity": None, "n": 40,
             "ops": [["nbhd_walk", 18]], "scale": True},
            {"form": "seed", "seed": sd + 6, "space": "moore", "w": 30, "h": 30, "torus": True, "capacity": 2, "n": 300,
             "ops": [["nbhd_walk", 9], ["step"], ["nbhd_walk", 16]], "scale": True},
            {"form": "seed", "seed": sd + 7, "space": "multi", "w": 33, "h": 33, "torus": True, "capacity": None, "n": 2050,
             "ops": [["shuffle_do"], ["space_agents"], ["groupby"]], "scale": True},
        ]
    return out


def gen_cases(rng, tier):
    thorough = tier == "thorough"
    cases = []
    hashseeds = [0, 1, 2] if not thorough else [0, 1, 2, 3, 5, 8, 13, 4242]
    steps = 5 if not thorough else 30
    # (ii) the nine bundled examples, three per environment case (each comes first in one of the interpreters)
    ejobs = []
    for rep in range(1 if not thorough else 2):
        for name in sorted(EXAMPLES):
            ejobs.append({"kind": "example", "model": name, "kwargs": EXAMPLES[name][2],
                          "seed": rng.randrange(10**6) if rep == 0 else 42, "steps": steps})
    for s in range(0, len(ejobs), 3):
        cases.append({"kind": "env", "hashseeds": hashseeds, "priors": True, "jobs": ejobs[s:s + 3]})
    # (i) API scripts
    nscripts = 64 if not thorough else 800
    per = 16 if not thorough else 40
    specs = [_script_spec(rng) for _ in range(nscripts)]
    dkinds = ["moore", "hex", "vonneumann", "single"]
    for ci, s in enumerate(range(0, nscripts, per)):
        dense = [_dense_spec(rng, dkinds[(2 * ci + j) % 4]) for j in range(2 if not thorough else 4)]
        cases.append({"kind": "env", "hashseeds": hashseeds if not thorough else hashseeds[:4], "priors": True,
                      "jobs": [{"kind": "script", "spec": sp} for sp in specs[s:s + per] + dense]})
    # SCALE stream: its own environment case (3 jobs, each first in one interpreter)
    sc = _scale_specs(rng, thorough)
    for s0 in range(0, len(sc), 4):
        cases.append({"kind": "env", "hashseeds": hashseeds[:3], "priors": True, "jobs": [{"kind": "script", "spec": sp} for sp in sc[s0:s0 + 4]]})
    # re-seeding
    cases.append({"kind": "env", "hashseeds": [0, 1], "priors": False,
                  "jobs": [{"kind": "reset", "form": f, "seed": rng.randrange(10**6), "n": 8}
                          for f in ("seed", "rng-int", "rng-seq", "rng-gen", "rng-list", "seed-float", "seed-str", "seed-big",
                                    "seed-bool", "rng-npint", "rng-big", "rng-array")]
                         + [{"kind": "batch_graph", "grid": g, "seeds": [rng.randrange(1000), rng.randrange(1000)], "iterations": 2, "steps": 4}
                            for g in ("NetworkGrid", "Network")]
                         + [{"kind": "usercode", "variant": v, "seed": rng.randrange(1000), "steps": 60 if not thorough else 200}
                            for v in USERCODE_VARIANTS for _ in range(1 if not thorough else 3)]})
    # batch_run in spawn workers
    bm = ["Schelling", "VirusOnNetwork"] if not thorough else ["Schelling", "VirusOnNetwork", "BoltzmannWealth", "WolfSheep"]
    for name in bm:
        if name == "WolfSheep":
            continue
        sds = [rng.randrange(1000), rng.randrange(1000)]
        cases.append({"kind": "env", "hashseeds": [0] if not thorough else [0, 7], "priors": False,
                      "jobs": [{"kind": "batch", "model": name, "seeds": sds, "iterations": 2, "steps": 4, "procs": p}
                              for p in ([1, 2] if not thorough else [1, 2, 3])]})
    # model-tied worlds
    nw = 240 if not thorough else 6000
    worlds = [_gen_world(rng, big=(i % 8 == 7)) for i in range(nw)]
    worlds.insert(len(worlds) // 2, _scale_world(rng))
    if thorough:
        worlds.insert(7, _scale_world(rng, 2060))
    # interleave: the framework hands consecutive histories to one pool worker, the env histories are the slow ones
    envs = cases
    k = max(1, len(worlds) // max(1, len(envs)))
    out = []
    for i, e in enumerate(envs):
        out.append(e)
        out += worlds[i * k:(i + 1) * k]
    out += worlds[len(envs) * k:]
    return out


def enumerate_cases(tier, broken=False):
    """targeted sweep (implementation + oracle only): every derivation of depth <= 2 over fixed small worlds with the
    space seeded / unseeded and the legacy grid empty / occupied; every SingleGrid up to 3x3 with every number of
    occupied cells, two iteration orders each, move_to_empty of a placed and of an unplaced agent."""
    import itertools
    import random

    rng = random.Random(777)
    leaves = [["agents"], ["bytype", 0], ["bytype", 1], ["space_agents"], ["legacy_agents"]]

    def wrap(t):
        yield ["select", t, 1, None]
        yield ["select", t, -1, 2]
        yield ["selectall", t]
        yield ["shuffle", t]
        yield ["sort", t, True]
        yield ["sort", t, False]
        yield ["group", t, 1]
        yield ["copy", t]
        yield ["new", t, True]
        yield ["new", t, False]

    terms = list(leaves)
    d1 = [x for t in leaves for x in wrap(t)]
    terms += d1
    if tier == "thorough":
        terms += [x for t in d1 for x in wrap(t)]
    cterms = [["call"], ["cempties"], ["cnbhd", 0, True], ["cnbhd", 1, False]]
    cterms += [x for t in list(cterms) for x in (["cselect", t, True, None], ["cselect", t, False, 1], ["cselect", t, False, None],
                                                  ["cnew", t, True], ["cnew", t, False])]
    for ck in ("hex", "network", "voronoi"):
        for seeded in (True, False):
            yield {"kind": "world", "seed": 6, "agents": [[0, 1], [1, 1], [0, 2]], "space_seeded": seeded, "cw": 2, "ch": 2, "ctorus": False,
                   "moore": True, "ckind": ck, "cell_of": [[1, 0], [2, 0], [3, 3]], "lw": 1, "lh": 1, "lplace": [], "salt": 3,
                   "ops": [["derivec", t] for t in cterms] + [["derive", ["space_agents"]], ["derive", ["shuffle", ["space_agents"]]], ["sre"], ["tre"],
                                                              ["rcell", ["cnbhd", 0, True]], ["ragent", ["call"]], ["rcell", ["cempties"]],
                                                              ["shuffle_do", ["space_agents"]], ["reset", False], ["derivec", ["cnbhd", 3, False]]]}
    for seeded in (True, False):
        for occupied in (True, False):
            ops = [["derive", t] for t in terms] + [["derivec", t] for t in cterms]
            for s in range(0, len(ops), 60):
                yield {"kind": "world", "seed": 5, "agents": [[0, 1], [1, 1], [0, 2], [1, 3], [0, 1]], "space_seeded": seeded,
                       "cw": 2, "ch": 2, "ctorus": False, "moore": True, "cell_of": [[1, 0], [2, 0], [3, 3]], "lw": 2, "lh": 2,
                       "lplace": [[1, 0, 0], [4, 1, 1]] if occupied else [], "salt": 3, "ops": ops[s:s + 60] + [["create", 1, [2, 2]], ["sre"], ["tre"], ["rcell", ["cempties"]], ["ragent", ["call"]],
                                                   ["shuffle_do", ["agents"]], ["shuffle_do", ["space_agents"]], ["rcell", ["cnew", ["call"], False]],
                                                   ["reset", False], ["derive", ["shuffle", ["agents"]]], ["derive", ["bytype", 1]], ["derivec", ["cempties"]],
                                                   ["shuffle_do", ["space_agents"]], ["rcell", ["cnbhd", 0, True]], ["reset", True], ["sre"], ["tre"]]}
    # an agent whose truth value is False as the only occupant of each kind of legacy space
    yield {"kind": "world", "seed": 3, "agents": [[0, 1], [1, 3], [0, 2]], "space_seeded": True, "cw": 1, "ch": 2, "ctorus": False, "moore": True,
           "cell_of": [[1, 0]], "lw": 2, "lh": 1, "lplace": [[1, 0, 0]], "salt": 1, "falsy": True,
           "xspaces": ["hexsingle", "multi", "network", "cont_legacy"],
           "ops": [["derive", ["legacy_agents"]], ["derive", ["shuffle", ["legacy_agents"]]], ["xplace", 0, 2, 1], ["derive", ["xagents", 0]],
                   ["xremove", 0, 2], ["xplace", 1, 2, 0], ["derive", ["xagents", 1]], ["xremove", 1, 2], ["xplace", 2, 2, 3],
                   ["derive", ["xagents", 2]], ["xremove", 2, 2], ["xplace", 3, 2, 0], ["shuffle_do", ["xagents", 3]], ["derive", ["space_agents"]],
                   ["ragent", ["call"]], ["derive", ["select", ["agents"], 0, None]], ["mte", 1], ["derive", ["legacy_agents"]]]}
    kinds = ["multi", "hexsingle", "hexmulti", "network", "cont_legacy", "cont_exp", "cont_exp_unseeded"]
    for rep in range(2):
        ops = []
        for si, kind in enumerate(kinds):
            ops.append(["derive", ["xagents", si]])
            if kind.startswith("cont_exp"):
                ops += [["xcreate", si, 1], ["xcreate", si, 2], ["derive", ["shuffle", ["xagents", si]]], ["shuffle_do", ["xagents", si]],
                        ["remove", 5 + (si - 5) * 2 + 1]]
            else:
                a, b = (si % 4) + 1, ((si + 1) % 4) + 1
                ops += [["xplace", si, a, 4 if rep else 1], ["xplace", si, b, 1], ["derive", ["xagents", si]], ["derive", ["sort", ["xagents", si], True]],
                        ["shuffle_do", ["xagents", si]], ["xplace", si, a, 0], ["xremove", si, a], ["xremove", si, b], ["derive", ["xagents", si]]]
            ops.append(["derive", ["xagents", si]])
        yield {"kind": "world", "seed": 11 + rep, "agents": [[0, 1], [1, 1], [0, 2], [1, 3]], "space_seeded": True, "cw": 1, "ch": 1,
               "ctorus": False, "moore": True, "cell_of": [], "lw": 2, "lh": 2, "lplace": [], "salt": 1, "xspaces": kinds,
               "ops": ops + [["xplace", 0, 1, 0], ["mte", 1], ["lplace", 1, 0, 0], ["remove", 1], ["derive", ["xagents", 0]], ["derive", ["xagents", 9]]]}
    lim = 3
    for lw in range(1, lim + 1):
        for lh in range(1, lim + 1):
            cells = [(x, y) for x in range(lw) for y in range(lh)]
            for nocc in range(0, lw * lh + 1):
                for salt in (1, 2):
                    rng.shuffle(cells)
                    n = nocc + 1
                    yield {"kind": "world", "seed": rng.randrange(10**6), "agents": [[0, 0]] * n, "space_seeded": True, "cw": 1, "ch": 1,
                           "ctorus": False, "moore": True, "cell_of": [], "lw": lw, "lh": lh,
                           "lplace": [[i + 1, cells[i][0], cells[i][1]] for i in range(nocc)], "salt": salt,
                           "ops": [["mte", n], ["mte", 1], ["oneof", 1, [list(c) for c in cells[:3]], True], ["mte", n], ["lremove", 1],
                                   ["oneof", 2, [list(c) for c in cells], False], ["mte", 2], ["mte", 1], ["oneof", 2, [list(c) for c in cells], True]]}


RULE = ("model-tied 'world' histories = one mesa.Model(seed) with <= 7 agents of two classes (a subclass among them; in 40 % of the worlds "
        "the agents with an odd key are objects whose truth value is False), a cell space (orthogonal Moore / von Neumann, HexGrid, Network "
        "or VoronoiGrid; 1..3 x 1..3 cells or 3-9 centroids) built with or without model.random, a legacy SingleGrid (1..3 x 1..3, every 8th "
        "6..7 x 6..7 so that the rejection branch of move_to_empty runs) whose _empties set iterates in a salted random order, up to three "
        "further spaces (MultiGrid, HexSingle/HexMultiGrid, NetworkGrid, legacy ContinuousSpace, experimental ContinuousSpace with or without "
        "model.random), and 3-12 operations: derivation terms of depth <= 4 over select (at_most None / -1 / 0..5 / 100) / shuffle / sort / "
        "groupby / copy / AgentSet() / space.agents of every space; cell-collection terms (the neighbourhood reached through positional, keyword "
        "and cached-property spellings); create_agents, remove, place / remove_agent / create in every space, move_to_empty, "
        "move_agent_to_one_of (random / closest), reset_randomizer (with / without seed), shuffle_do, select_random_cell / _agent, "
        "select_random_empty_cell (both strategies).  'env' histories (implementation against implementation, fresh interpreters under "
        "PYTHONHASHSEED 0,1,2 - 8 values in thorough): each of the nine bundled examples measured fresh and again after same-class "
        "instances with hand-written non-default constructor arguments and other models ran in the process; batches of random API scripts "
        "over 9 space kinds and 12 seed forms (seed = int, float, str, > 2^64, bool; rng = int, > 2^64, numpy int, SeedSequence, Generator, "
        "list, array) with falsy / sized-empty agents, a sub-subclass, a mixin after the framework base, abandoned iterators, rejected calls "
        "followed by more steps, DataCollectors whose model reporters (function, method, attribute, [function, args], partial) and agent reporters are module-level functions drawing from the generators, nearly full capacity-1 grids relocated under both empty-cell strategies, measured fresh and again after a "
        "prior model that was given the very same graph / PropertyLayer / list / dict objects plus an allocation churn; re-seeding replays "
        "through 11 collections derived before the reset for all 12 seed forms; the seed+rng ValueError boundary; batch_run with 1/2(/3) "
        "spawn workers and batch_run(number_processes=1) over one shared graph against pristine graphs; a USER-CODE stream, implementation + oracle only (agents in reference cycles whose constructors / steps raise and are caught, agents that create agents or remove themselves / others during do / shuffle_do / map / GroupBy.do activations, value-based __eq__ / __hash__, overridden register / deregister / remove hooks, a docstring-only subclass), each seeded model run under forced collector regimes (collector off, gc.collect() before every model step, inside every agent step, default) that must agree; a SCALE stream (radius 9-13 neighbourhood walks on 20x20 Moore and 30x30 hex spaces, 1100 agents, 260 steps, 40 models in the process, a 1030-agent model-tied world; larger in thorough).  non-trivial = a world history "
        "with >= 2 operations and a non-error observation, or an env history with a multi-step digest; distinct = by SHA1 of the history")
TRUSTED_BASE = [
    "Coq 8.16.1 kernel (coqc); vm_compute for finite facts about regenerated tables and for evaluating the model in the correspondence",
    "no axioms: Print Assumptions reports 'Closed under the global context' for all 39 C01 theorems (8 Examples show non-vacuity)",
    "T1 extractors harness/tables/c01_rng.py (argument of choice() in _Grid.move_to_empty; scan for uses of process-global generators incl. "
    "networkx generators called without seed=; scan for iteration over sets / dict-view differences without sorted()) and "
    "harness/tables/rng_code.py (scan of every constructor call of a generator-carrying class with the kind of `random=` handed over; "
    "Model.__init__ / reset_randomizer / reset_rng translated statement by statement by a pyexpr.Tr subclass, modulo local names, "
    "docstrings and message texts; ordered glue skeleton of Model.__init__; Agent.random / Agent.rng property bodies)",
    "harness/props/C01.py driver / observer / Gallina printer (T2 is differential testing, not a proof); test doubles RecRandom (records the "
    "index a choice / randrange drew) and PermSet (a set iterating in a salted order)",
    "Model/Rng.v and Model/Seed.v are hand transcriptions tied by the bridge lemmas of Proofs/RngBridge.v to the regenerated code; "
    "grid.empties is modelled by its specification (C08 checks it); cell connections and cutoff_empties are read from the running objects",
    "CPython: dict order, int / tuple / str-seed hashing independent of PYTHONHASHSEED, determinism of random.Random and numpy Generators "
    "(never modelled: outcomes are inputs of the model)",
    "'whatever process, hash seed, earlier history' is explored in fresh interpreters and spawn workers, not proved",
]
ASSUMPTIONS = [
    "reset_rng() without argument re-seeds from entropy by design (tests pin it) and is not checked; explicit reset_rng(seed) replay is "
    "demanded for seed=int and rng=int only: a model built from SeedSequence / Generator / list / array / numpy int spends one draw of "
    "model.rng on seeding model.random, and one built from a float or str seed spends one draw of model.random on seeding model.rng, so "
    "for those forms 'a fresh model with the same seed draws the same' and generator identities are demanded instead of replay after reset",
    "positions inside continuous spaces and Voronoi geometry are not in the Gallina model (cells and connections are data read from the "
    "running space); float at_most fractions are exercised by the API scripts only; digests compare floats bit-exactly via repr",
    "class-level data of example models is reported as a diagnosis hint only; a verdict needs a differing trajectory / collected data",
    "KNOWN FINDING C01/usercode/remove-other-in-activation/depends-on-gc-timing: activations call every agent that is still alive, not every "
    "agent that is still a member, so an agent removed earlier in the same activation but kept alive by a reference cycle is called or not "
    "depending on when the cyclic collector runs; not small and safe to repair (C04's statement allows calling removed-but-referenced agents); "
    "the Gallina model has no notion of liveness (its ShuffleDo activates the members of a derivation, without churn)",
    "defects found and repaired by this property: VirusOnNetwork graph without seed=, ConwaysGameOfLife grid without random=, "
    "Model(rng=int)._seed not recorded (fixes/C01-1..3, committed in /repo); _Grid.agents dropping agents whose truth value is False "
    "(fixes/C01-4, found in round 5)",
]
LEVEL_TEXT = ("39 machine-checked Coq theorems (closed under the global context) over two Gallina models. Model/Rng.v: which generator every "
              "AgentSet / CellCollection carries and what the random choices are functions of - any nesting of select / shuffle / sort / "
              "groupby / copy from model.agents, agents_by_type, the agents of a cell space, of a legacy SingleGrid and of MultiGrid / hex / "
              "network / continuous spaces carries model.random unless it goes through one of the documented unseeded fall-backs (exact "
              "characterisation gen_spec; the first-agent fall-back of legacy spaces as an explicit function), along every operation "
              "history incl. reset_randomizer (induction on terms and op lists); legacy move_to_empty and whole histories are invariant "
              "under every iteration order of the hash-ordered set of empties and land on an empty cell in both branches; both "
              "select_random_empty_cell strategies, select_random_cell/agent and move_agent_to_one_of (closest: never a nearer offer) are "
              "sound for every generator outcome; a shuffle is a permutation determined by member order and outcome; the registry stays in "
              "creation order. Model/Seed.v: Model.__init__ / reset_randomizer / reset_rng. Code-level T1 regenerates from the working tree "
              "the kind of generator handed to every constructor call in the package (C01_all_sites_propagate, C01_sites_match_model, "
              "headline theorem restated as C01_gen_of_source), the seed handling (bridge lemmas; C01_reset_replays_of_source: the recorded "
              "_seed is what model.random started from and reset re-seeds in place), the sorted() in move_to_empty, the absence of "
              "global-generator use and of unordered set iteration. The model is tied to the code by differential evaluation on random and "
              "enumerated histories (0 disagreements on 6000+ histories per thorough run).")
LEVEL_NOTE = ("partial by nature: 'whatever process, hash seed and earlier history' is runtime behaviour no executable model exhibits; it is "
              "explored implementation-against-implementation (per-step digests incl. DataFrames and property layers of all nine examples "
              "and of random API scripts in fresh interpreters, after prior histories, in spawn workers), not proved. Theorems are about "
              "the models; oracle-only: trajectories, global generator state, batch_run, NumPy draws, continuous / Voronoi geometry.")
TECHNIQUE = ("Coq proof (induction on derivation terms and operation lists, permutation / sorting lemmas, refinement to a specification) + "
             "code-level T1 (AST scans and a pyexpr translation of the seed handling with bridge lemmas) + vm_compute correspondence with "
             "recorded random outcomes + multi-process differential exploration")
DESIGN_REF = "DESIGN.md section 4, C01"


if __name__ == "__main__":
    if "--worker" in sys.argv:
        worker_main()
        sys.exit(0)
