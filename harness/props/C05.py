"""C05 - every step() call advances model.steps by exactly one, before user code.
Model: coq/Model/StepCounter.v.  Class hierarchies are built with type() from a list of level
descriptions; user step bodies log what they see."""
import itertools

import coqlit as L

ID = "C05"
COQ_PROPERTY_FILE = "Properties/C05.v"
COQ_DEPS = ["Common/ListX.v", "Common/ObsHash.v", "Generated/Tables.v", "Model/C3.v", "Model/StepCounter.v",
            "Proofs/StepCounterProofs.v"]
COQ_IMPORTS = "From Mesa Require Import Model.StepCounter."
COQ_CASE_TYPE = "case"
COQ_RUN = "run_case"
TABLE_CONSTRUCTS = ["wrapped_step_order", "run_model_loop"]
RULE = ("histories = 1-3 Model subclass hierarchies of depth 0-6 built with type() (each level: defines step or not, "
        "fixed arity 0-2 or *args/**kwargs, calls super().step() forwarding its arguments or none, clears running at a threshold, "
        "raises at a step number - a private exception, StopIteration, KeyError, AttributeError, IndexError or GeneratorExit -, "
        "calls self.step() recursively below a threshold), half of the deeper ones with MULTIPLE "
        "inheritance (every class lists the next level first, then any later ones; 8 % with a reversed base list that must be "
        "refused), a quarter of the classes with falsy instances (__bool__ False, __len__ 0), a quarter with a step-defining mixin "
        "placed AFTER Model in the bases (must never run) + 1-4 instances (several of one class too) + 4-30 interleaved "
        "step(*args, **kwargs) calls - made directly or through an AgentSet holding the model (do / shuffle_do / map(\"step\")) - with matching and mismatching argument lists (0-3, sometimes 6 arguments; in 30 % of the "
        "histories the arguments are twelve exotic objects - None, float, str, tuple, bool, 2**70, numpy scalar, 0-d array, [], dict, "
        "Decimal, Fraction - mapped back by identity), run_model() and running = True/False (also numpy bools, ints, str, None as the flag), pickle round trips (protocols 0-5 and "
        "default, directly or through a pickled agent / AgentSet of the model) and deepcopies of an instance mid-history with stepping "
        "continuing on the copy and on the original, continuing after TypeError and user "
        "exceptions; a SCALE stream in every run (counters crossing 256 / 257 / 1000 / 1024 - 17 thresholds from 8 to 1025 in the thorough tier and whenever the source moved - through run_model up to a stop threshold, direct step() calls across it, pickled / deep-copied instances stepped further, run_model again, inherited and super-called steps); every body logs self.steps, self.running and its arguments; the first part of every run enumerates all "
        "hierarchies of depth <= 3 over 10 level kinds (depth 4 in the thorough tier); non-trivial = at least 2 step/run_model calls "
        "of which one executed user code; distinct = by SHA1 of the history")
TRUSTED_BASE = [
    "Coq 8.16.1 kernel (coqc); vm_compute used for evaluating the model in the correspondence, for the examples and for "
    "C05_generated_mro_is_c3 (33 869 hierarchies); coqchk in the thorough tier",
    "no axioms: Print Assumptions reports 'Closed under the global context' for every C05 theorem",
    "harness/tables/registry.py (T1): statement order of _wrapped_step (translated), statement skeletons of Model.__init__ (initial "
    "steps/running, step rebinding), run_model and Model.step, modulo local names, docstrings, annotations, logger calls, message "
    "texts; C05_source_shape proves generated = what Model/StepCounter.v hard-codes",
    "harness/props/C05.py driver+observer, oracle and the Gallina literal printer (T2, differential testing, not a proof)",
    "Model/StepCounter.v is a hand transcription of Model.__init__ (step rebinding), _wrapped_step, run_model and of CPython "
    "attribute lookup (instance attribute before class attribute, first definer along the MRO, super() = next definer, TypeError "
    "on arity mismatch before the body runs); Model/C3.v is the merge algorithm of type.mro, compared with CPython's __mro__ by the driver",
    "Uint63 primitive hash only in scratch Cases files, never under a theorem",
]
ASSUMPTIONS = [
    "user step code does not assign self.steps or self.step and does not touch another model; recursion is `if self.steps < k: "
    "self.step()` (model fuel 40 deep; theorems exclude fuel exhaustion)",
    "a hierarchy is used as its MRO: for multiple inheritance NewInstance checks with the C3 merge that the declared base lists "
    "linearise to the order of the levels (refused otherwise, in the model and by the driver)",
    "run_model is only exercised on classes that define step somewhere (otherwise it cannot terminate); the harness aborts a "
    "run_model loop after a fixed number of calls and the model does the same (fuel)",
    "keyword arguments are canonicalised by the driver (the model sees one positional list)",
]
SOURCE_FUNCS = [("mesa/model.py", "Model.__init__"), ("mesa/model.py", "Model._wrapped_step"), ("mesa/model.py", "Model.run_model"),
                ("mesa/model.py", "Model.step")]
FUEL = 14


# ------------------------------------------------------------------ generation
def _lvl(d, arity=-1, sup=False, fwd=False, stop=None, rz=None, rec=None):
    return {"def": bool(d), "arity": arity, "super": bool(sup), "fwd": bool(fwd), "stop": stop, "raise": rz, "rec": rec}


def _gen_level(rng):
    if rng.random() < 0.4:
        return _lvl(False)
    arity = rng.choice([-1, -1, -1, 0, 0, 1, 2])
    sup = rng.random() < 0.6
    fwd = rng.random() < 0.6
    stop = rng.randint(1, 9) if rng.random() < 0.5 else None
    rz = rng.randint(1, 7) if rng.random() < 0.1 else None
    return _lvl(True, arity, sup, fwd, stop, rz)


def _add_recursion(rng, levels):
    """some bodies call self.step() again while self.steps is below a small threshold"""
    for lv in levels:
        if lv["def"] and rng.random() < 0.5:
            lv["rec"] = rng.randint(2, 9)


def _gen_bases(rng, n):
    """a multiple-inheritance DAG over the levels whose C3 linearisation is the index order: every class lists
    the next one first and then any later ones (ascending)"""
    bases = []
    for i in range(n):
        if i == n - 1:
            bases.append([])
        else:
            extra = [j for j in range(i + 2, n) if rng.random() < 0.5]
            bases.append([i + 1] + extra)
    return bases


def _resolved(levels):
    for i, lv in enumerate(levels):
        if lv["def"]:
            return i
    return None


N_EXOTIC = 12
CLONE_KINDS = ["pickle0", "pickle1", "pickle2", "pickle3", "pickle4", "pickle5", "pickle_default", "pickle_agent",
               "pickle_agentset", "deepcopy", "copy_agent"]


def _exotic_table():
    import decimal
    import fractions

    import numpy as np

    return [None, 1.5, "txt", (1, 2), True, 2 ** 70, np.int64(3), np.array(5), [], {"a": 1}, decimal.Decimal("0.1"),
            fractions.Fraction(1, 3)]


def _gen_args(rng, levels, exotic=False):
    r = _resolved(levels)
    ar = 0 if r is None else levels[r]["arity"]
    if ar < 0:
        n = rng.choice([0, 0, 1, 2, 3, 6])
    elif rng.random() < 0.85:
        n = ar
    else:
        n = rng.choice([0, 1, 2, 3])
    # exotic histories: the int i stands for the i-th object of _exotic_table() (None, float, str, tuple, bool, a huge int,
    # numpy scalar, 0-d array, an empty list, a dict, Decimal, Fraction); the driver passes THAT object and maps what the
    # user code received back by identity, so the model and the oracle see "the caller's arguments, unchanged"
    args = rng.sample(range(N_EXOTIC), min(n, N_EXOTIC)) if exotic else [rng.randint(-5, 20) for _ in range(n)]
    nkw = rng.choice([0, 0, 1, n]) if n else 0
    return args, min(nkw, n)


def _gen_history(rng):
    ncls = rng.choice([1, 1, 2, 3])
    exotic = rng.random() < 0.3
    classes = []
    bases = []
    for _ in range(ncls):
        depth = rng.choice([0, 1, 1, 2, 2, 3, 3, 4, 5, 6])
        levels = [_gen_level(rng) for _ in range(depth)]
        if rng.random() < 0.25:
            _add_recursion(rng, levels)
        classes.append(levels)
        b = _gen_bases(rng, depth) if depth >= 3 and rng.random() < 0.5 else None
        if b is not None and len(b[0]) >= 2 and rng.random() < 0.08:
            b[0] = list(reversed(b[0]))     # an MRO that is NOT the level order (or none at all): must be refused
        bases.append(b)
    ops = []
    inst_cls = []
    for _ in range(rng.choice([1, 2, 2, 3])):
        c = rng.randrange(ncls)
        ops.append(["new", c])
        inst_cls.append(c)
    for _ in range(rng.randint(4, 30)):
        r = rng.random()
        i = rng.randrange(len(inst_cls))
        if r < 0.62:
            args, nkw = _gen_args(rng, classes[inst_cls[i]], exotic)
            # a call of model.step() by ANY caller: directly, or through an AgentSet holding the model - do / shuffle_do / map("step")
            ops.append(["step", i, args, nkw, rng.choice([0, 0, 0, 1, 2, 3])])
        elif r < 0.8:
            ops.append(["run", i, FUEL])
        elif r < 0.87 and len(inst_cls) < 6:
            # a pickle round trip (protocols 0-5, directly or through a pickled agent / AgentSet of the model) or a deepcopy:
            # stepping continues on the restored instance AND on the original
            ops.append(["clone", i, rng.choice(CLONE_KINDS)])
            inst_cls.append(inst_cls[i])
        elif r < 0.93:
            # `running` is any object with a truth value: also numpy bools, a remaining-rounds int, a str, None
            ops.append(["set_running", i, rng.random() < 0.6, rng.randrange(5) if rng.random() < 0.5 else 0])
        elif len(inst_cls) < 4:
            c = rng.randrange(ncls)
            ops.append(["new", c])
            inst_cls.append(c)
    # per class: instances are falsy (__bool__ False, __len__ 0); a mixin defining step is placed AFTER Model in the bases
    # of the bottom class (Model.step does not call super().step(), so that step must never run)
    return {"classes": classes, "bases": bases, "ops": ops, "exotic": exotic,
            "falsy": [rng.random() < 0.25 for _ in classes], "mixin_after": [rng.random() < 0.25 for _ in classes]}


_KINDS = [_lvl(False)] + [
    _lvl(True, ar, sup, fwd) for ar in (-1, 0, 1) for (sup, fwd) in ((False, False), (True, False), (True, True))
]


def _shape_case(shape, variant):
    levels = [dict(_KINDS[k]) for k in shape]
    r = _resolved(levels)
    if r is not None:
        levels[r]["stop"] = 4
    if variant == 1 and levels:
        # a threshold further down the chain and a raising level
        levels[-1]["stop"] = 2
        levels[0]["raise"] = 3
    ar = 0 if r is None else levels[r]["arity"]
    good = [] if ar <= 0 else [7] * ar
    ops = [["new", 0], ["new", 0], ["step", 0, good, 0], ["step", 1, [5] if ar < 0 else good, 1 if (ar != 0) else 0],
           ["step", 0, [5, 6], 1], ["step", 0, good, 0], ["run", 1, FUEL], ["run", 0, FUEL],
           ["set_running", 0, True], ["run", 0, FUEL], ["step", 1, [], 0],
           ["clone", 0, CLONE_KINDS[(len(shape) + sum(shape)) % len(CLONE_KINDS)]], ["step", 2, good, 0], ["step", 0, good, 0],
           ["clone", 2, "deepcopy"], ["step", 3, good, 0], ["set_running", 2, True], ["run", 2, FUEL]]
    return {"classes": [levels], "ops": ops}


def _all_shapes(depth):
    for d in range(depth + 1):
        yield from itertools.product(range(len(_KINDS)), repeat=d)


# ---- SCALE stream (harness/SCALE_NOTE.md): counters that CROSS 8, 16, ..., 255/256/257 (CPython's small-int cache: `is` instead of
# `==` works below), 1000/1001, 1024/1025, ... through every stepping path: run_model up to a stop threshold, direct step() calls
# across it, copies (pickle / deepcopy) stepped further, run_model again, a super-called level and an inherited step.
SCALE_QUICK = [256, 257, 1000, 1024]
SCALE_THOROUGH = [8, 16, 32, 64, 100, 128, 129, 255, 256, 257, 258, 512, 513, 1000, 1001, 1024, 1025]


def _scale_case(t, variant):
    top = _lvl(True, -1, sup=True, fwd=False, stop=t - 2)
    levels = {0: [top], 1: [_lvl(False), top, _lvl(True, 0, stop=t + 3)], 2: [_lvl(True, 0, sup=True, stop=t - 2), _lvl(True, -1)]}[variant % 3]
    far = [_lvl(True, -1, stop=t + 2)]
    kinds = CLONE_KINDS
    ops = [["new", 0], ["new", 1], ["run", 0, t + 5],                      # -> steps = t - 2 through run_model
           ["step", 0, [], 0, 1], ["step", 0, [], 0, 2], ["step", 0, [], 0, 3],    # t - 1, t, t + 1 through AgentSet do / shuffle_do / map
           ["clone", 0, kinds[t % len(kinds)]], ["step", 2, [], 0], ["step", 2, [], 0],
           ["set_running", 0, True, 1], ["run", 0, 5], ["set_running", 2, True, 3], ["run", 2, 5],
           ["run", 1, t + 8],                                             # 0 -> t + 2 in one run_model
           ["clone", 1, "deepcopy"], ["step", 3, [7], 0], ["step", 1, [7, 8], 1], ["step", 0, [], 0]]
    return {"classes": [levels, far], "ops": ops, "scale": t}


def _scale_cases(tier):
    ts = SCALE_QUICK if tier == "quick" else SCALE_THOROUGH
    return [_scale_case(t, i) for i, t in enumerate(ts)]


def gen_cases(rng, tier):
    cases = _scale_cases(tier) + [_shape_case(s, 0) for s in _all_shapes(3)]
    n = 400 if tier == "quick" else 8000
    for _ in range(n):
        cases.append(_gen_history(rng))
    return cases


def enumerate_cases(tier, broken=False):
    """all hierarchies of depth <= 3 (4 in the thorough tier) over the 10 level kinds, second call pattern"""
    if broken:
        yield from _scale_cases("thorough")
    for s in _all_shapes(4 if tier == "thorough" else 3):
        yield _shape_case(s, 1)
        if len(s) == 4:
            yield _shape_case(s, 0)


# ------------------------------------------------------------------ implementation side
class _Boom(Exception):
    pass


class _Budget(Exception):
    pass


class _BadMRO(Exception):
    pass


_UID = [0]


def _reg(cls):
    """make a class built with type() picklable by reference: a unique module-level name in this module"""
    import sys

    _UID[0] += 1
    name = f"{cls.__name__}_{_UID[0]}"
    cls.__name__ = cls.__qualname__ = name
    cls.__module__ = __name__
    setattr(sys.modules[__name__], name, cls)
    return cls


class _Driver:
    def __init__(self, case):
        import mesa

        self.mesa = mesa
        self.specs = case["classes"]
        bases = case.get("bases") or [None] * len(self.specs)
        self.depth = 0
        self.xtable = _exotic_table() if case.get("exotic") else None
        falsy = case.get("falsy") or [False] * len(self.specs)
        mixin = case.get("mixin_after") or [False] * len(self.specs)
        self.classes = []
        for ci, lv in enumerate(self.specs):
            try:
                self.classes.append(self.mk_class(ci, lv, bases[ci], falsy[ci], mixin[ci]))
            except (_BadMRO, TypeError):
                self.classes.append(None)   # CPython's MRO is not the level order / cannot be built: not instantiated
        self.insts = []
        self.inst_cls = []
        self.log = []
        self.budget = None
        self.calls = 0
        self.failures = []
        self.opi = 0

    def fail(self, key, what):
        if not any(f["key"] == key for f in self.failures):
            self.failures.append({"key": key, "op": self.opi, "what": what})

    def index_of(self, m):
        for i, x in enumerate(self.insts):
            if x is m:
                return i
        return -7

    def unx(self, x):
        """what the user code received, as the int the history used for it (identity, not equality)"""
        if self.xtable is None:
            return int(x)
        for i, o in enumerate(self.xtable):
            if o is x:
                return i
        return -99

    def mk_class(self, ci, levels, bases=None, falsy=False, mixin_after=False):
        parent = self.mesa.Model
        if mixin_after:
            drv0 = self

            class StepMixin:
                def step(self, *args, **kwargs):      # shadowed by Model.step: must never run
                    drv0.log.append((drv0.index_of(self), 99, self.steps, bool(self.running), []))

            _reg(StepMixin)
            parent = _reg(type(f"C{ci}Root", (self.mesa.Model, StepMixin), {}))
        root = parent
        res = _resolved(levels)
        drv = self
        built = {}
        for idx in reversed(range(len(levels))):
            lv = levels[idx]
            holder = []
            ns = {}
            if lv["def"]:
                def body(self, args, kwargs, idx=idx, lv=lv, holder=holder):
                    if idx == res and drv.depth == 0:
                        drv.calls += 1
                        if drv.budget is not None and drv.calls > drv.budget:
                            raise _Budget
                    allargs = [drv.unx(a) for a in args] + [drv.unx(kwargs[k]) for k in sorted(kwargs)]
                    drv.log.append((drv.index_of(self), idx, self.steps, bool(self.running), allargs))
                    if lv["raise"] is not None and self.steps == lv["raise"]:
                        # user code raising half-way, also with the "control-flow" exception types a library might swallow
                        exc = [_Boom, StopIteration, KeyError, AttributeError, IndexError, GeneratorExit][lv["raise"] % 6]("user code")
                        exc._verif_user = True
                        raise exc
                    if lv.get("rec") is not None and self.steps < lv["rec"]:
                        drv.depth += 1
                        try:
                            self.step()      # the instance attribute: through the counting wrapper again
                        finally:
                            drv.depth -= 1
                    if lv["super"]:
                        if lv["fwd"]:
                            super(holder[0], self).step(*args, **kwargs)
                        else:
                            super(holder[0], self).step()
                    if lv["stop"] is not None and self.steps >= lv["stop"]:
                        self.running = False

                if lv["arity"] < 0:
                    src = "def step(self, *args, **kwargs):\n    return _body(self, args, kwargs)\n"
                else:
                    ps = ", ".join(f"p{j}" for j in range(lv["arity"]))
                    src = f"def step(self{', ' if ps else ''}{ps}):\n    return _body(self, ({ps}{',' if ps else ''}), {{}})\n"
                env = {"_body": body}
                exec(src, env)  # noqa: S102 - the source is generated two lines above
                ns["step"] = env["step"]
            if bases is not None and bases[idx]:
                cls = _reg(type(f"C{ci}L{idx}", tuple(built[b] for b in bases[idx]), ns))
            else:
                cls = _reg(type(f"C{ci}L{idx}", (parent if bases is None else root,), ns))
            built[idx] = cls
            holder.append(cls)
            parent = cls
        if falsy:
            top = built[0] if (bases is not None and levels) else parent
            parent = _reg(type(f"C{ci}Falsy", (top,), {"__bool__": lambda self: False, "__len__": lambda self: 0}))
            if bases is not None and levels:
                built = dict(built)
                mro = [c for c in top.__mro__ if c in built.values()]
                if mro != [built[k] for k in range(len(levels))]:
                    raise _BadMRO(f"the multiple-inheritance DAG {bases} does not linearise to the level order")
                return parent
            return parent
        if bases is not None and levels:
            mro = [c for c in built[0].__mro__ if c in built.values()]
            if mro != [built[k] for k in range(len(levels))]:
                raise _BadMRO(f"the multiple-inheritance DAG {bases} does not linearise to the level order")
            return built[0]
        return parent

    # the property's own reading of which user bodies one call must run (first definer, then each super() call)
    def expect(self, levels, args, seen):
        def call(idx, args):
            while idx < len(levels) and not levels[idx]["def"]:
                idx += 1
            if idx == len(levels):
                return [], ("ok" if not args else "type")
            lv = levels[idx]
            if lv["arity"] >= 0 and lv["arity"] != len(args):
                return [], "type"
            evs = [(idx, list(args))]
            if lv["raise"] is not None and seen == lv["raise"]:
                return evs, "boom"
            if lv["super"]:
                e2, st = call(idx + 1, args if lv["fwd"] else [])
                evs += e2
                if st != "ok":
                    return evs, st
            return evs, "ok"

        return call(0, list(args))

    def check_recursive(self, i, levels, s0, evs, status, what, before, m):
        """a class whose bodies call self.step() again: every call, outer or nested, must be counted once and before
        its user code: the resolved body sees s0+1, s0+2, ... and steps ends at the last value seen"""
        res = _resolved(levels)
        tops = [e[2] for e in evs if e[1] == res]
        ar = None if res is None else levels[res]["arity"]
        if ar is not None and ar <= 0 and (tops or status == [0]):
            # nested self.step() calls are accepted: one resolved body per call
            if tops != list(range(s0 + 1, s0 + 1 + len(tops))):
                self.fail("C05/Model.step/counter-not-advanced-before-user-code",
                          f"{what} (recursive self.step()): successive calls saw self.steps = {tops}, must see {s0 + 1}, {s0 + 2}, ...")
            if m.steps != s0 + len(tops) or not tops:
                self.fail("C05/Model.step/steps-not-advanced-by-exactly-one",
                          f"{what} (recursive self.step()): {len(tops)} calls ran the user step, steps went from {s0} to {m.steps}")
        elif ar is not None and ar >= 1:
            # a nested self.step() is counted and then rejected (TypeError) before any user code
            if any(e[2] != s0 + 1 for e in evs):
                self.fail("C05/Model.step/counter-not-advanced-before-user-code",
                          f"{what} (recursive self.step(), step takes {ar} parameters): bodies saw {[e[2] for e in evs]}, must see {s0 + 1}")
            if not (m.steps == s0 + 1 or (m.steps == s0 + 2 and status == [-1, 2])):
                self.fail("C05/Model.step/steps-not-advanced-by-exactly-one",
                          f"{what} (recursive self.step(), step takes {ar} parameters): steps went from {s0} to {m.steps} with outcome {status}")
        elif m.steps < s0 + 1:
            self.fail("C05/Model.step/steps-not-advanced-by-exactly-one", f"{what}: steps is {m.steps} afterwards")
        if any(e[0] != i for e in evs):
            self.fail("C05/Model.step/user-step-bodies-not-run-exactly-once", f"{what}: bodies of other instances ran")
        for j, (a, b) in enumerate(zip(before, self.states())):
            if j != i and a != b:
                self.fail("C05/Model.step/other-model-changed", f"{what}: instance {j} went from {a} to {b}")
        return status + [int(m.steps), 1 if m.running else 0, len(evs)] + self.enc_events(evs)

    def states(self):
        return [(m.steps, bool(m.running)) for m in self.insts]

    def view(self):
        out = [-100]
        for m in self.insts:
            out += [int(m.steps), 1 if m.running else 0]
        return out

    @staticmethod
    def enc_events(evs):
        out = []
        for (inst, lvl, seen, run, args) in evs:
            out += [inst, lvl, int(seen), 1 if run else 0, len(args)] + args
        return out

    def run_op(self, op):
        kind = op[0]
        if kind == "new":
            c = op[1]
            if not 0 <= c < len(self.classes):
                return [-2]
            if self.classes[c] is None:
                return [-3]
            m = self.classes[c]()
            self.insts.append(m)
            self.inst_cls.append(c)
            if m.steps != 0 or m.running is not True:
                self.fail("C05/Model.__init__/initial-state", f"a new model has steps={m.steps!r}, running={m.running!r}")
            return [len(self.insts) - 1]
        i = op[1]
        if not 0 <= i < len(self.insts):
            return [-2]
        m = self.insts[i]
        levels = self.specs[self.inst_cls[i]]
        before = self.states()
        s0 = before[i][0]
        if kind == "set_running":
            import numpy as np

            k = op[3] if len(op) > 3 else 0
            m.running = ([True, np.bool_(True), 1, 3, "yes"] if op[2] else [False, np.bool_(False), 0, None, ""])[k % 5]
            return [0]
        if kind == "clone":
            import copy
            import pickle

            how = op[2]
            if how.startswith("pickle") and how[6:].isdigit():
                r = pickle.loads(pickle.dumps(m, protocol=int(how[6:])))
            elif how == "pickle_default":
                r = pickle.loads(pickle.dumps(m))
            elif how == "deepcopy":
                r = copy.deepcopy(m)
            else:
                if len(m.agents) == 0:
                    self.mesa.Agent(m)
                if how == "pickle_agent":
                    r = pickle.loads(pickle.dumps(m.agents[0], protocol=pickle.HIGHEST_PROTOCOL)).model
                elif how == "copy_agent":
                    r = copy.deepcopy(m.agents[0]).model
                else:
                    r = next(iter(pickle.loads(pickle.dumps(m.agents)))).model
            what = f"instance {i} (class levels {levels}) restored through {how} with steps={s0}, running={before[i][1]}"
            if r is m or type(r) is not type(m):
                self.fail("C05/Model.copy/not-a-new-instance-of-the-class", f"{what}: got {type(r).__name__}, same object: {r is m}")
            if (r.steps, bool(r.running)) != before[i] or self.states()[i] != before[i]:
                self.fail("C05/Model.copy/counter-not-carried-over",
                          f"{what}: the copy has steps={r.steps}, running={r.running}; the original now {self.states()[i]}")
            self.insts.append(r)
            self.inst_cls.append(self.inst_cls[i])
            return [len(self.insts) - 1]
        start = len(self.log)
        self.calls = 0
        self.budget = None
        if kind == "step":
            args, nkw = op[2], op[3]
            sent = [self.xtable[a % N_EXOTIC] for a in args] if self.xtable is not None else list(args)
            pos = sent[: len(args) - nkw]
            kw = {f"p{j}": sent[j] for j in range(len(args) - nkw, len(args))}
            status = [0]
            via = op[4] if len(op) > 4 else 0
            try:
                if via == 0:
                    m.step(*pos, **kw)
                else:
                    aset = self.mesa.agent.AgentSet([m], random=m.random)
                    getattr(aset, ["do", "shuffle_do", "map"][via - 1])("step", *pos, **kw)
            except TypeError:
                status = [-1, 2]
            except (_Boom, StopIteration, KeyError, AttributeError, IndexError, GeneratorExit) as e:
                if not getattr(e, "_verif_user", False):
                    raise
                status = [-1, 3]
            evs = self.log[start:]
            what = f"instance {i} (class levels {levels}) step(*{pos}, **{kw}) with steps={s0} before"
            recursive = any(lv.get("rec") is not None for lv in levels)
            if recursive:
                return self.check_recursive(i, levels, s0, evs, status, what, before, m)
            if m.steps != s0 + 1:
                self.fail("C05/Model.step/steps-not-advanced-by-exactly-one", f"{what}: steps is {m.steps} afterwards")
            if any(e[2] != s0 + 1 for e in evs):
                self.fail("C05/Model.step/counter-not-advanced-before-user-code",
                          f"{what}: user code saw self.steps = {[e[2] for e in evs]}, must see {s0 + 1}")
            exp, est = self.expect(levels, args, s0 + 1)
            if [e[1] for e in evs] != [e[0] for e in exp] or any(e[0] != i for e in evs):
                self.fail("C05/Model.step/user-step-bodies-not-run-exactly-once",
                          f"{what}: bodies run at levels {[e[1] for e in evs]} (instances {[e[0] for e in evs]}), expected levels {[e[0] for e in exp]} once each")
            elif [e[4] for e in evs] != [e[1] for e in exp]:
                self.fail("C05/Model.step/arguments-not-passed-through",
                          f"{what}: bodies received {[e[4] for e in evs]}, expected {[e[1] for e in exp]}")
            if (status == [0]) != (est == "ok"):
                self.fail("C05/Model.step/unexpected-outcome", f"{what}: outcome {status}, expected {est}")
            for j, (a, b) in enumerate(zip(before, self.states())):
                if j != i and a != b:
                    self.fail("C05/Model.step/other-model-changed", f"{what}: instance {j} went from {a} to {b}")
            return status + [int(m.steps), 1 if m.running else 0, len(evs)] + self.enc_events(evs)
        if kind == "run":
            res = _resolved(levels)
            if res is None:
                return [-2]
            self.budget = op[2]
            status = [0]
            try:
                m.run_model()
            except TypeError:
                status = [-1, 2]
            except (_Boom, StopIteration, KeyError, AttributeError, IndexError, GeneratorExit) as e:
                if not getattr(e, "_verif_user", False):
                    raise
                status = [-1, 3]
            except _Budget:
                status = [-4]
            finally:
                self.budget = None
            evs = self.log[start:]
            what = f"instance {i} (class levels {levels}) run_model() with steps={s0}, running={before[i][1]} before"
            tops = [e for e in evs if e[1] == res]
            if any(lv.get("rec") is not None for lv in levels):
                if before[i][1] and status != [-4]:
                    return self.check_recursive(i, levels, s0, evs, status, what, before, m)
                return status + [int(m.steps), 1 if m.running else 0, len(evs)] + self.enc_events(evs)
            if not before[i][1]:
                if evs or m.steps != s0:
                    self.fail("C05/Model.run_model/stepped-while-not-running", f"{what}: steps {m.steps}, user bodies run {len(evs)}")
            else:
                if [e[2] for e in tops] != list(range(s0 + 1, s0 + 1 + len(tops))):
                    self.fail("C05/Model.step/counter-not-advanced-before-user-code",
                              f"{what}: successive calls saw self.steps = {[e[2] for e in tops]}")
                if any(not e[3] for e in tops):
                    self.fail("C05/Model.run_model/stepped-while-not-running",
                              f"{what}: a step was made although running was already False")
                top_runs = levels[res]["arity"] <= 0
                ncalls = (len(tops) + (1 if status == [-4] else 0)) if top_runs else 1
                if m.steps != s0 + ncalls:
                    self.fail("C05/Model.step/steps-not-advanced-by-exactly-one",
                              f"{what}: {ncalls} calls were made, steps went from {s0} to {m.steps}")
                if status == [0] and m.running:
                    self.fail("C05/Model.run_model/returned-while-running", f"{what}: returned with running still True")
                if status == [0] and len(tops) == 0:
                    self.fail("C05/Model.run_model/did-not-step", f"{what}: running was True but no step was made")
            for j, (a, b) in enumerate(zip(before, self.states())):
                if j != i and a != b:
                    self.fail("C05/Model.step/other-model-changed", f"{what}: instance {j} went from {a} to {b}")
            return status + [int(m.steps), 1 if m.running else 0, len(evs)] + self.enc_events(evs)
        raise ValueError(op)


def run_impl(case):
    drv = _Driver(case)
    obs = []
    for i, op in enumerate(case["ops"]):
        drv.opi = i
        try:
            r = drv.run_op(op)
            obs.append(r + drv.view())
        except Exception as e:  # noqa: BLE001
            drv.budget = None
            obs.append([-1, 99])
            drv.fail(f"C05/{op[0]}/unexpected-exception", f"{op} raised {type(e).__name__}: {e}")
    return {"obs": obs, "failures": drv.failures}


# ------------------------------------------------------------------ model side
def _optz(v):
    return "None" if v is None else f"(Some {L.z(v)})"


def _level(lv):
    return (f"{{| l_def := {L.b(lv['def'])}; l_arity := {L.z(lv['arity'])}; l_super := {L.b(lv['super'])}; "
            f"l_fwd := {L.b(lv['fwd'])}; l_stop := {_optz(lv['stop'])}; l_raise := {_optz(lv['raise'])}; "
            f"l_rec := {_optz(lv.get('rec'))} |}}")


def _op(op):
    if op[0] == "new":
        return f"NewInstance {L.z(op[1])}"
    if op[0] == "step":
        return f"Step {L.z(op[1])} {L.zlist(op[2])}"
    if op[0] == "run":
        return f"RunModel {L.z(op[1])} {int(op[2])}%nat"
    if op[0] == "clone":
        return f"Clone {L.z(op[1])}"
    if op[0] == "set_running":
        return f"SetRunning {L.z(op[1])} {L.b(op[2])}"
    raise ValueError(op)


def coq_case(case):
    cs = L.lst([L.lst([_level(lv) for lv in c]) for c in case["classes"]])
    bases = case.get("bases") or [None] * len(case["classes"])
    bs = L.lst([L.lst([L.zlist(b) for b in (bb or [])]) for bb in bases])
    return f"{{| c_classes := {cs}; c_bases := {bs}; c_ops := {L.lst([_op(o) for o in case['ops']])} |}}"


def op_kinds(case):
    out = [f"scale/{case['scale']}steps"] if case.get("scale") else []
    for op in case["ops"]:
        if op[0] == "step":
            out.append(f"step/{len(op[2])}args/{op[3]}kw" + (["", "/via-do", "/via-shuffle_do", "/via-map"][op[4]] if len(op) > 4 else ""))
        elif op[0] == "clone":
            out.append(f"clone/{op[2]}")
        elif op[0] == "set_running":
            out.append(f"set_running/{op[2]}/kind{op[3] if len(op) > 3 else 0}")
        else:
            out.append(op[0])
    for ci, c in enumerate(case["classes"]):
        mi = "/multiple-inheritance" if (case.get("bases") or [None] * (ci + 1))[ci] else ""
        rc = "/recursive" if any(lv.get("rec") is not None for lv in c) else ""
        out.append(f"class/depth{len(c)}/" + "".join(("S" if lv["super"] else "D") if lv["def"] else "-" for lv in c) + mi + rc)
    return out


def nontrivial(case):
    obs = case.get("_obs", [])
    calls = [o for op, o in zip(case["ops"], obs) if op[0] in ("step", "run")]
    return len(calls) >= 2 and any(len(o) > 4 and o[0] == 0 and o[3] > 0 for o in calls)


LEVEL_TEXT = ("20 machine-checked Coq theorems (+ 7 examples) over Model/StepCounter.v, Model/C3.v, Proofs/StepCounterProofs.v, for every "
              "hierarchy (any depth, any subset of levels defining step, any arities, any subset calling super, diamonds and mixins via the "
              "MRO list), every argument list and every outcome (normal, TypeError, exception in user code): without recursion one call "
              "advances steps by exactly one, every user body runs after the increment and sees the new value, the bodies run are "
              "exactly the super chain from the first definer (each once; a prefix if one raises), the first receives the caller's "
              "arguments, a rejected call still counts; with recursive self.step() at any level and depth every call - outer or nested - "
              "is counted exactly once before its user code (resolved bodies see steps+1, steps+2, ..., final; variadic and "
              "parameterless steps), and with a parameterised step the nested call is counted, rejected, and unwinds the outer call; "
              "run_model performs exactly the calls made while running was true and returns with running false; in every interleaved "
              "history each instance ends where its own operations alone take it (projection) and steps counts the calls; a pickle round trip "
              "or deepcopy yields a new instance with the same counter that is an instance like any other; the C3 "
              "linearisation of every generator-shaped hierarchy of depth <= 7 is the level order. Tied to the code by T1 (statement "
              "order/skeletons re-read from the source on every run) and by differential evaluation under vm_compute on all hierarchies of "
              "depth <= 3 over 10 level kinds and random deeper ones (T2); an independent oracle states the property on the "
              "implementation and supplies the failing input.")
LEVEL_NOTE = ("Theorems are about the model; CPython's attribute lookup, super() and the call protocol are modelled, not verified; C3 is "
              "proved equal to the level order only for the generated family up to depth 7 (by computation), not for all depths. "
              "Outside the model: user assignments to steps/step, user code touching another model, classes whose __init__ skips "
              "super().__init__(). No defect of the unchanged tree in this area. Trusted: Coq kernel, the T1 extractor, the "
              "driver/observer. No axioms.")
TECHNIQUE = ("Coq proof (structural induction over hierarchies inside induction over recursion fuel, induction over op lists; closed "
             "under the global context) + source-regenerated statement order/skeletons (T1) + vm_compute correspondence and oracle (T2)")
DESIGN_REF = "DESIGN.md section 4, C05"
