"""C13 - batch_run covers the whole design once and reports consistent rows.
Model: coq/Model/Batch.v (re-uses Model/DataCollector.v); batch-run class: props/batch_models.py:BM."""
import itertools
import json
import os
import subprocess
import sys

import coqlit as L

ID = "C13"
COQ_PROPERTY_FILE = "Properties/C13.v"
COQ_DEPS = ["Common/ListX.v", "Common/ObsHash.v", "Generated/Tables.v", "Model/DataCollector.v", "Model/Batch.v",
            "Proofs/DataCollectorProofs.v", "Proofs/BatchProofs.v", "Proofs/BatchBridge.v"]
COQ_IMPORTS = "From Mesa Require Import Model.DataCollector Model.Batch."
COQ_CASE_TYPE = "Batch.case"
COQ_RUN = "Batch.run_case"
TABLE_CONSTRUCTS = ["br_loop_cond_code", "br_report_steps_code", "br_model_data_code", "br_param_values_code",
                    "br_runs_list_code", "br_results_code", "br_skeleton"]
SHRINK = True
RULE = ("histories = 1-2 batch_run calls (sometimes the very same call twice) on the scripted model class BM: parameter dictionaries "
        "over n, stop, ic, sc, ar, churn, k, mc, pat, mr (ints, None; pat = an explicit collection pattern, gaps and duplicates; mr = model reporters on/off) and two pass-through parameters (strings, dicts, lists, bool, floats incl. "
        "0.1, an int beyond 2^53 as values) given as scalars, strings, lists, tuples, ranges (incl. empty range -> no runs, empty list -> "
        "ValueError), numpy 0-d arrays (one value) and 1-d int arrays (their elements, empty -> no runs); iterations 1-3, max_steps "
        "-1..6, data_collection_period -1/1/2/3/7, display_progress on in 15%; models that stop early, collect 0-3 times at construction "
        "and 0-3 times inside every step with model-level and agent-level changes between the collects of one step (every agent "
        "removed / one created / the first removed / every agent removed at the final step), with/without agent reporters, with "
        "agent churn; three streams per run: 260 random cases, a 120-case slice of the targeted sweep (collect patterns x stop x "
        "max_steps x period; churn between collects; all pairs of parameter shapes), 40 cases of churn between collects, 40 cases of "
        "explicit collection patterns (gaps and duplicates), 6 SCALE cases (max_steps 255/256/257/258/300/512/1000 with periods 1, 2, 7, 50, "
        "64, 100, 128, 256, 257, 300, -1 and early stops at 256..512 on tiny models; designs of 200-600 runs; scalar parameters as numpy "
        "scalars and bools), 24 cases with USER CLASSES as parameter values (sequence-protocol only, __iter__ only, one-shot iterator, both, "
        "mapping-like, generators: swept element by element / key by key; str subclass and sized-but-not-iterable object incl. a falsy one: one "
        "value), 10 oracle-only SEEDED cases (seed / rng as int, str, float, bytes; reporters drawing from model.random and model.rng; serial "
        "= by hand = 2 spawned-worker calls without an inherited PYTHONHASHSEED); 4 (quick) / "
        "40 (thorough) calls with number_processes 2-3 run in a helper process and compared with the serial call and row by row "
        "with their run; the multiset of rows is observed; non-trivial = at least 2 rows; distinct = by SHA1")
TRUSTED_BASE = [
    "Coq 8.16.1 kernel (coqc); vm_compute used for finite facts and for evaluating the model in the correspondence",
    "no axioms: Print Assumptions reports 'Closed under the global context' for all 19 theorems of Properties/C13.v",
    "harness/props/C13.py driver+observer, props/batch_models.py (the batch-run model class, mirrored by Batch.v:bm_init/bm_mutate/"
    "bm_collects/bm_step) and the Gallina literal printer (T2, differential testing, not a proof)",
    "harness/pyexpr.py + harness/tables/datacollect_batch_code.py (code-level T1 on alpha-normalised functions): the loop condition "
    "(gen_loop_cond), the reported-steps computation (gen_report_steps), the position lookup / model_data comprehension "
    "(gen_positions, gen_model_data), the per-parameter str / empty / iterable decision (gen_param_values), the runs-list loop nest "
    "with its RunId counter (gen_runs_list) and the serial / imap_unordered result handling (gen_batch_results) are translated from "
    "the working tree on every run and bridged to the model in Proofs/BatchBridge.v; the remaining glue of _model_run_func / "
    "_collect_data is a normalised statement skeleton (gen_batch_skeleton_ok)",
    "Model/Batch.v is a hand transcription of mesa/batchrunner.py on top of Model/DataCollector.v; b_trace is a ghost field",
    "multiprocessing is not modelled: the delivery order of imap_unordered is an arbitrary permutation of the work list "
    "(C13_order_irrelevant, C13_eq_by_hand_of_source); rows are compared as multisets",
    "Uint63 primitive hash only in scratch Cases files, never under a theorem",
]
ASSUMPTIONS = [
    "requested steps = the steps at which the model collected that are multiples of data_collection_period (k >= 1), plus "
    "the last collection; period -1 = the last collection only; runs that never collect yield no rows",
    "a row of step s carries the LAST collection made at s (what _agent_records holds); the model class is deterministic",
    "parameter values are ints/None (also as numpy scalars) for the parameters BM interprets; everything else is passed through and "
    "must be echoed in the rows as the same value and type; iterations >= 1 and period in {-1} u {k >= 1} as in the quantifier",
]
NAMES = ["n", "stop", "ic", "sc", "ar", "churn", "k", "tag", "obj", "mc", "pat", "mr"]
MKEYS = ["Steps", "Sum", "K", "T"]
AKEYS = ["sv", "val"]
E_VALUE = 2
HERE = os.path.dirname(os.path.abspath(__file__))


# ------------------------------------------------------------------ generation
def _gen_param(rng, name, objects):
    """-> [name, kind, payload] with value codes (ints; -1 = None for stop; >= 1000 = objects[code-1000])"""
    if name in ("tag", "obj"):
        def code(pool):
            o = rng.choice(pool)
            for j, x in enumerate(objects):
                if type(x) is type(o) and x == o:
                    return 1000 + j
            objects.append(o)
            return 1000 + len(objects) - 1
        pool = ["a", "bc", "relu", ""] if name == "tag" else [{"key": "value"}, [1, 2], {"a": [1]}, "xy", [], True, 0.5, 0.1, 2 ** 60 + 1]
        kind = rng.choice(["str", "list", "tuple"]) if name == "tag" else rng.choice(["list", "list", "tuple"])
        if kind == "str":
            return [name, "str", code(["a", "bc", "sigmoid"])]
        return [name, kind, [code(pool) for _ in range(rng.randint(1, 2))]]
    dom = {"n": [0, 1, 2, 3], "stop": [-1, 1, 2, 3, 5], "ic": [0, 1, 2, 2, 3], "sc": [0, 1, 1, 2, 2, 3], "ar": [0, 1], "churn": [0, 1], "k": [0, 1, 7], "mc": [0, 1, 1, 2, 3, 4, 4]}[name]
    kind = rng.choice(["scalar", "scalar", "list", "list", "tuple", "range", "np0", "np1", "oneshot", "gen"])
    if name == "stop" and kind in ("range", "np0", "np1"):
        kind = "list"
    if kind in ("oneshot", "gen"):
        return [name, kind, [rng.choice(dom) for _ in range(rng.choice([1, 2, 2, 3]))]]
    if kind == "np0":
        return [name, "np0", rng.choice(dom)]
    if kind == "np1":
        return [name, "np1", [rng.choice(dom) for _ in range(rng.choice([0, 1, 2, 2, 3]) if rng.random() < 0.1 else rng.choice([1, 2, 2, 3]))]]
    if kind == "scalar":
        return [name, "scalar", rng.choice(dom)]
    if kind == "range":
        a = rng.choice([0, 0, 1])
        b = a + rng.choice([0, 1, 2, 2, 3]) if rng.random() < 0.95 else a
        b = min(b, max(dom) + 1)
        return [name, "range", [a, max(a, b), 1]]
    vals = [rng.choice(dom) for _ in range(rng.choice([1, 2, 2, 3]))]
    if rng.random() < 0.02:
        vals = []
    return [name, kind, vals]


def _gen_op(rng, objects, nproc=1):
    names = [n for n in NAMES[:10] if rng.random() < 0.45]     # (the collection pattern `pat` has streams of its own)
    rng.shuffle(names)
    params = []
    size = 1
    for n in names:
        p = _gen_param(rng, n, objects)
        k = 1 if p[1] in ("scalar", "str", "np0", "npscalar", "bool", "strsub", "lenonly") else (len(range(*p[2])) if p[1] == "range" else len(p[2]))
        if size * max(k, 1) > 12:
            p = [n, "scalar", 1] if n not in ("tag", "obj") else None
        else:
            size *= max(k, 1)
        if p:
            params.append(p)
    iterations = rng.choice([1, 1, 2, 3]) if size <= 6 else 1
    return ["batch", params, iterations, rng.choice([0, 1, 2, 3, 4, 5, 6, -1]), rng.choice([-1, -1, 1, 1, 2, 3, 7]), nproc,
            rng.random() < 0.15]        # display_progress


def gen_cases(rng, tier):
    cases = []
    n = 260 if tier == "quick" else 3000
    npar = 4 if tier == "quick" else 40
    for i in range(n):
        objects = []
        ops = [_gen_op(rng, objects, nproc=rng.choice([2, 2, 3]) if i < npar else 1)]
        if i >= npar and rng.random() < 0.2:
            ops.append(_gen_op(rng, objects))
        elif i >= npar and rng.random() < 0.1:
            ops.append(json.loads(json.dumps(ops[0])))     # the very same call a second time in the same process
        cases.append({"objects": objects, "ops": ops})
    sweep = list(enumerate_cases(tier))
    rng.shuffle(sweep)
    cases += sweep[:120 if tier == "quick" else 0]
    # agent churn BETWEEN two collects of the same step (all agents removed / created / first removed / all removed at
    # the final step before the model stops), with agent reporters on
    # arbitrary collection histories: gaps (steps without a collect) and duplicates (2-3 collects in one step, also at
    # construction and at the last step) mixed, so that length / first / last of the history coincide in every way
    # SCALE (harness/SCALE_NOTE.md): runs that cross 255 / 256 / 257 / 300 / 1000 steps (CPython caches ints up to 256), with
    # periods 1, dividing, not dividing, -1 and early stops beyond 256; tiny models, one iteration; and designs with hundreds
    # of combinations x iterations; scalar parameters as numpy scalars / bools
    cases += _scale_cases(rng, 6 if tier == "quick" else 60)
    # SEEDED models (oracle-only): seed / rng of every accepted form, draws from model.random and model.rng, serial = by hand = spawned
    # workers that do not inherit PYTHONHASHSEED
    cases += _seeded_cases(rng, 10 if tier == "quick" else 60, 2 if tier == "quick" else 8)
    # USER CLASSES as parameter values (harness/USERCODE_NOTE.md B): sequence-protocol only, __iter__ only, one-shot iterator,
    # both, mapping-like (swept element by element / key by key); str subclass, sized-but-not-iterable object (one value)
    for j in range(24 if tier == "quick" else 240):
        cases.append(_usercls_case(rng, nproc=2 if j == 0 else 1))
    for j in range(40 if tier == "quick" else 400):
        L = rng.randint(3, 6)
        params = [["pat", "list", [_gen_pattern(rng, L) for _ in range(rng.randint(3, 6))]], ["ar", "scalar", rng.choice([1, 1, 0])],
                  ["n", "scalar", rng.choice([1, 2])]]
        if rng.random() < 0.3:
            params.append(["mc", "scalar", rng.choice([1, 2, 3])])
        if rng.random() < 0.3:
            params.append(["stop", "scalar", rng.randint(2, L)])
        if rng.random() < 0.3:
            params.append(["mr", rng.choice(["scalar", "list"]), None])     # collectors without model reporters
            params[-1][2] = 0 if params[-1][1] == "scalar" else [0, 1]
        rng.shuffle(params)
        cases.append({"objects": [], "ops": [["batch", params, 1, rng.choice([L, L, L + 1, L - 1]), rng.choice([1, 1, 2, 3, -1]),
                                              2 if j == 0 else 1, False]]})
    for _ in range(40 if tier == "quick" else 400):
        params = [["ar", "scalar", 1], ["mc", rng.choice(["scalar", "list"]), None], ["n", "scalar", rng.choice([1, 2, 3])],
                  ["sc", "scalar", rng.choice([2, 2, 3])], ["ic", "scalar", rng.choice([0, 1, 2])],
                  ["stop", "scalar", rng.choice([-1, 1, 2, 3])], ["churn", "scalar", rng.choice([0, 0, 1])]]
        params[1][2] = rng.choice([1, 2, 3, 4, 4]) if params[1][1] == "scalar" else rng.sample([0, 1, 2, 3, 4], 2)
        rng.shuffle(params)
        cases.append({"objects": [], "ops": [["batch", params, 1, rng.choice([1, 2, 3, 4]), rng.choice([-1, 1, 1, 2]), 1, False]]})
    return cases


def _scale_cases(rng, count, big=1):
    out = []
    for j in range(count):
        if j % 6 == 5:      # a wide design: hundreds of runs of one step each
            params = [["n", "range", [0, rng.choice([3, 4]), 1]], ["k", rng.choice(["range", "np1"]), None], ["tag", "list", None],
                      ["ar", rng.choice(["bool", "npscalar"]), 1], ["ic", "bool", rng.choice([0, 1])]]
            params[1][2] = [0, rng.choice([9, 17, 33]), 1] if params[1][1] == "range" else list(range(rng.choice([9, 17, 33])))
            objects = ["a", "bc", "relu", "x", ""]
            params[2][2] = [1000 + t for t in range(rng.choice([3, 5]))]
            out.append({"objects": objects, "ops": [["batch", params, rng.choice([2, 3]), 1, rng.choice([1, -1]), 1, False]]})
            continue
        max_steps = rng.choice([255, 256, 257, 258, 300, 300, 512, 1000 if big and j % 6 == 0 else 320])
        period = rng.choice([1, 2, 50, 64, 100, 128, 256, 257, 7, 300, -1] if max_steps <= 320 else [50, 64, 100, 128, 250, 256, 7, -1])
        params = [["n", rng.choice(["scalar", "npscalar"]), rng.choice([0, 1])], ["ar", rng.choice(["scalar", "bool"]), rng.choice([0, 1])],
                  ["ic", "scalar", rng.choice([0, 1, 2])]]
        if rng.random() < 0.5:
            params.append(["stop", rng.choice(["scalar", "npscalar", "list"]), None])
            v = rng.choice([256, 257, 258, 300, 400, 512, max_steps - 1])
            params[-1][2] = [v, 3] if params[-1][1] == "list" else v
        if rng.random() < 0.2:
            params.append(["sc", "scalar", 2])
        rng.shuffle(params)
        out.append({"objects": [], "ops": [["batch", params, 1, max_steps, period, 1, False]]})
    return out


def _usercls_case(rng, nproc=1):
    objects = ["a", "bc", "relu"]
    dom = {"n": [0, 1, 2, 3], "ic": [0, 1, 2], "sc": [0, 1, 2], "ar": [0, 1], "k": [0, 1, 7], "churn": [0, 1]}
    names = rng.sample(sorted(dom), rng.randint(1, 3))
    params = []
    for nm in names:
        kind = rng.choice(["seqproto", "seqproto", "iteronly", "oneshot", "oneshot", "gen", "gen", "both", "mapping", "scalar", "list", "range"])
        if kind == "range":
            params.append([nm, "range", [0, rng.randint(1, 3), 1]])
            continue
        if kind == "scalar":
            params.append([nm, "scalar", rng.choice(dom[nm])])
        elif kind == "mapping":
            params.append([nm, kind, rng.sample(dom[nm], rng.randint(1, min(3, len(dom[nm]))))])   # keys are distinct
        else:
            params.append([nm, kind, [rng.choice(dom[nm]) for _ in range(rng.choice([0, 1, 2, 2, 3]) if rng.random() < 0.1 else rng.randint(1, 3))]])
    p = rng.random()
    if p < 0.35:
        params.append(["tag", "strsub", 1000 + rng.randrange(3)])
    elif p < 0.7:
        params.append(["obj", "lenonly", 2000 + rng.randrange(9)])
    elif p < 0.85:
        params.append(["tag", rng.choice(["seqproto", "iteronly", "both"]), [1000 + rng.randrange(3) for _ in range(2)]])
    rng.shuffle(params)
    # one-shot iterators / generators with iterations 1, 2, 3: every combination must run in EVERY iteration (found by this stream:
    # batch_run used to expand the design once per iteration, exhausting them after iteration 0; fixes/C13-4-expand-design-once)
    iterations = rng.choice([1, 2, 2, 3]) if any(p_[1] in ("oneshot", "gen") for p_ in params) else rng.choice([1, 1, 2])
    return {"objects": objects, "ops": [["batch", params, iterations, rng.choice([1, 2, 3]), rng.choice([-1, 1, 2]), nproc, False]]}


def _gen_pattern(rng, L, most=8):
    """a collection pattern over steps 0..L as a base-4 number: digit s = number of collects at step s (0 = a gap)"""
    while True:
        counts = [rng.choice([0, 0, 0, 1, 1, 1, 1, 2, 2, 3]) for _ in range(L + 1)]
        if 0 < sum(counts) <= most:
            return -(1000 + sum(c * 4 ** s for s, c in enumerate(counts)))


def enumerate_cases(tier, broken=False):
    """every collection pattern (ic, sc) x agent reporters x stop in {never, 1, 3} x max_steps 0..4 x period -1,1,2,3"""
    for ic, sc, ar in itertools.product([0, 1, 2], [0, 1, 2], [0, 1]):
        for stop in (-1, 1, 3):
            for max_steps in range(0, 5):
                ops = [["batch", [["ic", "scalar", ic], ["sc", "scalar", sc], ["ar", "scalar", ar], ["stop", "scalar", stop],
                                  ["churn", "list", [0, 1]]], 1, max_steps, period, 1] for period in (-1, 1, 2, 3)]
                yield {"objects": [], "ops": ops}
    # agent churn between the collects of one step: mc x collects per step x collects at construction x stop
    for mc, sc, ic in itertools.product([1, 2, 3, 4], [2, 3], [0, 2]):
        for stop in (-1, 1, 2):
            ops = [["batch", [["mc", "scalar", mc], ["sc", "scalar", sc], ["ic", "scalar", ic], ["stop", "scalar", stop],
                              ["n", "list", [1, 2]], ["ar", "list", [1, 0]]], 1, max_steps, period, 1]
                   for max_steps in (1, 2, 3) for period in (-1, 1)]
            yield {"objects": [], "ops": ops}
    # collection histories: ALL patterns over steps 0..4 (0-3 collects per step) and a dense sample over steps 0..6 with at
    # most 8 collections, 16 models per call, periods 1 / 2 / -1 (the full set only when something broke or in thorough)
    import random

    prng = random.Random(4711)
    small = [-(1000 + q) for q in range(1, 4 ** 5)]
    big = [_gen_pattern(prng, 6) for _ in range(640)]
    if not (broken or tier == "thorough"):
        small, big = prng.sample(small, 64), big[:64]
    for pats, max_steps in ((small, 4), (big, 6)):
        for i in range(0, len(pats), 16):
            yield {"objects": [], "ops": [["batch", [["pat", "list", pats[i:i + 16]], ["ar", "scalar", ar], ["n", "scalar", 1], ["mr", "scalar", mr]],
                                           1, max_steps, period, 1] for period, ar, mr in ((1, 1, 1), (2, 1, 0), (-1, 0, 1))]}
    # collectors without model reporters (agent reporters only / no reporters at all) x collect patterns
    for ic, sc, ar in itertools.product([0, 1, 2], [0, 1, 2], [0, 1]):
        yield {"objects": [], "ops": [["batch", [["mr", "scalar", 0], ["ic", "scalar", ic], ["sc", "scalar", sc], ["ar", "scalar", ar], ["n", "list", [0, 2]]],
                                       2, max_steps, period, 1] for max_steps, period in ((0, -1), (3, 1), (3, -1), (4, 2))]}
    # SCALE: many more long runs / wide designs when something broke or in thorough (implementation + oracle only)
    if broken or tier == "thorough":
        import random as _r

        for c in _scale_cases(_r.Random(99), 120, big=0):
            yield c
    # designs: all shapes of two parameters
    shapes = [["scalar", 1], ["list", [0, 1]], ["tuple", [2]], ["range", [0, 3, 1]], ["range", [1, 1, 1]], ["list", []], ["list", [1, 1]],
              ["np0", 2], ["np1", [0, 1]], ["np1", []], ["seqproto", [0, 1, 2]], ["seqproto", []], ["iteronly", [1, 0]], ["oneshot", [2, 1]], ["gen", [0, 2]],
              ["both", [0, 2]], ["mapping", [1, 2]], ["npscalar", 2], ["bool", 1]]
    for a, b in itertools.product(shapes, repeat=2):
        for it in (1, 2):
            yield {"objects": ["s"], "ops": [["batch", [["n", *a], ["k", *b], ["tag", "str", 1000]], it, 2, 1, 1]]}


# ------------------------------------------------------------------ implementation side
def _decode(code, objects):
    if code == -1:
        return None
    if code >= 2000:                       # a LenOnly user object (length code % 3: also a falsy one of length 0)
        from props.batch_models import LenOnly

        return LenOnly(code, code % 3)
    if code >= 1000:
        return objects[code - 1000]
    return code


def _py_params(params, objects):
    out = {}
    for name, kind, payload in params:
        if kind == "scalar":
            out[name] = _decode(payload, objects)
        elif kind == "str":
            out[name] = objects[payload - 1000]
        elif kind == "list":
            out[name] = [_decode(c, objects) for c in payload]
        elif kind == "tuple":
            out[name] = tuple(_decode(c, objects) for c in payload)
        elif kind == "range":
            out[name] = range(*payload)
        elif kind == "npscalar":
            import numpy as np
            out[name] = np.int64(payload)            # a numpy scalar instead of a Python int: not iterable -> a single value
        elif kind == "bool":
            out[name] = bool(payload)                # a bool where an int is accepted
        elif kind == "np0":
            import numpy as np
            out[name] = np.array(payload)            # 0-d array: iterating it raises TypeError -> a single value
        elif kind == "np1":
            import numpy as np
            out[name] = np.array(payload, dtype=int)  # 1-d array: its elements (numpy ints); may be empty -> no runs
        elif kind == "gen":
            out[name] = (x for x in [_decode(c, objects) for c in payload])     # a generator: can be consumed once
        elif kind in ("seqproto", "iteronly", "oneshot", "both", "mapping"):
            from props import batch_models as bm

            items = [_decode(c, objects) for c in payload]
            out[name] = {"seqproto": bm.SeqProto, "iteronly": bm.IterOnly, "both": bm.Both, "mapping": bm.MappingLike,
                         "oneshot": lambda it: iter(list(it))}[kind](items)    # swept element by element (mapping: its keys)
        elif kind == "strsub":
            from props.batch_models import StrSub
            out[name] = StrSub(objects[payload - 1000])   # a str subclass: one value
        elif kind == "lenonly":
            out[name] = _decode(payload, objects)          # sized but not iterable: one value
        else:
            raise ValueError(kind)
    return out


def _values(p, objects):
    """the statement's reading of one parameter: the list of values it stands for (None = rejected)"""
    name, kind, payload = p
    if kind in ("scalar", "str", "np0", "npscalar", "bool"):
        return [payload]
    if kind in ("list", "tuple"):
        return list(payload) if payload else None
    if kind in ("np1", "seqproto", "iteronly", "oneshot", "gen", "both", "mapping"):
        return list(payload)
    if kind in ("strsub", "lenonly"):
        return [payload]
    return list(range(*payload))


def call_batch(objects, op, nproc):
    import threading

    import mesa
    from props.batch_models import BM
    from tqdm.std import tqdm as _tqdm

    if not hasattr(_tqdm, "_lock"):
        _tqdm.set_lock(threading.RLock())   # keep tqdm from creating a multiprocessing semaphore in pool workers
    _, params, iterations, max_steps, period = op[:5]
    progress = bool(op[6]) if len(op) > 6 else False
    try:
        import contextlib
        import io

        given = _py_params(params, objects)
        before = repr(given)
        with contextlib.redirect_stderr(io.StringIO()):   # the tqdm bar of display_progress=True
            rows = mesa.batch_run(BM, given, number_processes=nproc, iterations=iterations,
                                  data_collection_period=period, max_steps=max_steps, display_progress=progress)
        return {"rows": rows, "error": None, "mutated": None if repr(given) == before else f"{before} -> {given!r}"}
    except ValueError as e:
        return {"rows": None, "error": [E_VALUE, str(e)]}
    except Exception as e:  # noqa: BLE001
        return {"rows": None, "error": [99, f"{type(e).__name__}: {e}"]}


def _norm(v):
    """numpy scalars and 0-d arrays (what parameters given as numpy arrays put into kwargs) read as plain ints"""
    try:
        import numpy as np

        if isinstance(v, np.generic) or (isinstance(v, np.ndarray) and v.ndim == 0):
            return v.item()
    except ImportError:
        pass
    return v


def _code(v, objects, name):
    v = _norm(v)
    if v is None:
        return -1
    if isinstance(v, bool) and name not in ("tag", "obj"):
        return int(v)              # a bool given for a parameter the model reads as an int
    if type(v).__name__ == "LenOnly":
        return v.code
    if isinstance(v, str) and type(v) is not str:
        v = str(v)                 # a str subclass echoes as its text
    if isinstance(v, int) and not isinstance(v, bool) and name not in ("tag", "obj"):
        return v
    for i, o in enumerate(objects):
        if type(o) is type(v) and o == v:
            return 1000 + i
    return -99


def _snap(v):
    if v is None:
        return [0]
    if isinstance(v, int) and not isinstance(v, bool):
        return [1, v]
    return [9]


def enc_row(r, objects):
    try:
        kws = [(k, v) for k, v in r.items() if k in NAMES]
        out = [r["RunId"], r["iteration"], r["Step"], len(kws)]
        for k, v in kws:
            out += [NAMES.index(k), _code(v, objects, k)]
        ms = [r[k] for k in MKEYS if k in r]
        out += [len(ms)]
        for v in ms:
            out += _snap(v)
        if "AgentID" in r:
            avs = [r[k] for k in AKEYS if k in r]
            out += [1, r["AgentID"], len(avs)]
            for v in avs:
                out += _snap(v)
        else:
            out += [0]
        extra = set(r) - set(NAMES) - set(MKEYS) - set(AKEYS) - {"RunId", "iteration", "Step", "AgentID"}
        return out + ([9] if extra else [])
    except Exception:  # noqa: BLE001
        return [9]


def _row_bad(r, objects):
    try:
        extra = set(r) - set(NAMES) - set(MKEYS) - set(AKEYS) - {"RunId", "iteration", "Step", "AgentID"}
        vals_ok = all(_snap(r[k]) != [9] for k in MKEYS + AKEYS if k in r)
        codes_ok = all(_code(r[k], objects, k) != -99 for k in NAMES if k in r)
        return bool(extra) or not vals_ok or not codes_ok
    except Exception:  # noqa: BLE001
        return True


def _obs(encoded):
    out = [0, len(encoded)]
    for e in sorted(encoded):
        out += e
    return out


def _expected_rows(run_id, iteration, kw, log, period, ar):
    """the statement: rows for the requested steps, built from the model's own log of what it showed"""
    collected = []
    for s, _, _ in log:
        if s not in collected:
            collected.append(s)
    req = [s for s in collected if period > 0 and s % period == 0]
    if collected and (not req or req[-1] != collected[-1]):
        req.append(collected[-1])
    rows = []
    for s in req:
        _, mvals, agents = [e for e in log if e[0] == s][-1]
        base = {"RunId": run_id, "iteration": iteration, "Step": s, **kw, **mvals}
        if agents:
            for aid, avals in agents:
                rows.append({**base, "AgentID": aid, **avals})
        else:
            rows.append(base)
    return rows


def _seed_value(sv):
    kind, v = sv
    return {"int": int, "str": str, "float": float, "bytes": lambda x: x.encode()}[kind](v)


def seeded_rows(case, nproc):
    """rows of batch_run(SeedModel, ...) as repr strings (floats, str and bytes seeds survive the trip through JSON)"""
    import contextlib
    import io

    import mesa
    from props.batch_models import SeedModel

    params = {case["which"]: [_seed_value(sv) for sv in case["seeds"]], "n": case["n"]}
    with contextlib.redirect_stderr(io.StringIO()):
        rows = mesa.batch_run(SeedModel, params, number_processes=nproc, iterations=case["iterations"],
                              data_collection_period=case["period"], max_steps=case["max_steps"], display_progress=False)
    return sorted(repr(sorted(r.items())) for r in rows)


def _run_seeded(case):
    """seeded models: every accepted form of seed / rng (int, str, float, bytes), reporters drawing from model.random and
    model.rng; the rows of number_processes=1, of spawned workers WITHOUT an inherited PYTHONHASHSEED and of constructing and
    stepping the model by hand must be the same"""
    from props.batch_models import SeedModel

    failures = []

    def fail(key, what):
        failures.append({"key": key, "op": 0, "what": what[:700]})

    serial = seeded_rows(case, 1)
    hand = []
    rid = 0
    for it in range(case["iterations"]):
        for sv in case["seeds"]:
            for n in case["n"]:
                kw = {case["which"]: _seed_value(sv), "n": n}
                m = SeedModel(**kw)
                while m.running and m.steps < case["max_steps"]:
                    m.step()
                dc = m.datacollector
                steps = list(dict.fromkeys(dc._collection_steps))
                req = [s_ for s_ in steps if case["period"] > 0 and s_ % case["period"] == 0]
                if steps and (not req or req[-1] != steps[-1]):
                    req.append(steps[-1])
                for s_ in req:
                    j = max(i_ for i_, x in enumerate(dc._collection_steps) if x == s_)
                    hand.append(repr(sorted({"RunId": rid, "iteration": it, "Step": s_, **kw, **{k: v[j] for k, v in dc.model_vars.items()}}.items())))
                rid += 1
    if sorted(hand) != serial:
        d = [r for r in serial if r not in hand][:2]
        fail("C13/batch_run/rows-differ-from-by-hand", f"seeded models {case}: batch_run rows {d} ... are not what constructing and stepping the same "
                                                       f"seeded model by hand yields {[r for r in hand if r not in serial][:2]}")
    if case["nproc"] > 1:
        env = {k: v for k, v in os.environ.items() if k != "PYTHONHASHSEED"}     # the workers get their own hash salt
        p = subprocess.run([sys.executable, os.path.join(HERE, "batch_par.py")], input=json.dumps({"seeded": case, "nproc": case["nproc"]}),
                           capture_output=True, text=True, env=env, timeout=300)
        try:
            par = json.loads(p.stdout)["rows"]
        except Exception:  # noqa: BLE001
            par = None
            fail("C13/batch_run/parallel-failed", f"number_processes={case['nproc']}: {p.stderr[-400:]}")
        if par is not None and par != serial:
            d = [r for r in par if r not in serial][:2]
            fail("C13/batch_run/parallel-rows-differ", f"seeded models {case}: number_processes={case['nproc']} (workers without an inherited "
                                                       f"PYTHONHASHSEED) returned rows {d} that number_processes=1 does not: {[r for r in serial if r not in par][:2]}")
    return {"obs": [[0] for _ in case["ops"]], "failures": failures, "model": False}


def _seeded_cases(rng, count, npar):
    out = []
    pool = [["int", 5], ["int", 2 ** 40 + 3], ["str", "abc"], ["str", "model-7"], ["str", ""], ["float", 1.5], ["float", 0.1], ["bytes", "ab"]]
    for j in range(count):
        which = "rng" if j % 4 == 3 else "seed"
        seeds = rng.sample(pool, rng.randint(2, 4)) if which == "seed" else [["int", rng.randint(0, 99)] for _ in range(2)]
        if j < npar and which == "seed" and not any(s_[0] == "str" for s_ in seeds):
            seeds[0] = ["str", "abc"]
        out.append({"kind": "seeded", "which": which, "seeds": seeds, "n": rng.choice([[1], [0, 2]]), "iterations": rng.choice([1, 2]),
                    "max_steps": rng.randint(0, 3), "period": rng.choice([-1, 1]), "nproc": 2 if j < npar else 1, "ops": [["seeded"]]})
    return out


def run_impl(case):
    if case.get("kind") == "seeded":
        return _run_seeded(case)
    from props.batch_models import BM

    objects = case["objects"]
    obs, failures = [], []

    def fail(key, i, what):
        if not any(f["key"] == key and f["op"] == i for f in failures):
            failures.append({"key": key, "op": i, "what": what})

    for i, op in enumerate(case["ops"]):
        _, params, iterations, max_steps, period, nproc = op[:6]
        vals = [_values(p, objects) for p in params]
        names = [p[0] for p in params]
        BM.INSTANCES.clear()
        res = call_batch(objects, op, 1)
        insts = list(BM.INSTANCES)
        BM.INSTANCES.clear()
        if any(v is None for v in vals):
            if res["error"] is not None and res["error"][0] != E_VALUE:
                obs.append([-1, 99])
                fail("C13/batch_run/unexpected-exception", i, f"batch_run({params}) raised {res['error'][1]}")
            elif res["error"] is None:
                fail("C13/make_model_kwargs/empty-iterable-accepted", i, f"batch_run accepted {params}")
                obs.append(_obs([enc_row(r, objects) for r in res["rows"]]))
            else:
                obs.append([-1, E_VALUE])
            continue
        if res["error"] is not None:
            obs.append([-1, 99])
            fail("C13/batch_run/unexpected-exception", i,
                 f"batch_run({params}, iterations={iterations}, max_steps={max_steps}, period={period}) raised {res['error'][1]}")
            continue
        rows = res["rows"]
        if res.get("mutated"):
            fail("C13/batch_run/mutated-parameters", i, f"batch_run changed the caller's parameters dictionary: {res['mutated']}")
        enc = [enc_row(r, objects) for r in rows]
        # ---- the statement
        kinds = [p[1] for p in params]
        combos = [dict(zip(names, [bool(c) if kd == "bool" else _decode(c, objects) for c, kd in zip(combo, kinds)]))
                  for combo in itertools.product(*vals)]
        design = [(it, kw) for it in range(iterations) for kw in combos]
        got_design = [{k: _norm(v) for k, v in inst.init_kwargs.items()} for inst in insts]
        if sorted(map(repr, got_design)) != sorted(repr(kw) for _, kw in design):
            fail("C13/batch_run/design", i, f"parameters {params} x iterations {iterations}: models were constructed with "
                                             f"{got_design}, the design is {[kw for _, kw in design]}")
        by_run = {}
        for r in rows:
            by_run.setdefault(r.get("RunId"), []).append(r)
        specific = False
        expected_all = []
        for run_id, (it, kw) in enumerate(design):
            hand = BM(**kw)
            while hand.running and hand.steps < max_steps:
                hand.step()
            exp_rows = _expected_rows(run_id, it, kw, hand.log, period, hand.ar)
            expected_all += exp_rows
            mine = by_run.get(run_id, [])
            inst = insts[run_id] if run_id < len(insts) and got_design[run_id] == kw else None
            if inst is not None and inst.steps != hand.steps:
                specific = True
                key = "C13/batch_run/max-steps-exceeded" if inst.steps > max_steps else "C13/batch_run/steps-taken"
                fail(key, i, f"run {run_id} {kw} max_steps={max_steps}: the model took {inst.steps} steps; stepping it by hand until "
                             f"it stops or has taken max_steps steps takes {hand.steps}")
            for r in mine:
                if any(_norm(r.get(k)) != v for k, v in kw.items()) or r.get("iteration") != it:
                    specific = True
                    fail("C13/batch_run/row-parameters", i, f"row {r} of run {run_id} does not repeat its parameters {kw} / iteration {it}")
                lab = r.get("Step")
                if ("Steps" in r and r["Steps"] != lab) or ("sv" in r and r["sv"] - r.get("val", 0) != 1000 * lab):
                    specific = True
                    fail("C13/batch_run/row-mixes-collections", i,
                         f"run {run_id} {kw} max_steps={max_steps} period={period}: row {r} is labelled Step {lab} but its model-level "
                         f"value was collected at step {r.get('Steps')} and its agent-level value at step {(r['sv'] - r.get('val', 0)) // 1000 if 'sv' in r else None}")
            log = inst.log if inst is not None else hand.log
            for r in mine:
                # the row must be ONE collection of the model: same step, same model-level values, and its agent in it
                def same(e, r=r):
                    return (e[0] == r.get("Step") and all(r.get(k) == v for k, v in e[1].items())
                            and ("AgentID" not in r or any(aid == r["AgentID"] and all(r.get(k) == v for k, v in av.items())
                                                           for aid, av in e[2])))
                if log and not any(same(e) for e in log):
                    specific = True
                    at = [(e[1], e[2]) for e in log if e[0] == r.get("Step")]
                    fail("C13/batch_run/row-mixes-collections", i,
                         f"run {run_id} {kw} max_steps={max_steps} period={period}: row {r} is not one of the model's collections at "
                         f"step {r.get('Step')} (model-level values, agents): {at}")
            if log:
                last = log[-1]
                if not any(r.get("Step") == last[0] and all(r.get(k) == v for k, v in last[1].items()) for r in mine):
                    specific = True
                    fail("C13/batch_run/last-collection-missing", i,
                         f"run {run_id} {kw} max_steps={max_steps} period={period}: the model's last collection (step {last[0]}, {last[1]}) "
                         f"is not among its rows (Steps reported: {sorted({r.get('Step') for r in mine})})")
        BM.INSTANCES.clear()
        if not set(by_run) <= set(range(len(design))):
            specific = True
            fail("C13/batch_run/run-ids", i, f"RunIds {sorted(by_run)} for {len(design)} runs")
        exp_enc = sorted(enc_row(r, objects) for r in expected_all)
        if sorted(enc) != exp_enc and not specific:
            fail("C13/batch_run/rows-differ-from-by-hand", i,
                 f"batch_run({params}, iterations={iterations}, max_steps={max_steps}, period={period}) returned {rows}; "
                 f"constructing and stepping the same models by hand gives {expected_all}")
        if any(_row_bad(r, objects) for r in rows):
            fail("C13/batch_run/row-shape", i, f"unexpected keys or values in rows {rows}")
        # ---- number_processes > 1: same multiset of rows
        if nproc > 1:
            env = dict(os.environ)
            p = subprocess.run([sys.executable, os.path.join(HERE, "batch_par.py")], input=json.dumps({"objects": objects, "op": op}),
                               capture_output=True, text=True, env=env, timeout=300)
            try:
                par = json.loads(p.stdout)["rows"]
            except Exception:  # noqa: BLE001
                par = None
                fail("C13/batch_run/parallel-failed", i, f"number_processes={nproc}: {p.stderr[-400:]}")
            if par is not None:
                if sorted(par) != sorted(enc):
                    fail("C13/batch_run/parallel-rows-differ", i,
                         f"number_processes={nproc} returned a different multiset of rows than number_processes=1 for {params}")
                # every row of the parallel call, whatever the completion order: RunId, iteration and kwargs belong together
                for e in par:
                    rid = e[0] if e else -1
                    if not (0 <= rid < len(design)):
                        fail("C13/batch_run/parallel-row-incoherent", i, f"number_processes={nproc}: row with RunId {rid}, {len(design)} runs")
                        continue
                    it_, kw_ = design[rid]
                    want = [rid, it_, e[2] if len(e) > 2 else -1, len(kw_)]
                    for k_, v_ in kw_.items():
                        want += [NAMES.index(k_), _code(v_, objects, k_)]
                    if e[:len(want)] != want:
                        fail("C13/batch_run/parallel-row-incoherent", i,
                             f"number_processes={nproc}: a row labelled RunId {rid} carries iteration/kwargs {e[1:len(want)]}, run {rid} "
                             f"is iteration {it_} with {kw_} (encoded {want[1:]})")
                enc = par
        obs.append(_obs(enc))
    return {"obs": obs, "failures": failures}


# ------------------------------------------------------------------ model side
def _c_pspec(p):
    name, kind, payload = p
    if kind in ("scalar", "str", "np0", "npscalar", "bool"):
        return f"PSingle {L.z(payload)}"
    if kind in ("list", "tuple"):
        return f"PMany {L.zlist(payload)}" if payload else "PEmptySeq"
    if kind in ("np1", "seqproto", "iteronly", "oneshot", "gen", "both", "mapping"):
        return f"PMany {L.zlist(payload)}"
    if kind in ("strsub", "lenonly"):
        return f"PSingle {L.z(payload)}"
    return f"PMany {L.zlist(list(range(*payload)))}"


def coq_case(case):
    if case.get("kind") == "seeded":           # oracle-only: nothing for the Z-valued model
        return "{| b_ops := [] |}"
    ops = []
    for op in case["ops"]:
        _, params, iterations, max_steps, period = op[:5]
        ps = L.lst([L.pair(L.z(NAMES.index(p[0])), _c_pspec(p)) for p in params])
        ops.append(f"Batch {ps} {L.z(iterations)} {L.z(max_steps)} {L.z(period)}")
    return f"{{| b_ops := {L.lst(ops)} |}}"


def op_kinds(case):
    if case.get("kind") == "seeded":
        return [f"seeded/{case['which']}/nproc={case['nproc']}"] + [f"seeded/{s_[0]}" for s_ in case["seeds"]]
    out = []
    for op in case["ops"]:
        _, params, iterations, max_steps, period, nproc = op[:6]
        out.append(f"batch/nproc={nproc}/period={period}" + ("/progress" if len(op) > 6 and op[6] else ""))
        out += [f"param/{p[1]}" for p in params]
    return out


def nontrivial(case):
    if case.get("kind") == "seeded":
        return True
    return any(len(o) > 2 and o[0] == 0 and o[1] >= 2 for o in case.get("_obs", []))


LEVEL_TEXT = ("19 machine-checked Coq theorems (closed under the global context) over a Gallina transcription of _make_model_kwargs / "
              "batch_run / _model_run_func / _collect_data (as repaired) running a scripted model class through the DataCollector model of "
              "C12: the design is the exact cartesian product and the RunIds are distinct (C13_design_exact, C13_runs_exact); any delivery "
              "order yields a permutation of the serial rows (C13_order_irrelevant); every row repeats its run's parameters; the loop takes "
              "exactly min(max_steps, stop) steps and equals stepping by hand (C13_steps_taken, C13_run_model_by_hand, C13_eq_by_hand); for "
              "EVERY model of the script language - all collect patterns incl. several collects per step with agents removed or created "
              "in between, early stop, with/without agent reporters - a row's model-level and agent-level values come from one moment, the "
              "last collection made at the row's Step, the last collection is among the rows and values[positions[-1]] never raises "
              "(C13_alignment_all_models, C13_last_state_reported_all_models, C13_no_index_error). Six theorems are stated about code "
              "regenerated from the working tree on every run (code-level T1: loop condition, reported steps, position lookup, parameter "
              "decision, RunId loop nest, serial / imap_unordered result handling; C13_eq_by_hand_of_source). Tied to the code by that "
              "translation, by differential evaluation (T2) and by an independent oracle that constructs and steps every model by hand and "
              "checks every row against the model's own log of what it showed.")
LEVEL_NOTE = ("Theorems are about the model. Fixed in /repo by this check's findings: max_steps + 1 steps, last collection never reported, "
              "model vars by position vs agent records by key (DataCollector._collection_steps added). Oracle/T2-only: multiprocessing "
              "itself (4 / 40 spawned calls, delivery order really permuted), numpy and other pass-through value types, display_progress, "
              "the caller's parameters staying unmodified. Trusted: Coq kernel, pyexpr translator, the driver/observer, the mirrored "
              "model class. No axioms.")
TECHNIQUE = ("Coq proof (induction, permutation lemmas, invariants of the script language, refinement via C12, closed under global context) "
             "+ code-level T1 translation with bridge lemmas + vm_compute correspondence + independent by-hand oracle")
DESIGN_REF = "DESIGN.md section 4, C13"
