"""C03 - AgentSet behaves as an ordered set and its queries match list semantics.
Model: coq/Model/AgentSet.v.  Histories work on a pool of up to 6 sets derived from one another."""
import itertools
import json

import coqlit as L

ID = "C03"
COQ_PROPERTY_FILE = "Properties/C03.v"
COQ_DEPS = ["Common/ListX.v", "Common/ObsHash.v", "Generated/Tables.v", "Model/AgentSet.v", "Proofs/AgentSetProofs.v",
            "Proofs/AgentSetBridge.v"]
COQ_IMPORTS = "From Mesa Require Import Common.ListX Model.AgentSet."
COQ_CASE_TYPE = "case"
COQ_RUN = "run_case"
TABLE_CONSTRUCTS = ["agentset_select_fast", "agentset_select_limit", "agentset_select_keep", "agentset_select_loop",
                    "agentset_select_inplace", "agentset_select_skeleton", "agentset_sort_reverse", "agentset_sort_inplace",
                    "agentset_shuffle", "agentset_get", "agentset_defaults", "agentset_glue", "agentset_groupby_count",
                    "agentset_groupby_agg"]
RULE = ("histories = up to 10 (thorough: 12) agents of classes A(mesa.Agent), B(A), C(B), D(A), F(A, Falsy mixin: truth value False) "
        "with small int attributes a0..a2 (ties; a1/a2 missing on some agents), an initial AgentSet (all / subset / permuted / with "
        "duplicates / empty) in slot 0 of a pool of 6 slots, then <= 25 (32) operations on any filled slot: select / sort (int, "
        "tuple and string keys) / shuffle in place or copying into another slot, groupby with both result types (+ groups[k], count, "
        "agg, map, do by method name and by callable), get, set, agg, map, add, discard, remove, in, len, [i], [i:j] (+ steps), iter "
        "(with an abandoned iterator kept alive), pop, clear, index, count, reversed, the set operators | & - ^ and |= &= -= ^=, "
        "== <= isdisjoint; 6% of the operations repeat the previous call; at_most from {0,1,2,|s|-1,|s|,|s|+1,inf,0.0,k/2^j,1.0}; "
        "filters incl. callable objects whose truth value is False; keyword and positional call forms; 17 corpus + 16 deterministic "
        "corner histories (every at_most form, ties in both directions, empty set, missing attributes, set algebra, GroupBy.map/do, "
        "string keys, the at_most boundary) first; plus an ORACLE-ONLY stream (100 / 3000 histories) with attribute values and "
        "constants that are floats (non-dyadic), ints above 2^53, strings, tuples, bools, Fraction / Decimal, numpy scalars, None, "
        "mixed, and at_most given as numpy.float64 / numpy.int64 / bool / 2^70 / non-dyadic floats; a SCALE stream (255..4096 agents, "
        "tied keys of 9 types, every query; one 256/257-agent population also through the Coq model as gen_agents n seed); a USER-CODE "
        "stream, implementation + oracle only (24 quick / 240 thorough): filter / key / map / agg / groupby / GroupBy.map functions that "
        "re-enter the same set read-only (must see the untouched set, result = pure function), raise one of ten exception types incl. "
        "StopIteration / GeneratorExit at their k-th call (must propagate, every set unchanged, later operations fine) or mutate the set "
        "(consistency and exactly the user's change), for the in-place and copying forms; agents that are iterable / sized / orderable "
        "with a misleading __lt__; agents with value-based __eq__/__hash__ (set semantics w.r.t. ==); AgentSet subclasses (docstring-only, "
        "extra constructor argument + overridden add); 23 pairs of equivalent public entry points; histories that WRITE unique_id / pos on "
        "the agents (AgentSet.set on the set / a derived set / a copy, assignment, map or GroupBy.do with setattr) and then run every "
        "membership-sensitive query against the list of the same objects; the enumerator sweeps every "
        "member list over <= 2 (thorough / broken: 4) agents with a0 in {0,1} x every select / sort / groupby form; "
        "non-trivial = at least 3 operations of which one returns a non-empty answer and at least two slots are filled at the end; "
        "distinct = by SHA1 of the history")
TRUSTED_BASE = [
    "Coq 8.16.1 kernel (coqc; coqchk in the thorough tier: no axioms); vm_compute used for the 19 non-vacuity Examples and for evaluating the model in the correspondence",
    "no axioms: Print Assumptions reports 'Closed under the global context' for each of the 76 C03 theorems",
    "harness/props/C03.py driver+observer and the Gallina literal printer (T2, differential testing, not a proof); every operation "
    "runs under a CPU-time alarm so that a non-terminating implementation is reported, not hung",
    "harness/pyexpr.py + harness/tables/agentset_code.py (T1, code level, 14 constructs): select's fast-path test, at_most conversion, "
    "counting loop (initial count, break test, keep test, update), sort's reverse= argument, the in-place/copy branches of select / "
    "sort / shuffle, get's branch structure, the GroupBy.count / agg comprehensions and the signature defaults are TRANSLATED from "
    "the working tree; the dict / weak-reference statements (groupby, set, agg, __getitem__, add, discard, remove, _update, __len__, "
    "__iter__, __contains__, GroupBy.map / do / __init__, glue of select / sort / shuffle) are compared statement by statement "
    "modulo local-variable names, docstrings and message texts",
    "Model/AgentSet.v is a hand transcription of mesa/agent.py AgentSet + GroupBy and of the collections.abc Set / MutableSet / "
    "Sequence mixins it inherits; Proofs/AgentSetBridge.v proves model function = translated function for the translated parts; "
    "WeakKeyDictionary = insertion-ordered key list (all agents stay referenced by the model registry), Python int = Z, "
    "sorted(reverse=) = stable insertion sort with >=, str order = lexicographic order on lists of codes",
    "user code (filters, keys, map / group functions) ranges over the small DSLs pred / keyf / mapf / gmeth; the driver builds the same closures",
    "Uint63 primitive hash only in scratch Cases files, never under a theorem",
]
ASSUMPTIONS = [
    "in the model, attribute values, at_most counts and indices are ints, string keys come from a fixed table of ten names, float at_most "
    "values are dyadic k/2^j; every other value domain (non-dyadic floats, big ints, str, tuple, bool, Fraction, Decimal, numpy scalars, "
    "None) is covered by the oracle-only stream against Python list semantics, not by the model",
    "at_most < 0 and float at_most > 1.0 are outside the statement's quantifier: the model follows the code there too (theorems "
    "C03_boundary_*), T2 pins it on one deterministic corner history, the oracle only demands an in-order sub-list",
    "for a non-dyadic float at_most the oracle accepts the floor of the exact binary value times the size and the floor of the decimal the "
    "user wrote (they differ e.g. for 0.7 of 10)",
    "shuffle: which permutation is not part of the statement; the outcome is recorded and legality-checked (the check accepts exactly the permutations: theorem)",
    "when evaluating a filter / key on the whole member list would raise, the oracle accepts the same exception type or, for select, the "
    "result of the lazy evaluation; it always demands an unchanged state after an exception (also keyed C18/...)",
    "the order of the results of the set operators and groups[absent] on result_type='list' are not judged by the oracle (outside the "
    "statement); the model documents them and T2 pins them",
    "not covered: agents garbage-collected while in a set and do / shuffle_do (C04), pickling / deepcopy (C19), the generator carried by "
    "derived sets (C01), non-pure filters, GroupBy.map / do with methods other than len / get / set",
]
ENUM_ALWAYS = True     # the targeted sweep of small shapes is cheap (~5 s): run it in the quick tier too
NSLOTS = 6
NATTR = 3
E_ATTR, E_KEY, E_VALUE, E_INDEX = 1, 2, 3, 4
_EXC_KIND = {AttributeError: E_ATTR, KeyError: E_KEY, ValueError: E_VALUE, IndexError: E_INDEX}
PARENT = {0: None, 1: 0, 2: 1, 3: 0, 4: 0}
NAMES = ["", "a", "ab", "abc", "b", "ba", "B", "aa", "z", "Zz"]     # Model/AgentSet.v: names


def _enc_str(x):
    """Model/AgentSet.v enc_str 3: pad with 0 to three characters, base 128"""
    cs = [ord(c) for c in x] + [0, 0, 0]
    return (cs[0] * 128 + cs[1]) * 128 + cs[2]


def _z(x):
    if isinstance(x, str) and len(x) <= 3 and all(0 < ord(c) < 128 for c in x):
        return _enc_str(x)
    if type(x) is int or type(x) is bool:
        return int(x)
    import zlib
    return zlib.crc32(repr(x).encode())      # rich (oracle-only) values: any stable number


def _val(v):
    """attribute / constant values of the oracle-only rich stream, JSON-encoded as [tag, text]"""
    if not isinstance(v, list):
        return v
    tag = v[0]
    if tag == "none":
        return None
    if tag == "f":
        return float(v[1])
    if tag == "big":
        return int(v[1])
    if tag == "s":
        return v[1]
    if tag == "t":
        return tuple(_val(x) for x in v[1])
    if tag == "b":
        return bool(v[1])
    if tag == "frac":
        from fractions import Fraction
        return Fraction(v[1])
    if tag == "dec":
        from decimal import Decimal
        return Decimal(v[1])
    if tag == "np":
        import numpy as np
        return getattr(np, v[1])(float(v[2]) if "float" in v[1] else int(v[2]))
    raise ValueError(v)


# ------------------------------------------------------------------ generation
def _rand_pred(rng, depth=0):
    r = rng.random()
    if depth < 2 and r < 0.25:
        k = rng.choice(["not", "and", "or"])
        if k == "not":
            return ["not", _rand_pred(rng, depth + 1)]
        return [k, _rand_pred(rng, depth + 1), _rand_pred(rng, depth + 1)]
    r = rng.random()
    if r < 0.08:
        return ["true"]
    if r < 0.16:
        return ["false"]
    if r < 0.5:
        return ["le", rng.choice([0, 0, 0, 1, 1, 2]), rng.randint(-2, 4)]
    if r < 0.7:
        return ["eq", rng.choice([0, 0, 1, 2]), rng.randint(-1, 3)]
    m = rng.randint(1, 4)
    return ["idmod", m, rng.randrange(m)]


def _rand_key(rng, names=True):
    if names and rng.random() < 0.12:
        return ["name", rng.choice([0, 0, 1, 2])]
    r = rng.random()
    if r < 0.35:
        return ["attr", rng.choice([0, 0, 0, 1, 1, 2])]
    if r < 0.5:
        return ["neg", rng.choice([0, 0, 1, 2])]
    if r < 0.65:
        return ["mod", rng.choice([0, 0, 1]), rng.randint(1, 3)]
    if r < 0.75:
        return ["id"]
    if r < 0.9:
        return ["idmod", rng.randint(1, 4)]
    return ["cls"]


def _rand_atmost(rng, n):
    r = rng.random()
    if r < 0.2:
        return ["inf"]
    if r < 0.55:
        return ["int", rng.choice([0, 1, 2, max(0, n - 1), n, n + 1, rng.randint(0, n + 2)])]
    r = rng.random()
    if r < 0.2:
        return ["frac", 0, 0]          # 0.0
    if r < 0.4:
        return ["frac", 1, 0]          # 1.0
    j = rng.randint(1, 4)
    return ["frac", rng.randint(0, 2 ** j), j]


def _rand_agents(rng, n):
    mode = rng.random()
    agents = []
    onecls = rng.randrange(5)
    lo, hi = rng.choice([(0, 1), (0, 2), (-2, 3), (0, 5)])
    for _ in range(n):
        cls = onecls if mode < 0.3 else rng.randrange(5)
        attrs = [[0, rng.randint(lo, hi)]]
        if rng.random() < 0.02:
            attrs = []
        if rng.random() < 0.85:
            attrs.append([1, rng.randint(lo, hi)])
        if rng.random() < 0.5:
            attrs.append([2, rng.randint(lo, hi)])
        rng.shuffle(attrs)
        agents.append([cls, attrs])
    return agents


def _rand_op(rng, filled, n):
    s = rng.choice(sorted(filled)) if rng.random() < 0.97 else rng.randrange(NSLOTS)
    free = [i for i in range(NSLOTS) if i not in filled]
    d = rng.choice(free) if free and rng.random() < 0.6 else rng.randrange(NSLOTS)
    if rng.random() < 0.01:
        d = rng.choice([-1, NSLOTS])
    inplace = rng.random() < 0.4
    aid = rng.randint(1, max(1, n)) if rng.random() < 0.95 else n + rng.randint(1, 2)
    r2 = rng.random()
    if r2 < 0.06:      # set algebra inherited from collections.abc
        s2 = rng.choice(sorted(filled)) if rng.random() < 0.95 else rng.randrange(NSLOTS)
        if rng.random() < 0.7:
            return ["setop", s, s2, rng.choice(["or", "and", "sub", "xor"]), inplace, d]
        return ["setcmp", s, s2, rng.choice(["eq", "le", "disjoint"])]
    if r2 < 0.085:     # GroupBy.map / do, both result types
        rt = rng.choice(["agentset", "list"])
        if rng.random() < 0.6:
            gm = rng.choice([["len", True], ["len", False], ["sum", rng.choice([0, 0, 1, 2])], ["get", rng.choice([0, 0, 1, 2])]])
            return ["groupmap", s, _rand_key(rng), rt, gm]
        return ["groupdo", s, _rand_key(rng), rt, rng.random() < 0.5, rng.choice([0, 1, 2]), rng.randint(-1, 3)]
    r = rng.random()
    if r < 0.22:
        p = _rand_pred(rng) if rng.random() < 0.75 else None
        ty = rng.randrange(5) if rng.random() < 0.35 else None
        if p is not None and rng.random() < 0.12:
            p = ["falsy", p]       # a callable filter OBJECT whose truth value is False
        return ["select", s, p, _rand_atmost(rng, n), ty, inplace, d]
    if r < 0.36:
        key = ["pair", _rand_key(rng), _rand_key(rng)] if rng.random() < 0.25 else _rand_key(rng)
        return ["sort", s, key, rng.random() < 0.5, inplace, d]
    if r < 0.46:
        return ["shuffle", s, inplace, d]
    if r < 0.51:
        return ["groupby", s, _rand_key(rng), rng.choice(["agentset", "list"])]
    if r < 0.535:
        return ["groupget", s, _rand_key(rng, names=False), rng.randint(-1, 3), d]
    if r < 0.545:
        return ["grouplookup", s, _rand_key(rng, names=False), rng.randint(-1, 3), rng.choice(["agentset", "list"])]
    if r < 0.58:
        w = rng.random()
        if w < 0.3:
            return ["groupcount", s, _rand_key(rng)]
        if w < 0.75:
            return ["groupagg", s, _rand_key(rng), rng.choice([0, 0, 1, 2]), rng.choice(["sum", "min", "max", "len"])]
        return ["groupdoset", s, _rand_key(rng), rng.choice([0, 1, 2]), rng.randint(-1, 3)]
    if r < 0.64:
        names = [rng.choice([0, 0, 1, 2]) for _ in range(rng.randint(1, 3))]
        if rng.random() < 0.05:
            names = []
        mode = 0 if rng.random() < 0.5 else (1 if rng.random() < 0.93 else 2)
        return ["get", s, names, rng.random() < 0.5, mode, rng.choice([-7, 0, 9])]
    if r < 0.685:
        return ["set", s, rng.choice([0, 1, 2]), rng.randint(-1, 3)]
    if r < 0.73:
        return ["agg", s, rng.choice([0, 0, 1, 2]), rng.choice(["sum", "min", "max", "len"])]
    if r < 0.775:
        return ["map", s, ["key", _rand_key(rng)] if rng.random() < 0.6 else ["meth", rng.randint(-2, 2)]]
    if r < 0.82:
        return ["add", s, aid]
    if r < 0.855:
        return ["discard", s, aid]
    if r < 0.89:
        return ["remove", s, aid]
    if r < 0.905:
        return ["contains", s, aid]
    if r < 0.915:
        return ["len", s]
    if r < 0.935:
        return ["index", s, rng.randint(-n - 1, n + 1)]
    if r < 0.95:
        lo = rng.choice([None, rng.randint(-n - 1, n + 1)])
        hi = rng.choice([None, rng.randint(-n - 1, n + 1)])
        return ["slice", s, lo, hi]
    if r < 0.955:
        return ["iter", s]
    if r < 0.965:
        return ["pop", s]
    if r < 0.968:
        return ["clear", s]
    if r < 0.98:
        return ["indexof", s, aid]
    if r < 0.99:
        return ["count", s, aid]
    return ["reversed", s]


def _rand_case(rng, nmax=10, maxops=25):
    n = rng.choice([0, 1, 2, 3]) if rng.random() < 0.15 else rng.randint(2, nmax)
    agents = _rand_agents(rng, n)
    ids = list(range(1, n + 1))
    r = rng.random()
    if r < 0.6:
        init = ids
    elif r < 0.75:
        init = [i for i in ids if rng.random() < 0.6]
    elif r < 0.9:
        init = ids[:]
        rng.shuffle(init)
    elif r < 0.97:
        init = [rng.choice(ids) for _ in range(n + 2)] if ids else []
    else:
        init = []
    ops = []
    filled = {0}
    for _ in range(rng.randint(3, maxops)):
        if ops and rng.random() < 0.06 and ops[-1][0] != "shuffle":
            op = json.loads(json.dumps(ops[-1]))      # the same call a second time, nothing in between
        else:
            op = _rand_op(rng, filled, n)
        ops.append(op)
        if op[0] in ("select", "sort", "shuffle", "setop") and not op[-2] and 0 <= op[-1] < NSLOTS:
            filled.add(op[-1])
        if op[0] == "groupget" and 0 <= op[-1] < NSLOTS and rng.random() < 0.5:
            filled.add(op[-1])
    return {"seed": rng.randrange(1000), "agents": agents, "init": init, "ops": ops}


_RICH_DOMAINS = {
    "float": [["f", "0.1"], ["f", "0.2"], ["f", "0.30000000000000004"], ["f", "0.7"], ["f", "-2.25"], ["f", "1e18"], ["f", "9007199254740994.0"], ["f", "0.1"]],
    "bigint": [["big", str(2 ** 53 + 1)], ["big", str(2 ** 53)], ["big", str(2 ** 53 + 2)], ["big", str(2 ** 64)], ["big", str(-2 ** 70)], ["big", str(2 ** 53 + 1)]],
    "str": [["s", "pear"], ["s", "apple"], ["s", "Apple"], ["s", ""], ["s", "apple"], ["s", "zebra longer than three"]],
    "tuple": [["t", [1, 2]], ["t", [1, 1]], ["t", [0, 9]], ["t", [1, 2]], ["t", []], ["t", [1]]],
    "bool": [["b", True], ["b", False], 1, 0, 2],
    "exact": [["frac", "1/3"], ["frac", "2/6"], ["frac", "1/2"], ["dec", "0.5"], ["dec", "0.10"], 1],
    "numpy": [["np", "float64", "0.5"], ["np", "int64", "3"], ["np", "int64", "1"], ["np", "float64", "1.0"], 3],
    "withnone": [["none"], 1, 2, ["none"], 0],
    "mixed": [1, ["s", "a"], ["none"], ["f", "1.5"], ["t", [1]]],
}


def _rand_rich_case(rng):
    """oracle-only stream: attribute values, constants and at_most forms beyond the model's ints (lessons a, f, j)"""
    n = rng.randint(2, 8)
    doms = [rng.choice(sorted(_RICH_DOMAINS)) for _ in range(NATTR)]
    agents = []
    for _ in range(n):
        attrs = [[k, rng.choice(_RICH_DOMAINS[doms[k]])] for k in range(NATTR) if k == 0 or rng.random() < 0.8]
        cls = rng.randrange(6)
        if cls == 5:          # class G: a1 is a property, a2 a class attribute unless the instance overrides it
            attrs = [x for x in attrs if x[0] == 0 or (x[0] == 2 and rng.random() < 0.3)]
        agents.append([cls, attrs])
    ops = []
    ams = [["npfloat", 1, 1], ["npfloat", 3, 2], ["npint", 2], ["bool", True], ["bool", False], ["big", str(2 ** 70)],
           ["real", "0.7"], ["real", "0.3"], ["real", "0.1"], ["real", "0.6"], ["real", "0.29"], ["real", "0.9999999999999999"], ["inf"], ["int", 2]]
    for _ in range(rng.randint(4, 14)):
        k = rng.randrange(NATTR)
        c = rng.choice(_RICH_DOMAINS[doms[k]])
        r = rng.random()
        d = rng.randrange(NSLOTS)
        s = 0 if rng.random() < 0.7 else d
        if r < 0.3:
            p = rng.choice([None, ["le", k, c], ["eq", k, c], ["not", ["eq", k, c]], ["falsy", ["le", k, c]]])
            ops.append(["select", s, p, rng.choice(ams), rng.choice([None, None, 0, 4]), rng.random() < 0.3, d])
        elif r < 0.5:
            key = ["attr", k] if rng.random() < 0.7 else ["pair", ["attr", k], ["id"]]
            ops.append(["sort", s, key, rng.random() < 0.5, rng.random() < 0.3, d])
        elif r < 0.6:
            names = [k] if rng.random() < 0.35 else [k, rng.randrange(NATTR)]      # a one-name LIST is not the str form
            ops.append(["get", s, names, rng.random() < 0.4, rng.choice([0, 1]), rng.choice([["none"], c, 0])])
        elif r < 0.7:
            ops.append(["set", s, rng.randrange(NATTR), c])
        elif r < 0.8:
            ops.append(["agg", s, k, rng.choice(["sum", "min", "max", "len"])])
        elif r < 0.87:
            ops.append(["map", s, ["key", ["attr", k]]])
        elif r < 0.94:
            ops.append(["groupby", s, ["attr", k], rng.choice(["agentset", "list"])])
        else:
            ops.append(["groupcount", s, ["attr", k]])
    return {"rich": True, "seed": rng.randrange(1000), "agents": agents, "init": list(range(1, n + 1)), "ops": ops}


# ------------------------------------------------------------------ USER CODE in the loop (harness/USERCODE_NOTE.md)
# implementation + oracle only ("model": False): the callbacks are user code, what they do is checked against the statement
# on the views they see, on the state right after an exception and on ordinary operations afterwards
USER_OPS = ["select", "sort", "map", "agg", "groupby", "gbmap", "gbagg"]
USER_EXCS = ["StopIteration", "IndexError", "KeyError", "AttributeError", "TypeError", "ValueError", "RuntimeError", "ZeroDivisionError",
             "GeneratorExit", "LookupError"]
USER_READS = ["len", "list", "agg", "select", "contains", "index0", "get", "sortcopy", "bool"]
USER_MUTS = ["add", "discard", "remove", "pop", "setattr"]


def _user_cases(rng, tier, broken=False):
    out = []
    n_each = 6 if tier == "quick" and not broken else 60
    for _ in range(n_each):
        n = rng.randint(1, 9)
        vals = [rng.randint(0, 2) for _ in range(n)]
        base = {"user": "callback", "n": n, "vals": vals, "op": rng.choice(USER_OPS), "inplace": rng.random() < 0.5,
                "at_most": rng.choice([None, None, 0, 1, 2, n, 0.5, 1.0]), "k": rng.randint(1, n + 1), "seed": rng.randrange(100)}
        out.append(dict(base, what="read", read=rng.choice(USER_READS)))
        out.append(dict(base, what="raise", exc=rng.choice(USER_EXCS)))
        out.append(dict(base, what="mutate", mut=rng.choice(USER_MUTS)))
    for _ in range(max(2, n_each // 3)):
        n = rng.randint(2, 8)
        out.append({"user": "eqagents", "vals": [rng.randint(0, 3) for _ in range(n)], "seed": rng.randrange(100),
                    "ops": [rng.choice(["add", "discard", "remove", "contains", "index", "sort", "select", "shuffle", "groupby", "sub", "or", "and", "eq", "pop"])
                            for _ in range(rng.randint(3, 10))], "args": [rng.randrange(n) for _ in range(10)]})
        out.append({"user": "subclass", "n": n, "vals": [rng.randint(0, 2) for _ in range(n)], "seed": rng.randrange(100),
                    "cls": rng.choice(["doc", "extra", "slots_agents"])})
        for _k in range(2):
            out.append({"user": "libattrs", "n": n, "seed": rng.randrange(100), "attr": rng.choice(["unique_id", "unique_id", "pos"]),
                        "way": rng.choice(["set", "set-derived", "assign", "map-setattr", "gbdo", "set-copy"]),
                        "values": rng.choice(["const", "shift", "swap", "big"]), "keep": [rng.random() < 0.5 for _ in range(n)],
                        "picks": [rng.randrange(n) for _ in range(6)]})
        out.append({"user": "entrypoints", "n": n, "vals": [rng.randint(0, 2) for _ in range(n)], "seed": rng.randrange(100),
                    "split": rng.randint(0, n)})
    return out


def _run_usercode(case, mesa, AgentSet):
    import builtins
    import copy as _copy
    import operator as _op
    import warnings

    failures = []
    obs = []

    def fail(key, what):
        failures.append({"key": "C03/usercode/" + key, "op": 0, "what": (str(case) + ": " + what)[:900]})

    def ids(l):
        return [a.unique_id for a in l]

    def consistent(st, tag):
        got = list(st)
        if len(st) != len(got) or len({id(a) for a in got}) != len(got) or [st[j] for j in range(len(got))] != got \
                or not all(a in st for a in got) or list(reversed(st)) != got[::-1]:
            fail(tag + "/set-inconsistent", f"len()={len(st)}, iteration {ids(got)}")
        return got

    model = mesa.Model(seed=case.get("seed", 0))
    kind = case["user"]
    with warnings.catch_warnings():
        warnings.simplefilter("ignore")
        if kind == "callback":
            class It(mesa.Agent):           # iterable, sized, orderable, falsy when its value is 0
                def __iter__(self):
                    return iter((self.a0, self.unique_id))

                def __len__(self):
                    return self.a0

                def __lt__(self, other):
                    return self.unique_id > other.unique_id      # the REVERSE of insertion order: must never be used for ties

            agents = [(It if i % 2 else mesa.Agent)(model) for i in range(case["n"])]
            for a, v in zip(agents, case["vals"]):
                a.a0 = v
            extra = mesa.Agent(model)
            extra.a0 = 1
            st = AgentSet(agents, random=model.random)
            other = AgentSet(agents[::-1], random=model.random)          # a second set over the same agents: never touched
            orig = list(agents)
            op, inplace, what, k = case["op"], case["inplace"], case["what"], case["k"]
            views, calls, did = [], [0], []
            exc_type = getattr(builtins, case["exc"]) if what == "raise" else None

            def hook(a):
                """the user code: runs inside the library operation"""
                calls[0] += 1
                if what == "read":
                    r = case["read"]
                    v = {"len": lambda: len(st), "list": lambda: ids(list(st)), "agg": lambda: st.agg("a0", sum),
                         "select": lambda: ids(st.select(lambda x: x.a0 > 0)), "contains": lambda: [x in st for x in orig],
                         "index0": lambda: st[0].unique_id if len(st) else None, "get": lambda: st.get("a0"),
                         "sortcopy": lambda: ids(st.sort("a0")), "bool": lambda: len(st) > 0}[r]()
                    views.append(v)
                elif calls[0] == k:
                    if what == "raise":
                        raise exc_type("user code raises half-way")
                    m = case["mut"]
                    if m == "add":
                        st.add(extra)
                    elif m == "discard":
                        st.discard(orig[-1])
                    elif m == "remove" and orig[0] in st:
                        st.remove(orig[0])
                    elif m == "pop" and len(st):
                        st.pop()
                    elif m == "setattr":
                        orig[0].a0 = 9
                    did.append(m)
                return a.a0

            pure = lambda a: a.a0          # noqa: E731  the same function without the user code
            am = case["at_most"]
            kw = {} if am is None else {"at_most": am}

            def run(f, target, inpl):
                if op == "select":
                    return target.select(lambda a: f(a) > 0, inplace=inpl, **kw)
                if op == "sort":
                    return target.sort(f, ascending=bool(k % 2), inplace=inpl)
                if op == "map":
                    return target.map(f)
                if op == "agg":
                    return target.agg("a0", lambda vs: (f(orig[0]), f(orig[-1]), sum(vs))[2])
                if op == "groupby":
                    return [(key, ids(v)) for key, v in target.groupby(f, result_type="list" if inpl else "agentset")]
                if op == "gbmap":
                    return target.groupby("a0").map(lambda g: sum(f(a) for a in g))
                return target.groupby("a0").agg("a0", lambda vs: (f(orig[0]), max(vs))[1])

            # what the pure function gives on an untouched twin (list semantics is checked by the main streams)
            twin = AgentSet(orig, random=model.random)
            want = run(pure, twin, False)
            want_ids = ids(want) if isinstance(want, AgentSet) else want
            # ... and the list says the same (ties never consult the agents' own __lt__, falsy / iterable agents are agents)
            if op == "select":
                lim = len(orig) if am is None else (int(len(orig) * am) if isinstance(am, float) else am)
                lst = [a.unique_id for a in orig if a.a0 > 0][:lim]
            elif op == "sort":
                lst = ids(sorted(orig, key=pure, reverse=not bool(k % 2)))
            elif op == "map":
                lst = [a.a0 for a in orig]
            else:
                lst = want_ids
            if lst != want_ids:
                fail(f"{op}/differs-from-list-semantics", f"got {want_ids}, the list gives {lst}")
            before_view = {"len": len(orig), "list": ids(orig), "agg": sum(a.a0 for a in orig), "select": [a.unique_id for a in orig if a.a0 > 0],
                           "contains": [True] * len(orig), "index0": orig[0].unique_id, "get": [a.a0 for a in orig],
                           "sortcopy": ids(sorted(orig, key=pure, reverse=True)), "bool": True}
            try:
                res = run(hook, st, inplace)
                raised = None
            except BaseException as e:  # noqa: BLE001  (StopIteration / GeneratorExit are part of the test)
                res, raised = None, e
            obs.append([0 if raised is None else -1, calls[0]])
            tag = f"{op}/{'inplace' if inplace else 'copy'}/{what}"
            now = consistent(st, tag)
            if ids(list(other)) != ids(orig[::-1]):
                fail(tag + "/altered-another-set", f"a second set over the same agents became {ids(list(other))}")
            if what == "read":
                if raised is not None:
                    fail(tag + "/raised", f"a filter that only READS the set made the call raise {type(raised).__name__}: {raised}")
                else:
                    bad = [v for v in views if v != before_view[case["read"]]]
                    if bad:
                        fail(tag + "/half-done-state-visible", f"inside the operation the user code saw {bad[0]} instead of {before_view[case['read']]}")
                    got = ids(res) if isinstance(res, AgentSet) else res
                    if got != want_ids:
                        fail(tag + "/differs-from-pure-function", f"got {got}, with the same function without the read {want_ids}")
                    changes = op in ("select", "sort") and inplace
                    if ids(now) != (want_ids if changes else ids(orig)):
                        fail(tag + "/wrong-final-set", f"the set is {ids(now)}, expected {want_ids if changes else ids(orig)}")
            elif what == "raise":
                reached = calls[0] >= k
                if reached and raised is None:
                    fail(tag + "/exception-swallowed", f"the user code raised {case['exc']} at its call {k} but the operation returned {res if not isinstance(res, AgentSet) else ids(res)}")
                if raised is not None and not reached:
                    fail(tag + "/raised", f"raised {type(raised).__name__} although the user code did not")
                if raised is not None and ids(now) != ids(orig):
                    fail(tag + "/state-changed-by-rejected-call", f"after the {type(raised).__name__} the set is {ids(now)}, it was {ids(orig)}")
                    failures.append({"key": "C18/usercode/" + tag, "op": 0, "what": failures[-1]["what"]})
                if raised is None and not reached:
                    got = ids(res) if isinstance(res, AgentSet) else res
                    if got != want_ids:
                        fail(tag + "/differs-from-pure-function", f"got {got}, expected {want_ids}")
            else:
                # the user code changed the set in the middle: the statement does not say what the operation returns; HEAD
                # either raises RuntimeError (iteration) or finishes on the members it started with.  Demand consistency only,
                # and - for forms that do not write the set - that exactly the user's change is there
                if raised is not None and not isinstance(raised, (RuntimeError, KeyError)):
                    fail(tag + "/unexpected-exception", f"{type(raised).__name__}: {raised}")
                if did and not (op in ("select", "sort") and inplace and raised is None):
                    exp = list(orig)
                    m = did[0]
                    if m == "add":
                        exp.append(extra)
                    elif m == "discard":
                        exp = exp[:-1]
                    elif m in ("remove", "pop"):
                        exp = exp[1:]
                    if ids(now) != ids(exp):
                        fail(tag + "/user-change-lost-or-extra", f"the user code did {m}; the set is {ids(now)}, expected {ids(exp)}")
            # ordinary operations afterwards behave like the list
            after = list(st)
            if ids(st.sort("unique_id", ascending=True)) != sorted(ids(after)) or ids(st.select(at_most=1)) != ids(after[:1]) \
                    or len(st.shuffle()) != len(after) or st.get("unique_id") != ids(after):
                fail(tag + "/later-operations-wrong", f"after the call, on {ids(after)}")
        elif kind == "eqagents":
            class E(mesa.Agent):            # value-based equality: two agents with the same v are EQUAL
                def __init__(self, model, v):
                    self.v = v
                    super().__init__(model)

                def __eq__(self, o):
                    return isinstance(o, E) and o.v == self.v

                def __hash__(self):
                    return hash(self.v)

            es = [E(model, v) for v in case["vals"]]
            shadow = list(dict.fromkeys(es))         # an insertion-ordered set w.r.t. ==
            st = AgentSet(es, random=model.random)
            for j, o in enumerate(case["ops"]):
                a = es[case["args"][j] % len(es)]
                b = AgentSet(es[case["args"][j] % len(es):], random=model.random)
                bl = list(dict.fromkeys(es[case["args"][j] % len(es):]))
                try:
                    if o == "add":
                        st.add(a)
                        if a not in shadow:
                            shadow.append(a)
                    elif o == "discard":
                        st.discard(a)
                        shadow = [x for x in shadow if x != a]
                    elif o == "remove":
                        exp_err = a not in shadow
                        try:
                            st.remove(a)
                            if exp_err:
                                fail("eqagents/remove-absent-accepted", f"step {j}")
                        except KeyError:
                            if not exp_err:
                                fail("eqagents/remove-present-rejected", f"step {j}")
                        shadow = [x for x in shadow if x != a]
                    elif o == "contains":
                        if (a in st) != (a in shadow) or st.count(a) != shadow.count(a):
                            fail("eqagents/contains", f"step {j}")
                    elif o == "index":
                        if a in shadow and st.index(a) != shadow.index(a):
                            fail("eqagents/index", f"step {j}")
                    elif o == "sort":
                        if ids(st.sort("v", ascending=True)) != ids(sorted(shadow, key=lambda x: x.v)):
                            fail("eqagents/sort", f"step {j}")
                    elif o == "select":
                        if ids(st.select(lambda x: x.v >= 1, at_most=2)) != ids([x for x in shadow if x.v >= 1][:2]):
                            fail("eqagents/select", f"step {j}")
                    elif o == "shuffle":
                        st.shuffle(inplace=True)
                        if sorted(ids(st)) != sorted(ids(shadow)):
                            fail("eqagents/shuffle", f"step {j}")
                        shadow = list(st)
                    elif o == "groupby":
                        if [(kk, ids(v)) for kk, v in st.groupby("v")] != [(x.v, [x.unique_id]) for x in shadow]:
                            fail("eqagents/groupby", f"step {j}")
                    elif o in ("sub", "or", "and"):
                        r = {"sub": _op.sub, "or": _op.or_, "and": _op.and_}[o](st, b)
                        e = {"sub": [x for x in shadow if x not in bl], "or": list(dict.fromkeys(shadow + bl)), "and": [x for x in shadow if x in bl]}[o]
                        # which of two EQUAL agents represents the value is not defined (a & b takes b's objects): compare values
                        if sorted(x.v for x in r) != sorted(x.v for x in e) or len(r) != len(e):
                            fail("eqagents/setop", f"step {j} {o}: got values {sorted(x.v for x in r)}, expected {sorted(x.v for x in e)}")
                    elif o == "eq":
                        if (st == b) != (len(shadow) == len(bl) and all(x in bl for x in shadow)):
                            fail("eqagents/eq", f"step {j}")
                    elif o == "pop" and shadow:
                        if st.pop() is not shadow.pop(0):
                            fail("eqagents/pop", f"step {j}")
                except Exception as e:  # noqa: BLE001
                    fail("eqagents/unexpected-exception", f"step {j} {o}: {type(e).__name__}: {e}")
                    break
                if ids(consistent(st, "eqagents")) != ids(shadow):
                    fail("eqagents/wrong-members", f"after step {j} ({o}): {ids(list(st))}, expected {ids(shadow)}")
                    shadow = list(st)
            obs.append([0, len(shadow)])
        elif kind == "subclass":
            class Slotted(mesa.Agent):
                __slots__ = ("a0", "__weakref__") if False else ()      # plain subclass; slots on Agent subclasses keep __dict__

            class DocSet(AgentSet):
                """a subclass that only adds a docstring"""

            class ExtraSet(AgentSet):
                kind_default = "herd"            # class-level default

                def __init__(self, agents, random=None, tag="t"):
                    super().__init__(agents, random)
                    self.tag = tag

                def add(self, agent):            # an overridden public hook that calls super()
                    self.added = getattr(self, "added", 0) + 1
                    super().add(agent)

            Cls = {"doc": DocSet, "extra": ExtraSet, "slots_agents": DocSet}[case["cls"]]
            agents = [(Slotted if case["cls"] == "slots_agents" else mesa.Agent)(model) for _ in range(case["n"])]
            for a, v in zip(agents, case["vals"]):
                a.a0 = v
            st = Cls(agents, random=model.random)
            plain = AgentSet(agents, random=model.random)
            half = agents[: len(agents) // 2]
            t = Cls(half, random=model.random)
            checks = {
                "select": (lambda x: x.select(lambda a: a.a0 > 0, at_most=2)), "select-all": (lambda x: x.select()),
                "sort": (lambda x: x.sort("a0")), "sort-asc": (lambda x: x.sort(lambda a: a.a0, ascending=True)),
                "groupby": (lambda x: [(k, ids(v)) for k, v in x.groupby("a0")]), "get": (lambda x: x.get(["a0", "unique_id"])),
                "agg": (lambda x: x.agg("a0", sum)), "slice": (lambda x: ids(x[1:3])), "sub": (lambda x: x - t), "and": (lambda x: x & t),
                "or": (lambda x: t | x), "xor": (lambda x: x ^ t), "le": (lambda x: t <= x), "copy": (lambda x: _copy.copy(x)),
                "select-inplace": (lambda x: _copy.copy(x).select(lambda a: a.a0 > 0, inplace=True)),
                "sort-inplace": (lambda x: _copy.copy(x).sort("a0", inplace=True)),
            }
            for name, f in checks.items():
                try:
                    r1, r2 = f(st), f(plain)
                except Exception as e:  # noqa: BLE001
                    fail(f"subclass/{case['cls']}/{name}/unexpected-exception", f"{type(e).__name__}: {e}")
                    continue
                n1 = ids(r1) if isinstance(r1, AgentSet) else r1
                n2 = ids(r2) if isinstance(r2, AgentSet) else r2
                if n1 != n2:
                    fail(f"subclass/{case['cls']}/{name}/differs-from-AgentSet", f"subclass gives {n1}, AgentSet gives {n2}")
                if isinstance(r2, AgentSet) and not isinstance(r1, AgentSet):
                    fail(f"subclass/{case['cls']}/{name}/result-type", type(r1).__name__)
            st.add(agents[0])
            st.discard(agents[-1])
            plain.discard(agents[-1])
            if ids(consistent(st, "subclass")) != ids(list(plain)):
                fail(f"subclass/{case['cls']}/add-discard", f"{ids(list(st))} vs {ids(list(plain))}")
            obs.append([0, len(st)])
        elif kind == "libattrs":
            # the history WRITES attributes the library itself uses on agents (unique_id, pos) - through AgentSet.set on the set, on
            # a derived set or a copy, plain assignment, map / GroupBy.do with setattr - and then every membership-sensitive query
            # must still behave like the list of the same OBJECTS (identified by a private tag, not by unique_id)
            agents = [mesa.Agent(model) for _ in range(case["n"])]
            for j, a in enumerate(agents):
                a._tag = j
            tags = lambda l: [a._tag for a in l]      # noqa: E731
            st = AgentSet(agents, random=model.random)
            sub = [a for a, kp in zip(agents, case["keep"]) if kp]
            der = st.select(lambda a: case["keep"][a._tag])
            attr, way = case["attr"], case["way"]
            n = len(agents)

            def value(j):
                v = {"const": 7, "shift": j + 100, "swap": n - j, "big": 2 ** 70 + j % 2}[case["values"]]
                return v if attr == "unique_id" else (v, v)
            target = {"set": st, "set-derived": der, "set-copy": _copy.copy(st)}.get(way)
            if target is not None:
                for a in list(target):
                    target_v = value(0)
                target.set(attr, value(0))
                written = {a._tag: value(0) for a in target}
            elif way == "assign":
                for a in agents:
                    setattr(a, attr, value(a._tag))
                written = {a._tag: value(a._tag) for a in agents}
            elif way == "map-setattr":
                st.map(lambda a: setattr(a, attr, value(a._tag)))
                written = {a._tag: value(a._tag) for a in agents}
            else:
                st.groupby(lambda a: a._tag % 2).do(lambda g: [setattr(a, attr, value(a._tag)) for a in g])
                written = {a._tag: value(a._tag) for a in agents}
            for a in agents:
                if a._tag in written and getattr(a, attr) != written[a._tag]:
                    fail(f"libattrs/{attr}-written/not-written", f"agent {a._tag} has {getattr(a, attr)!r}")
            shadow = list(agents)
            tg = f"libattrs/{attr}-written"       # one defect, one key: the first disagreement of a history names it
            _fail0 = fail

            def fail(key, what, _f=_fail0):       # noqa: F811
                if not failures:
                    _f(tg + "/membership-queries-disagree-with-the-list", key.rsplit("/", 1)[-1] + ": " + what)

            def same(got, exp, what):
                if tags(got) != tags(exp):
                    fail(f"{tg}/{what}", f"got objects {tags(got)}, the list gives {tags(exp)}")
            same(consistent(st, tg), shadow, "members-after-write")
            same(list(der), sub, "derived-members-after-write")
            if [a in st for a in agents] != [True] * n or [st.index(a) for a in agents] != list(range(n)) or [st.count(a) for a in agents] != [1] * n:
                fail(f"{tg}/membership", f"in: {[a in st for a in agents]}, index: {[st.index(a) if a in st else None for a in agents]}")
            if [a in der for a in agents] != case["keep"]:
                fail(f"{tg}/membership-derived", f"{[a in der for a in agents]} vs {case['keep']}")
            # set operators and relations with the derived set (identity semantics)
            insub = {id(a) for a in sub}
            same(st - der, [a for a in agents if id(a) not in insub], "sub")
            same(sorted(st & der, key=lambda a: a._tag), sub, "and")
            same(st | der, agents, "or")
            same(st ^ der, [a for a in agents if id(a) not in insub], "xor")
            if (der <= st) is not True or (st == AgentSet(agents[::-1], random=model.random)) is not True or st.isdisjoint(der) != (not sub):
                fail(f"{tg}/relations", f"<=: {der <= st}, ==: {st == AgentSet(agents[::-1], random=model.random)}, isdisjoint: {st.isdisjoint(der)}")
            same(st.select(lambda a: a._tag % 2 == 0, at_most=3), [a for a in agents if a._tag % 2 == 0][:3], "select")
            same(st.sort(lambda a: a._tag % 3, ascending=True), sorted(agents, key=lambda a: a._tag % 3), "sort")
            if len(written) == n:      # otherwise unwritten agents still have pos None: not orderable, for the list neither
                same(st.sort(attr, ascending=False), sorted(agents, key=lambda a: getattr(a, attr), reverse=True), "sort-by-written-attribute")
            gb = [(k, tags(v)) for k, v in st.groupby(attr)]
            keys = list(dict.fromkeys(getattr(a, attr) for a in agents))
            if gb != [(k, [a._tag for a in agents if getattr(a, attr) == k]) for k in keys]:
                fail(f"{tg}/groupby", f"{gb}")
            if sorted(tags(st.shuffle())) != list(range(n)):
                fail(f"{tg}/shuffle", f"{tags(st.shuffle())}")
            same(_copy.copy(st), agents, "copy")
            # add the same agent / discard / remove / add again / pop
            for j in case["picks"]:
                a = agents[j % n]
                present = any(x is a for x in shadow)
                st.add(a)
                if not present:
                    shadow.append(a)
                same(list(st), shadow, "add")
                if j % 3 == 0:
                    st.discard(a)
                    shadow = [x for x in shadow if x is not a]
                    same(list(st), shadow, "discard")
                    st.discard(a)
                    same(list(st), shadow, "discard-absent")
                elif j % 3 == 1:
                    try:
                        st.remove(a)
                    except KeyError:
                        fail(f"{tg}/remove-present-rejected", f"agent {a._tag} is in the set but remove raised KeyError")
                    shadow = [x for x in shadow if x is not a]
                    same(list(st), shadow, "remove")
                    try:
                        st.remove(a)
                        fail(f"{tg}/remove-absent-accepted", f"agent {a._tag}")
                    except KeyError:
                        pass
            if shadow:
                if st.pop() is not shadow.pop(0):
                    fail(f"{tg}/pop", "not the first member")
            same(consistent(st, tg), shadow, "members-at-the-end")
            obs.append([0, len(shadow)])
        else:   # entrypoints: every public way to do the same thing agrees
            agents = [mesa.Agent(model) for _ in range(case["n"])]
            for a, v in zip(agents, case["vals"]):
                a.a0 = v
            s1 = lambda: AgentSet(agents, random=model.random)             # noqa: E731
            t1 = lambda: AgentSet(agents[case["split"]:][::-1], random=model.random)   # noqa: E731
            pairs = {
                "or": (lambda: ids(s1() | t1()), lambda: ids(s1().__or__(t1()))), "ior": (lambda: ids(_op.ior(s1(), t1())), lambda: ids(s1() | t1())),
                "and": (lambda: sorted(ids(s1() & t1())), lambda: sorted(ids(_op.iand(s1(), t1())))),
                "sub": (lambda: ids(s1() - t1()), lambda: ids(_op.isub(s1(), t1()))), "sub-list": (lambda: ids(s1() - t1()), lambda: ids(_op.isub(s1(), list(t1())))),
                "xor": (lambda: ids(s1() ^ t1()), lambda: ids(_op.ixor(s1(), t1()))),
                "contains": (lambda: [a in s1() for a in agents], lambda: [s1().__contains__(a) for a in agents]),
                "len": (lambda: len(s1()), lambda: s1().__len__()), "iter": (lambda: ids(iter(s1())), lambda: [s1()[j].unique_id for j in range(len(agents))]),
                "reversed": (lambda: ids(reversed(s1())), lambda: ids(list(s1())[::-1])),
                "get": (lambda: s1().get("a0"), lambda: [r[0] for r in s1().get(["a0"])]),
                "get-default": (lambda: s1().get("zz", handle_missing="default", default_value=5), lambda: [r[0] for r in s1().get(["zz"], "default", 5)]),
                "map": (lambda: s1().map(lambda a: a.a0), lambda: s1().get("a0")), "agg": (lambda: s1().agg("a0", max) if agents else None, lambda: max(s1().get("a0")) if agents else None),
                "select-all": (lambda: ids(s1().select()), lambda: ids(_copy.copy(s1()))), "ctor": (lambda: ids(AgentSet(s1(), random=model.random)), lambda: ids(s1())),
                "sort-str-callable": (lambda: ids(s1().sort("a0")), lambda: ids(s1().sort(lambda a: a.a0))),
                "sort-inplace": (lambda: ids(s1().sort("a0", inplace=True)), lambda: ids(s1().sort("a0"))),
                "isdisjoint": (lambda: s1().isdisjoint(t1()), lambda: len(s1() & t1()) == 0), "le": (lambda: t1() <= s1(), lambda: all(a in s1() for a in t1())),
                "eq-order": (lambda: s1() == AgentSet(agents[::-1], random=model.random), lambda: True),
                "groupby-count": (lambda: s1().groupby("a0").count(), lambda: s1().groupby(lambda a: a.a0, result_type="list").map(len)),
            }

            def set_vs_loop():
                x = s1()
                r = x.set("a1", 4)
                ok = r is x and [a.a1 for a in agents] == [4] * len(agents)
                for a in x:
                    setattr(a, "a1", 6)
                return ok and [a.a1 for a in agents] == [6] * len(agents)
            pairs["set"] = (set_vs_loop, lambda: True)
            for name, (f, g) in pairs.items():
                try:
                    r1, r2 = f(), g()
                except Exception as e:  # noqa: BLE001
                    fail(f"entrypoints/{name}/unexpected-exception", f"{type(e).__name__}: {e}")
                    continue
                if r1 != r2:
                    fail(f"entrypoints/{name}/disagree", f"{r1} vs {r2}")
            obs.append([0, len(pairs)])
    return {"obs": obs, "failures": failures, "ops_for_model": [], "model": False}


SCALE_SIZES = [255, 256, 257, 300, 512, 1000, 1024, 1025, 2048, 2049]
SCALE_KEYTYPES = ["int", "bool", "float", "npint", "npfloat", "str", "tuple", "frac", "bigint"]


def _scale_value(kt, v):
    """the small key value v (0..3: heavy ties) as a value of the key type kt, in the rich encoding"""
    if kt == "int":
        return v
    if kt == "bool":
        return ["b", bool(v % 2)]
    if kt == "float":
        return ["f", repr(v * 0.1)]
    if kt == "npint":
        return ["np", "int64", str(v)]
    if kt == "npfloat":
        return ["np", "float64", repr(v * 0.5)]
    if kt == "str":
        return ["s", ["pear", "apple", "Apple", "fig"][v]]
    if kt == "tuple":
        return ["t", [v // 2, v % 2]]
    if kt == "frac":
        return ["frac", f"{v}/3"]
    return ["big", str(2 ** 53 + v)]


def _scale_ops(rng, n, modelled):
    """every query of the statement on one big set and on sets derived from it"""
    third, half = n // 3, n // 2
    ops = [["sort", 0, ["attr", 0], False, False, 1], ["sort", 0, ["attr", 0], True, False, 2]]
    if not modelled or rng.random() < 0.5:
        ops.append(["sort", 0, ["mod", 1, 2] if modelled else ["pair", ["attr", 0], ["attr", 1]], rng.random() < 0.5, False, 3])
    ops += [["select", 0, ["le", 1, 1], ["int", third], None, False, 3], ["select", 1, None, ["frac", 1, 1], rng.choice([None, 0, 1]), False, 4],
            ["select", 2, ["eq", 2, 1], ["frac", 3, 2], None, True, 2], ["sort", 3, ["attr", 1], rng.random() < 0.5, True, 3],
            ["setop", 3, 4, rng.choice(["or", "and", "sub", "xor"]), False, 5], ["setop", 4, 3, rng.choice(["or", "and", "sub", "xor"]), True, 5],
            ["groupcount", 0, ["attr", 0]], ["get", 1, [0, 1], False, 1, 0], ["agg", 1, 1, "sum"], ["set", 4, 2, 7],
            ["remove", 0, 256], ["discard", 0, 257], ["add", 0, 256], ["pop", 0], ["index", 0, 255], ["slice", 0, 250, 260],
            ["sort", 0, ["attr", 0], False, True, 0], ["sort", 0, ["attr", 2], True, True, 0], ["groupby", 0, ["attr", 1], "list"]]
    if not modelled:
        ops += [["shuffle", 0, True, 0], ["sort", 0, ["attr", 0], True, True, 0], ["shuffle", 1, False, 5], ["sort", 5, ["attr", 0], False, False, 4],
                ["setcmp", 0, 5, "eq"], ["setcmp", 3, 0, "le"], ["map", 0, ["key", ["attr", 0]]], ["groupmap", 0, ["attr", 0], "agentset", ["len", False]]]
        rng.shuffle(ops)
        ops = [["sort", 0, ["attr", 0], False, False, 1], ["sort", 0, ["attr", 0], True, False, 2]] + ops
    else:
        rest = ops[2:]
        rng.shuffle(rest)
        ops = ops[:2] + rest[:7]         # keep the Gallina evaluation cheap: the model's table lookups are linear
    return ops


def _scale_case(rng, n, kt, modelled=False):
    seed = rng.randrange(50)
    agents = []
    for i in range(1, n + 1):
        v0, v1, v2 = (i * i + seed * i + 3) % 4, (i * 7 + seed) % 3, (i + seed) % 2
        agents.append([i % 5, [[0, v0 if modelled else _scale_value(kt, v0)], [1, v1], [2, v2]]])
    c = {"seed": seed, "agents": agents, "init": list(range(1, n + 1)), "ops": _scale_ops(rng, n, modelled)}
    if modelled:
        c["gen"] = [n, seed]         # Model/AgentSet.v gen_agents n seed  (same formulas)
    else:
        c["rich"] = True             # implementation + oracle only
        c["scale"] = [n, kt]
    return c


def _scale_cases(rng, tier, broken=False):
    out = []
    if broken or tier != "quick":
        sizes = SCALE_SIZES + ([4096] if broken or tier != "quick" else [])
        for n in sizes:
            for kt in SCALE_KEYTYPES:
                if n <= 1025 or kt in ("int", "bool", "float", "str") or rng.random() < 0.3:
                    out.append(_scale_case(rng, n, kt))
        for n in (255, 256, 257, 300):
            out.append(_scale_case(rng, n, "int", modelled=True))
    else:
        # quick: a handful - the thresholds with plain ints, one other key type per run, one population also in Coq
        for n in (255, 256, 257, 1025):
            out.append(_scale_case(rng, n, "int"))
        out.append(_scale_case(rng, rng.choice([512, 2049]), rng.choice(SCALE_KEYTYPES[1:])))
        out.append(_scale_case(rng, rng.choice([256, 257]), "int", modelled=True))
    return out


def gen_cases(rng, tier):
    cases = list(_corner_cases())
    cases += _scale_cases(rng, tier)
    cases += _user_cases(rng, tier)
    for _ in range(100 if tier == "quick" else 3000):
        cases.append(_rand_rich_case(rng))
    n = 800 if tier == "quick" else 24000
    for _ in range(n):
        if tier != "quick" and rng.random() < 0.2:
            cases.append(_rand_case(rng, nmax=12, maxops=32))
        else:
            cases.append(_rand_case(rng))
    return cases


def _corner_cases():
    """the corner cases the quantifier names, deterministic"""
    ags = [[0, [[0, 1], [1, 0]]], [1, [[0, 0], [1, 1]]], [2, [[0, 1], [1, 1]]], [3, [[0, 0]]], [0, [[0, 1], [2, 5]]]]
    ids = [1, 2, 3, 4, 5]
    # ties in both directions, str and callable keys
    yield {"seed": 1, "agents": ags, "init": ids, "ops": [
        ["sort", 0, ["attr", 0], False, False, 1], ["sort", 0, ["attr", 0], True, False, 2],
        ["sort", 0, ["neg", 0], True, False, 3], ["sort", 1, ["idmod", 2], False, True, 0],
        ["sort", 0, ["attr", 1], True, True, 0], ["sort", 2, ["attr", 2], True, False, 4]]}
    yield {"seed": 1, "agents": ags, "init": ids, "ops": [
        ["sort", 0, ["pair", ["attr", 0], ["idmod", 2]], False, False, 1], ["sort", 0, ["pair", ["attr", 0], ["idmod", 2]], True, False, 2],
        ["sort", 1, ["pair", ["idmod", 2], ["neg", 0]], True, True, 0], ["sort", 0, ["pair", ["attr", 0], ["attr", 1]], True, True, 0],
        ["sort", 2, ["pair", ["cls"], ["attr", 0]], False, False, 3]]}
    yield {"seed": 1, "agents": [[0, [[0, v], [1, w]]] for v, w in [(4, 0), (2, 1), (6, 1), (12, 0), (0, 1), (7, 0), (9, 1), (3, 0)]],
           "init": [1, 2, 3, 4, 5, 6, 7, 8], "ops": [
        ["sort", 0, ["name", 0], True, False, 1], ["sort", 0, ["name", 0], False, False, 2], ["groupby", 0, ["name", 0], "agentset"],
        ["sort", 0, ["pair", ["attr", 1], ["name", 0]], True, True, 0], ["groupcount", 0, ["name", 0]], ["map", 0, ["key", ["name", 0]]],
        ["grouplookup", 0, ["attr", 1], 1, "list"], ["grouplookup", 0, ["attr", 1], 5, "list"], ["grouplookup", 0, ["attr", 1], 5, "agentset"],
        ["grouplookup", 0, ["attr", 1], 0, "agentset"]]}
    # every at_most form against the same set
    ams = [["inf"], ["int", 0], ["int", 1], ["int", 2], ["int", 5], ["int", 6], ["frac", 0, 0], ["frac", 1, 0],
           ["frac", 1, 1], ["frac", 1, 2], ["frac", 3, 2], ["frac", 1, 3], ["frac", 7, 3], ["frac", 15, 4]]
    yield {"seed": 2, "agents": ags, "init": ids, "ops": [["select", 0, None, am, None, False, 1] for am in ams]}
    yield {"seed": 2, "agents": ags, "init": ids, "ops": [["select", 0, ["le", 0, 0], am, None, False, 1] for am in ams]}
    yield {"seed": 2, "agents": ags, "init": ids, "ops": [["select", 0, None, am, 0, False, 1 + i % 2] for i, am in enumerate(ams)]}
    # a filter object whose truth value is False is still a filter; agents whose truth value is False are agents
    fa = [[4, [[0, 1]]], [0, [[0, 0]]], [4, [[0, 0], [1, 2]]], [1, [[0, 1]]]]
    yield {"seed": 11, "agents": fa, "init": [1, 2, 3, 4], "ops": [
        ["select", 0, ["falsy", ["le", 0, 0]], ["inf"], None, False, 1], ["select", 0, ["falsy", ["false"]], ["int", 2], None, False, 2],
        ["select", 0, ["falsy", ["le", 0, 0]], ["frac", 1, 1], 4, True, 0], ["select", 1, None, ["inf"], 4, False, 3], ["sort", 1, ["cls"], True, False, 4],
        ["shuffle", 1, False, 5], ["groupby", 1, ["cls"], "list"], ["setop", 1, 3, "sub", False, 5], ["pop", 1], ["contains", 1, 3], ["indexof", 1, 3]]}
    # subclasses
    yield {"seed": 3, "agents": ags, "init": ids, "ops": [["select", 0, None, ["inf"], ty, False, 1 + ty] for ty in range(4)]
           + [["select", 0, ["true"], ["int", 1], ty, True, 0] for ty in (1,)] + [["len", 0]]}
    # empty set
    yield {"seed": 4, "agents": ags, "init": [], "ops": [
        ["select", 0, None, ["frac", 1, 1], None, False, 1], ["sort", 0, ["attr", 2], False, False, 2], ["shuffle", 0, False, 3],
        ["shuffle", 0, True, 0], ["groupby", 0, ["attr", 2], "agentset"], ["get", 0, [2], True, 0, 0], ["agg", 0, 0, "min"],
        ["agg", 0, 0, "sum"], ["map", 0, ["meth", 1]], ["index", 0, 0], ["slice", 0, None, None], ["remove", 0, 1],
        ["discard", 0, 1], ["add", 0, 2], ["add", 0, 2], ["len", 0], ["iter", 0]]}
    # missing attributes: both handle_missing modes, failing filter / key leave everything as it was
    yield {"seed": 5, "agents": ags, "init": ids, "ops": [
        ["get", 0, [1], True, 0, 0], ["get", 0, [1], True, 1, -7], ["get", 0, [0, 2], False, 1, 9], ["get", 0, [0, 2], False, 0, 9],
        ["get", 0, [0], True, 2, 0], ["select", 0, ["le", 1, 0], ["inf"], None, True, 0], ["select", 0, ["le", 1, 0], ["int", 1], None, True, 0],
        ["sort", 0, ["attr", 2], False, True, 0], ["groupby", 0, ["attr", 1], "list"], ["agg", 0, 1, "max"], ["map", 0, ["key", ["neg", 2]]],
        ["groupcount", 0, ["attr", 0]], ["groupcount", 0, ["attr", 1]], ["groupagg", 0, ["attr", 0], 0, "min"], ["groupagg", 0, ["cls"], 1, "sum"],
        ["groupagg", 0, ["attr", 0], 1, "max"], ["groupdoset", 0, ["attr", 2], 1, 4], ["groupdoset", 0, ["idmod", 2], 1, 4], ["groupagg", 0, ["attr", 0], 1, "max"],
        ["set", 0, 2, 3], ["get", 0, [2], True, 0, 0], ["sort", 0, ["attr", 2], False, True, 0]]}
    # ordered-set laws
    yield {"seed": 6, "agents": ags, "init": [3, 1, 3, 2, 1], "ops": [
        ["iter", 0], ["add", 0, 1], ["add", 0, 5], ["add", 0, 5], ["discard", 0, 4], ["remove", 0, 4], ["remove", 0, 3], ["remove", 0, 3],
        ["contains", 0, 3], ["contains", 0, 5], ["index", 0, -1], ["index", 0, 3], ["index", 0, -4], ["slice", 0, 1, -1], ["slice", 0, -2, None],
        ["slice", 0, 2, 1], ["len", 0], ["indexof", 0, 2], ["indexof", 0, 4], ["count", 0, 2], ["count", 0, 4], ["reversed", 0],
        ["pop", 0], ["pop", 0], ["clear", 0], ["pop", 0], ["clear", 0], ["reversed", 0]]}
    # set algebra: every operator, copying and in place, a set with itself, comparisons
    so = [["select", 0, ["idmod", 2, 1], ["inf"], None, False, 1], ["sort", 0, ["id"], False, False, 2], ["remove", 2, 5], ["remove", 2, 1]]
    for o in ("or", "and", "sub", "xor"):
        so += [["setop", 1, 2, o, False, 3], ["setop", 2, 1, o, False, 4], ["setop", 0, 0, o, False, 5]]
    so += [["setcmp", 0, 2, c] for c in ("eq", "le", "disjoint")] + [["setcmp", 2, 0, "le"], ["setcmp", 1, 5, "disjoint"], ["setcmp", 0, 0, "eq"]]
    yield {"seed": 8, "agents": ags, "init": ids, "ops": so}
    so2 = [["select", 0, ["idmod", 2, 1], ["inf"], None, False, 1], ["sort", 0, ["id"], False, False, 2], ["remove", 2, 5], ["remove", 2, 1]]
    for o in ("or", "and", "sub", "xor"):
        so2 += [["select", 1, None, ["inf"], None, False, 3], ["setop", 3, 2, o, True, 0], ["select", 2, None, ["inf"], None, False, 4],
                ["setop", 4, 1, o, True, 0], ["select", 0, None, ["inf"], None, False, 5], ["setop", 5, 5, o, True, 0]]
    yield {"seed": 8, "agents": ags, "init": ids, "ops": so2}
    # GroupBy.map / do: method names and callables on both result types
    gm = []
    for rt in ("agentset", "list"):
        gm += [["groupby", 0, ["attr", 0], rt], ["groupmap", 0, ["attr", 0], rt, ["len", True]], ["groupmap", 0, ["attr", 0], rt, ["len", False]],
               ["groupmap", 0, ["cls"], rt, ["sum", 0]], ["groupmap", 0, ["cls"], rt, ["sum", 1]], ["groupmap", 0, ["attr", 0], rt, ["get", 0]],
               ["groupmap", 0, ["attr", 0], rt, ["get", 2]], ["groupdo", 0, ["attr", 0], rt, True, 1, 7], ["groupdo", 0, ["attr", 0], rt, False, 2, 8],
               ["groupmap", 0, ["attr", 2], rt, ["len", False]]]
    gm += [["clear", 0], ["groupmap", 0, ["attr", 0], "list", ["get", 0]], ["groupdo", 0, ["attr", 0], "list", True, 1, 7]]
    yield {"seed": 9, "agents": ags, "init": ids, "ops": gm}
    # the boundary of the quantifier: at_most < 0 and floats above 1.0 (documented by theorems, not judged by the oracle)
    yield {"seed": 10, "agents": ags, "init": ids, "ops": [
        ["select", 0, None, ["frac", 5, 1], None, False, 1], ["select", 0, None, ["frac", 3, 1], None, False, 2],
        ["select", 0, ["le", 0, 0], ["frac", 9, 2], None, False, 3], ["select", 0, None, ["int", -1], None, False, 4],
        ["select", 0, ["le", 1, 0], ["int", -2], None, False, 5], ["select", 0, ["le", 1, 0], ["frac", -1, 1], None, False, 5],
        ["select", 0, None, ["frac", 33, 4], 0, True, 0], ["select", 0, None, ["frac", -3, 2], None, True, 0]]}
    # copies are detached from the original and from one another
    yield {"seed": 7, "agents": ags, "init": ids, "ops": [
        ["select", 0, None, ["inf"], None, False, 1], ["select", 0, None, ["inf"], None, True, 2], ["remove", 1, 2], ["add", 1, 2], ["shuffle", 1, True, 0],
        ["sort", 1, ["id"], True, False, 2], ["discard", 2, 1], ["shuffle", 0, False, 3], ["select", 3, ["idmod", 2, 1], ["inf"], None, True, 0],
        ["groupget", 0, ["cls"], 0, 4], ["groupget", 0, ["cls"], 7, 4], ["remove", 4, 1], ["iter", 0]]}


def enumerate_cases(tier, broken=False):
    """targeted sweep: every member list over <= 4 agents with a0 in {0,1} (all tie patterns) and two classes x
    every select(pred, at_most, type, inplace) / sort(key, direction, inplace) / groupby, each followed by the
    same call on the derived set."""
    if broken or tier == "thorough":
        import random as _random
        for c in _scale_cases(_random.Random(4242), tier, broken=True):
            c.pop("gen", None)
            yield c
        for c in _user_cases(_random.Random(4343), tier, broken=True):
            yield c
    nmax = 4 if (tier == "thorough" or broken) else 2
    preds = [None, ["true"], ["false"], ["le", 0, 0], ["not", ["le", 0, 0]], ["idmod", 2, 0]]
    for n in range(0, nmax + 1):
        ams = [["inf"], ["frac", 0, 0], ["frac", 1, 0], ["frac", 1, 1], ["frac", 1, 2], ["frac", 3, 2], ["frac", 5, 3]] + [["int", k] for k in range(n + 2)]
        for vals in itertools.product([0, 1], repeat=n):
            agents = [[(i + v) % 2, [[0, v], [1, (i * 7) % 3]]] for i, v in enumerate(vals)]
            ids = list(range(1, n + 1))
            ops = []
            for p in preds:
                for am in ams:
                    for ty in (None, 0, 1):
                        ops.append(["select", 0, p, am, ty, False, 1])
                        ops.append(["select", 1, p, am, ty, True, 1])
            for key in (["attr", 0], ["neg", 0], ["attr", 1], ["idmod", 2], ["cls"]):
                for asc in (False, True):
                    ops.append(["sort", 0, key, asc, False, 2])
                    ops.append(["sort", 2, ["attr", 0], asc, True, 2])
                    ops.append(["groupby", 2, key, "agentset"])
                    ops.append(["shuffle", 2, False, 3])
                    ops.append(["sort", 3, key, asc, True, 3])
            for s in range(0, len(ops), 60):
                yield {"seed": n, "agents": agents, "init": ids, "ops": ops[s:s + 60]}


# ------------------------------------------------------------------ implementation side
_CLASSES = None


def _classes():
    global _CLASSES
    if _CLASSES is None:
        import mesa

        class A(mesa.Agent):
            def plus(self, c):
                return self.a0 + c

        class B(A):
            pass

        class C(B):
            pass

        class D(A):
            pass

        class Falsy:      # a mixin placed after the framework base in the MRO
            def __bool__(self):
                return False

            def __len__(self):
                return 0

        class F(A, Falsy):    # agents whose truth value is False
            pass

        class G(A):           # rich (oracle-only) stream: attributes that do not live in the instance __dict__
            a2 = 42           # a class-level attribute

            @property
            def a1(self):     # a computed attribute
                return getattr(self, "_a1", 7)

            @a1.setter
            def a1(self, v):
                self._a1 = v

        _CLASSES = [A, B, C, D, F, G]
    return _CLASSES


def _mk_pred(p):
    k = p[0]
    if k == "true":
        return lambda a: True
    if k == "false":
        return lambda a: False
    if k == "le":
        name, c = f"a{p[1]}", _val(p[2])
        return lambda a: getattr(a, name) <= c
    if k == "eq":
        name, c = f"a{p[1]}", _val(p[2])
        return lambda a: getattr(a, name) == c
    if k == "idmod":
        m, r = p[1], p[2]
        return lambda a: a.unique_id % m == r
    if k == "falsy":
        inner = _mk_pred(p[1])

        class FalsyFilter:
            def __call__(self, a):
                return inner(a)

            def __len__(self):
                return 0
        return FalsyFilter()
    if k == "not":
        f = _mk_pred(p[1])
        return lambda a: not f(a)
    f, g = _mk_pred(p[1]), _mk_pred(p[2])
    if k == "and":
        return lambda a: f(a) and g(a)
    if k == "or":
        return lambda a: f(a) or g(a)
    raise ValueError(p)


def _mk_key(k, as_callable=False):
    """what is handed to the implementation: a str for ["attr", n] unless a callable is needed"""
    kind = k[0]
    if kind == "pair":        # tuple key (sort only): lexicographic
        f1, f2 = _mk_key(k[1], True), _mk_key(k[2], True)
        return lambda a: (f1(a), f2(a))
    if kind == "attr":
        name = f"a{k[1]}"
        return (lambda a: getattr(a, name)) if as_callable else name
    if kind == "neg":
        name = f"a{k[1]}"
        return lambda a: -getattr(a, name)
    if kind == "mod":
        name, m = f"a{k[1]}", k[2]
        return lambda a: getattr(a, name) % m
    if kind == "id":
        return lambda a: a.unique_id
    if kind == "idmod":
        m = k[1]
        return lambda a: a.unique_id % m
    if kind == "cls":
        cl = _classes()
        return lambda a: cl.index(type(a))
    if kind == "name":        # a string key
        name = f"a{k[1]}"
        return lambda a: NAMES[getattr(a, name) % 10]
    raise ValueError(k)


def _attempt(f):
    try:
        return ("ok", f())
    except Exception as e:  # noqa: BLE001
        return ("err", type(e))


class _OpTimeout(Exception):
    pass


class _Skip(Exception):
    """the operation names a slot that does not exist: no-op in driver and model"""


class _Done(Exception):
    """early normal end of one operation inside the driver (carries the return observation)"""


def _on_alarm(signum, frame):
    raise _OpTimeout("the operation did not return within %d s of CPU time" % OP_TIMEOUT)


OP_TIMEOUT = 2


def run_impl(case):
    import signal

    import mesa
    from mesa.agent import AgentSet

    # an implementation that loops for ever (e.g. clear() when discard stops discarding) must end as a
    # reported failure, not as a hung check: every operation runs under an alarm
    # CPU time of this process (ITIMER_VIRTUAL), not wall-clock: on a heavily loaded machine a worker can be
    # descheduled for seconds, which must not look like a hang
    if case.get("user"):
        return _run_usercode(case, mesa, AgentSet)
    signal.signal(signal.SIGVTALRM, _on_alarm)
    budget = OP_TIMEOUT * (1 + len(case["agents"]) // 100)     # the observer is linear in the population: scale stream
    try:
        # repeating: an exception raised by the handler inside a finaliser / weakref callback is swallowed by
        # the interpreter, so keep firing until it lands in ordinary code
        return _run_impl(case, mesa, AgentSet,
                         lambda on=True: signal.setitimer(signal.ITIMER_VIRTUAL, budget if on else 0, 0.05 if on else 0))
    finally:
        signal.setitimer(signal.ITIMER_VIRTUAL, 0)


def _run_impl(case, mesa, AgentSet, arm):
    import warnings

    cl = _classes()
    model = mesa.Model(seed=case.get("seed", 0))
    agents = []
    for cls, attrs in case["agents"]:
        a = cl[cls](model)
        for n, v in attrs:
            setattr(a, f"a{n}", _val(v))
        agents.append(a)
    byid = {a.unique_id: a for a in agents}
    assert sorted(byid) == list(range(1, len(agents) + 1))
    pool = [None] * NSLOTS
    init_list = [byid[i] for i in case["init"] if i in byid]
    init_copy = list(init_list)
    pool[0] = AgentSet(init_list, random=model.random)
    abandoned = []      # iterators that were started and never finished, kept alive
    # the oracle's own state: plain lists of agents, plain dicts of attributes
    shadow = [None] * NSLOTS
    shadow[0] = list(dict.fromkeys(byid[i] for i in case["init"] if i in byid))
    sattrs = {a.unique_id: {n: getattr(a, f"a{n}") for n in range(NATTR) if hasattr(a, f"a{n}")} for a in agents}

    obs, failures, ops_for_model = [], [], []

    def fail(i, key, what):
        what = what if len(what) <= 700 else what[:500] + " ... " + what[-150:]
        failures.append({"key": key, "op": i, "what": what})
        if key.split("/")[-1] in ("state-changed-by-rejected-call",):
            failures.append({"key": "C18/" + key.split("/", 1)[1], "op": i, "what": what})

    def ids(l):
        return [a.unique_id for a in l]

    def obs_state():
        o = [-7]
        for s in range(NSLOTS):
            o += [-4] if pool[s] is None else [-5] + ids(pool[s])
        o.append(-6)
        for a in agents:
            for n in range(NATTR):
                o += [1, _z(getattr(a, f"a{n}"))] if hasattr(a, f"a{n}") else [0, 0]
        return o

    def check_state(i, kind, touched_slot=None, rejected=False):
        """frame + ordered-set consistency of every set of the pool against the oracle's lists"""
        for s in range(NSLOTS):
            if pool[s] is None:
                continue
            got = list(pool[s])
            if ids(got) != ids(shadow[s]):
                if rejected:
                    fail(i, f"C03/{kind}/state-changed-by-rejected-call",
                         f"{case['ops'][i]} raised but slot {s} changed from {ids(shadow[s])} to {ids(got)}")
                elif s == touched_slot:
                    opi = case["ops"][i]
                    falsy = kind == "select" and opi[2] is not None and opi[2][0] == "falsy"
                    fail(i, "C03/select/falsy-filter-ignored" if falsy else f"C03/{kind}/wrong-result",
                         f"{case['ops'][i]}: slot {s} holds {ids(got)}, list semantics gives {ids(shadow[s])}")
                else:
                    fail(i, f"C03/{kind}/altered-another-set",
                         f"{case['ops'][i]}: slot {s} (not the target) changed from {ids(shadow[s])} to {ids(got)}")
                shadow[s] = got   # resynchronise: one defect, one report
            st = pool[s]
            if len(st) != len(got) or len(set(ids(got))) != len(got):
                fail(i, "C03/ordered-set/len-or-duplicates", f"slot {s}: len()={len(st)}, iteration gives {ids(got)}")
            if len(got) <= 64:
                js = range(len(got))
            else:       # each st[j] builds a list: sample the indices (thresholds, ends) instead of all of them
                js = sorted({j for j in (0, 1, 7, 8, 31, 32, 63, 64, 127, 128, 254, 255, 256, 257, 511, 512, 1023, 1024, 1025, 2047, 2048,
                                         len(got) // 2, len(got) - 2, len(got) - 1) if 0 <= j < len(got)})
            if [st[j] for j in js] != [got[j] for j in js] or st[:] != got:
                fail(i, "C03/ordered-set/indexing-disagrees-with-iteration", f"slot {s}: iteration {ids(got)}, indexing {[st[j].unique_id for j in js]}")
            gotset = {id(a) for a in got}
            if [a for a in agents if a in st] != [a for a in agents if id(a) in gotset]:
                fail(i, "C03/ordered-set/membership-disagrees-with-iteration", f"slot {s}: iteration {ids(got)}")
        for a in agents:
            cur = {n: getattr(a, f"a{n}") for n in range(NATTR) if hasattr(a, f"a{n}")}
            if cur != sattrs[a.unique_id]:
                fail(i, f"C03/{kind}/" + ("state-changed-by-rejected-call" if rejected else "wrong-attributes"),
                     f"{case['ops'][i]}: attributes of agent {a.unique_id} are {cur}, expected {sattrs[a.unique_id]}")
                sattrs[a.unique_id] = cur

    hung = False
    for i, op in enumerate(case["ops"]):
        if hung:     # the implementation did not come back from an earlier operation: stop using these objects
            ops_for_model.append(op if op[0] != "shuffle" else ["shuffle", op[1], [], op[2], op[3]])
            obs.append([-1, 98])
            continue
        arm()
        kind = op[0]
        s = op[1]
        mop = op
        if not (isinstance(s, int) and 0 <= s < NSLOTS) or pool[s] is None:
            if kind == "shuffle":
                mop = ["shuffle", s, [], op[2], op[3]]
            ops_for_model.append(mop)
            obs.append([-2] + obs_state())
            continue
        st = pool[s]
        before = list(shadow[s])
        ref_err = None      # the exception TYPE the same operation on the member list raises, if any
        ret = None
        touched = None
        exc = None
        try:
            if kind in ("select", "sort", "shuffle", "groupget"):
                d = op[-1]
                if not (0 <= d < NSLOTS):
                    if kind == "shuffle":
                        mop = ["shuffle", s, [], op[2], op[3]]
                    ops_for_model.append(mop)
                    obs.append([-2] + obs_state())
                    continue
            if kind == "select":
                _, _, p, am, ty, inplace, d = op
                f = _mk_pred(p) if p is not None else None
                tycls = cl[ty] if ty is not None else None
                n_alt = None
                if am[0] == "inf":
                    at_most, n = float("inf"), None
                elif am[0] == "int":
                    at_most, n = am[1], am[1]
                elif am[0] == "frac":
                    at_most, n = am[1] / float(2 ** am[2]), (len(before) * am[1]) >> am[2]
                elif am[0] == "npfloat":       # numpy.float64 is a float
                    import numpy as np
                    at_most, n = np.float64(am[1] / float(2 ** am[2])), (len(before) * am[1]) >> am[2]
                elif am[0] == "npint":         # numpy.int64 is a count
                    import numpy as np
                    at_most, n = np.int64(am[1]), am[1]
                elif am[0] == "bool":          # True is the int 1
                    at_most, n = bool(am[1]), int(am[1])
                elif am[0] == "big":
                    at_most = n = int(am[1])
                else:                          # "real": a non-dyadic float in [0, 1], e.g. 0.7: the floor of the exact
                    from fractions import Fraction    # binary value or of the decimal the user wrote are both accepted
                    at_most = float(am[1])
                    n = int(Fraction(at_most) * len(before))
                    n_alt = int(Fraction(am[1]) * len(before))
                boundary = (am[0] == "int" and am[1] < 0) or (am[0] == "frac" and (am[1] < 0 or am[1] > 2 ** am[2]))
                keepf = lambda a: (f is None or f(a)) and (tycls is None or isinstance(a, tycls))  # noqa: E731
                if boundary:
                    # outside the statement's quantifier: the model documents what the code does (T2 compares), the
                    # oracle only demands an in-order sub-list and the frames
                    kwb = {"at_most": at_most}
                    if f is not None:
                        kwb["filter_func"] = f
                    if tycls is not None:
                        kwb["agent_type"] = tycls
                    res = st.select(inplace=inplace, **kwb)
                    got = list(res)
                    it = iter(before)
                    if not all(any(x is y for y in it) for x in got):
                        fail(i, "C03/select/not-an-ordered-sublist", f"{op} on {ids(before)}: got {ids(got)}")
                    if inplace:
                        shadow[s], touched = got, s
                    else:
                        pool[d], shadow[d], touched = res, got, d
                    raise _Done([1 if res is st else 0])
                eager = _attempt(lambda: [a for a in before if keepf(a)][:n])
                lazy = _attempt(lambda: list(itertools.islice((a for a in before if keepf(a)), n)))
                ref_err = eager[1] if eager[0] == "err" else None
                if n_alt is not None and n_alt != n:
                    # float rounding: take the reading (exact binary value / the decimal the user wrote) the copying form follows
                    probe = _attempt(lambda: ids(st.select(inplace=False, filter_func=f, at_most=at_most, agent_type=tycls)))
                    alt = _attempt(lambda: ids(list(itertools.islice((a for a in before if keepf(a)), n_alt))))
                    if probe[0] == "ok" and alt[0] == "ok" and probe[1] == alt[1]:
                        n = n_alt
                        eager = _attempt(lambda: [a for a in before if keepf(a)][:n])
                        lazy = _attempt(lambda: list(itertools.islice((a for a in before if keepf(a)), n)))
                kw = {}
                if f is not None:
                    kw["filter_func"] = f
                if tycls is not None:
                    kw["agent_type"] = tycls
                if am[0] != "inf" or i % 2:
                    kw["at_most"] = at_most
                if inplace and eager[0] == "ok":
                    twin = st.select(inplace=False, **kw)     # the copying form of the same call
                    if list(st) != before:
                        fail(i, "C03/select/copy-altered-original", f"{op}: original {ids(before)} became {ids(st)}")
                    if ids(twin) != ids(eager[1]):
                        fail(i, "C03/select/falsy-filter-ignored" if (p is not None and p[0] == "falsy") else "C03/select/wrong-result", f"{op} (copy form) on {ids(before)}: got {ids(twin)}, list semantics gives {ids(eager[1])}")
                if len(kw) == 3 and i % 3 == 0:      # the same call spelled with positional arguments
                    res = st.select(kw["filter_func"], kw["at_most"], inplace, kw["agent_type"])
                else:
                    res = st.select(inplace=inplace, **kw)
                exp = eager[1] if eager[0] == "ok" else (lazy[1] if lazy[0] == "ok" else None)
                if exp is None:
                    fail(i, "C03/select/falsy-filter-ignored" if (p is not None and p[0] == "falsy") else "C03/select/no-exception", f"{op} on {ids(before)}: the filter raises {lazy[1].__name__} on a needed agent but select returned {ids(res)}")
                    exp = list(res)
                if inplace:
                    if res is not st:
                        fail(i, "C03/select/inplace-returns-other-object", f"{op}: select(inplace=True) did not return the set itself")
                    shadow[s], touched = exp, s
                else:
                    if res is st:
                        fail(i, "C03/select/copy-aliases-original", f"{op}: select(inplace=False) returned the original object")
                    pool[d], shadow[d], touched = res, exp, d
                    if d != s and ids(st) != ids(before):
                        fail(i, "C03/select/copy-altered-original", f"{op}: original {ids(before)} became {ids(st)}")
                ret = [1 if res is st else 0]
            elif kind == "sort":
                _, _, key, asc, inplace, d = op
                kf = _mk_key(key)
                kc = _mk_key(key, as_callable=True)
                keys = _attempt(lambda: {a.unique_id: kc(a) for a in before})
                cmp_ok = _attempt(lambda: sorted(before, key=kc))
                ref_err = keys[1] if keys[0] == "err" else (cmp_ok[1] if cmp_ok[0] == "err" else None)
                if inplace and keys[0] == "ok" and cmp_ok[0] == "ok":
                    twin = st.sort(kf, ascending=asc, inplace=False)
                    if list(st) != before:
                        fail(i, "C03/sort/copy-altered-original", f"{op}: original {ids(before)} became {ids(st)}")
                    twin_ids = ids(twin)
                else:
                    twin_ids = None
                if i % 3 == 0:
                    res = st.sort(kf, asc, inplace)       # positional
                else:
                    res = st.sort(kf, **({"ascending": asc} if asc or i % 2 else {}), inplace=inplace)
                got = list(res)
                if keys[0] != "ok":
                    fail(i, "C03/sort/no-exception", f"{op} on {ids(before)}: the key raises {keys[1].__name__} but sort returned {ids(got)}")
                else:
                    kv = keys[1]
                    pos = {a.unique_id: j for j, a in enumerate(before)}
                    g = ids(got)
                    if sorted(g) != sorted(ids(before)) or len(set(g)) != len(g):
                        fail(i, "C03/sort/not-a-permutation", f"{op} on {ids(before)}: got {g}")
                    else:
                        for x, y in zip(g, g[1:]):
                            if (kv[x] > kv[y]) if asc else (kv[x] < kv[y]):
                                fail(i, "C03/sort/wrong-order", f"{op} on {ids(before)} keys {kv}: got {g} ({x} before {y})")
                                break
                            if kv[x] == kv[y] and pos[x] > pos[y]:
                                fail(i, "C03/sort/not-stable", f"{op} on {ids(before)} keys {kv}: got {g}; {x} and {y} tie and were in the other order")
                                break
                    if twin_ids is not None and twin_ids != g:
                        fail(i, "C03/sort/inplace-differs-from-copy", f"{op} on {ids(before)}: in place {g}, copy {twin_ids}")
                if inplace:
                    if res is not st:
                        fail(i, "C03/sort/inplace-returns-other-object", f"{op}: sort(inplace=True) did not return the set itself")
                    shadow[s], touched = got, s
                else:
                    if res is st:
                        fail(i, "C03/sort/copy-aliases-original", f"{op}: sort(inplace=False) returned the original object")
                    pool[d], shadow[d], touched = res, got, d
                    if d != s and ids(st) != ids(before):
                        fail(i, "C03/sort/copy-altered-original", f"{op}: original {ids(before)} became {ids(st)}")
                ret = [1 if res is st else 0]
            elif kind == "shuffle":
                _, _, inplace, d = op
                res = st.shuffle(inplace=inplace) if inplace or i % 2 else st.shuffle()
                got = list(res)
                g = ids(got)
                mop = ["shuffle", s, g, inplace, d]
                if sorted(g) != sorted(ids(before)) or len(set(g)) != len(g):
                    fail(i, "C03/shuffle/not-a-permutation", f"{op} on {ids(before)}: got {g}")
                if inplace:
                    if res is not st:
                        fail(i, "C03/shuffle/inplace-returns-other-object", f"{op}: shuffle(inplace=True) did not return the set itself")
                    shadow[s], touched = got, s
                else:
                    if res is st:
                        fail(i, "C03/shuffle/copy-aliases-original", f"{op}: shuffle(inplace=False) returned the original object")
                    pool[d], shadow[d], touched = res, got, d
                    if d != s and ids(st) != ids(before):
                        fail(i, "C03/shuffle/copy-altered-original", f"{op}: original {ids(before)} became {ids(st)}")
                ret = [1 if res is st else 0]
            elif kind in ("groupby", "groupget"):
                key = op[2]
                kf = _mk_key(key)
                kc = _mk_key(key, as_callable=True)
                keys = _attempt(lambda: [kc(a) for a in before])
                rt = op[3] if kind == "groupby" else "agentset"
                gb = st.groupby(kf, result_type=rt) if (rt != "agentset" or i % 2) else st.groupby(kf)
                groups = [(k, list(v)) for k, v in gb]
                if keys[0] != "ok":
                    fail(i, "C03/groupby/no-exception", f"{op} on {ids(before)}: the key raises {keys[1].__name__} but groupby returned")
                else:
                    expk = list(dict.fromkeys(keys[1]))
                    if [k for k, _ in groups] != expk:
                        fail(i, "C03/groupby/keys-not-in-first-seen-order", f"{op} on {ids(before)} keys {keys[1]}: group keys {[k for k, _ in groups]}")
                    for k, v in groups:
                        e = [a for a, ka in zip(before, keys[1]) if ka == k]
                        if v != e:
                            fail(i, "C03/groupby/group-is-not-the-members-with-that-key-in-order", f"{op} on {ids(before)} keys {keys[1]}: group {k} = {ids(v)}, expected {ids(e)}")
                            break
                    if sorted(a.unique_id for _, v in groups for a in v) != sorted(ids(before)):
                        fail(i, "C03/groupby/not-a-partition", f"{op} on {ids(before)}: groups {[(k, ids(v)) for k, v in groups]}")
                    if gb.count() != {k: len(v) for k, v in groups} or len(gb) != len(groups) or gb.map(len) != gb.count():
                        fail(i, "C03/groupby/count-disagrees", f"{op}: count() = {gb.count()}, groups {[(k, ids(v)) for k, v in groups]}")
                    for k, v in gb:
                        if (rt == "agentset") != isinstance(v, AgentSet):
                            fail(i, "C03/groupby/result-type", f"{op}: group {k} is a {type(v).__name__}")
                            break
                if kind == "groupby":
                    if rt == "list":
                        for _k, _v in gb:
                            _v.clear()       # emptying the returned lists must not touch the set
                    ret = [1 if rt == "agentset" else 0, len(groups)] + [x for k, v in groups for x in [k, len(v)] + ids(v)]
                else:
                    kvq, d = op[3], op[4]
                    res = gb.groups[kvq]
                    exp = [a for a, ka in zip(before, keys[1]) if ka == kvq] if keys[0] == "ok" else list(res)
                    if not exp:
                        fail(i, "C03/groupby/empty-group", f"{op} on {ids(before)}: groups[{kvq}] exists although no member has that key")
                    pool[d], shadow[d], touched = res, exp, d
                    ret = []
            elif kind in ("groupcount", "groupagg", "groupdoset"):
                key = op[2]
                kf = _mk_key(key)
                kc = _mk_key(key, as_callable=True)
                keys = _attempt(lambda: [kc(a) for a in before])
                gb = st.groupby(kf)
                if keys[0] != "ok":
                    fail(i, "C03/groupby/no-exception", f"{op} on {ids(before)}: the key raises {keys[1].__name__} but groupby returned")
                    expg = [(k, list(v)) for k, v in gb]
                else:
                    expg = [(k, [a for a, ka in zip(before, keys[1]) if ka == k]) for k in dict.fromkeys(keys[1])]
                if kind == "groupcount":
                    res = gb.count()
                    if list(res.items()) != [(k, len(v)) for k, v in expg]:
                        fail(i, "C03/groupby/count-wrong", f"{op} on {ids(before)}: got {res}")
                    ret = [len(res)] + [x for k, c in res.items() for x in (k, c)]
                elif kind == "groupagg":
                    n, fn = op[3], op[4]
                    func = {"sum": sum, "min": min, "max": max, "len": len}[fn]
                    e = _attempt(lambda: [(k, func([getattr(a, f"a{n}") for a in v])) for k, v in expg])
                    res = gb.agg(f"a{n}", func)
                    if e[0] != "ok":
                        fail(i, "C03/groupby/agg-no-exception", f"{op} on {ids(before)}: list semantics raises {e[1].__name__}, agg returned {res}")
                    elif list(res.items()) != e[1]:
                        fail(i, "C03/groupby/agg-wrong", f"{op} on {ids(before)}: got {res}, list semantics gives {e[1]}")
                    ret = [x for k, v in res.items() for x in (k, v)]
                else:
                    n, v = op[3], op[4]
                    res = gb.do("set", f"a{n}", v)
                    for a in before:
                        sattrs[a.unique_id][n] = v
                    if res is not gb:
                        fail(i, "C03/groupby/do-returns-other-object", f"{op}: do did not return the GroupBy itself")
                    ret = [1 if res is gb else 0]
            elif kind == "grouplookup":
                key, kvq, rt = op[2], op[3], op[4]
                kf = _mk_key(key)
                kc = _mk_key(key, as_callable=True)
                keys = _attempt(lambda: [kc(a) for a in before])
                gb = st.groupby(kf, result_type=rt)
                if keys[0] != "ok":
                    fail(i, "C03/groupby/no-exception", f"{op} on {ids(before)}: the key raises {keys[1].__name__} but groupby returned")
                res = list(gb.groups[kvq])
                if keys[0] == "ok" and kvq in keys[1]:
                    e = [a for a, ka in zip(before, keys[1]) if ka == kvq]
                    if res != e:
                        fail(i, "C03/groupby/group-is-not-the-members-with-that-key-in-order", f"{op} on {ids(before)}: got {ids(res)}, expected {ids(e)}")
                elif rt == "agentset":
                    fail(i, "C03/groupby/empty-group", f"{op} on {ids(before)}: groups[{kvq}] exists although no member has that key")
                # an absent key on result_type="list" (defaultdict creates an empty group): boundary, not judged
                ret = [len(res)] + ids(res)
            elif kind in ("groupmap", "groupdo"):
                key, rt = op[2], op[3]
                kf = _mk_key(key)
                kc = _mk_key(key, as_callable=True)
                keys = _attempt(lambda: [kc(a) for a in before])
                gb = st.groupby(kf, result_type=rt)
                if keys[0] != "ok":
                    fail(i, "C03/groupby/no-exception", f"{op} on {ids(before)}: the key raises {keys[1].__name__} but groupby returned")
                    expg = [(k, list(v)) for k, v in gb]
                else:
                    expg = [(k, [a for a, ka in zip(before, keys[1]) if ka == k]) for k in dict.fromkeys(keys[1])]
                if kind == "groupmap":
                    gm = op[4]
                    if gm[0] == "len":
                        res = gb.map("__len__") if gm[1] else gb.map(len)
                        e = ("ok", [(k, [len(v)]) for k, v in expg])
                        flat = lambda v: [v]  # noqa: E731
                    elif gm[0] == "sum":
                        name = f"a{gm[1]}"
                        res = gb.map(lambda g: sum(getattr(a, name) for a in g))
                        e = _attempt(lambda: [(k, [sum(getattr(a, name) for a in v)]) for k, v in expg])
                        flat = lambda v: [v]  # noqa: E731
                    else:
                        name = f"a{gm[1]}"
                        res = gb.map("get", name)
                        if rt == "list":    # a list has no method get
                            e = ("err", AttributeError) if expg else ("ok", [])
                        else:
                            e = _attempt(lambda: [(k, [len(v)] + [getattr(a, name) for a in v]) for k, v in expg])
                        flat = lambda v: [len(v)] + list(v)  # noqa: E731
                    got = [(k, flat(v)) for k, v in res.items()]
                    if e[0] != "ok":
                        fail(i, "C03/groupby/map-no-exception", f"{op} on {ids(before)}: list semantics raises {e[1].__name__}, map returned {res}")
                    elif got != e[1]:
                        fail(i, "C03/groupby/map-wrong", f"{op} on {ids(before)}: got {got}, list semantics gives {e[1]}")
                    ret = [x for k, v in got for x in [k] + v]
                else:
                    by_name, n, v = op[4], op[5], op[6]
                    name = f"a{n}"
                    if by_name:
                        res = gb.do("set", name, v)
                        if rt == "list" and expg:
                            fail(i, "C03/groupby/do-no-exception", f"{op} on {ids(before)}: a list has no method set but do returned")
                    else:
                        res = gb.do(lambda g: [setattr(a, name, v) for a in g])
                    for a in before:
                        sattrs[a.unique_id][n] = v
                    if res is not gb:
                        fail(i, "C03/groupby/do-returns-other-object", f"{op}: do did not return the GroupBy itself")
                    ret = [1 if res is gb else 0]
            elif kind in ("setop", "setcmp"):
                import operator as _op
                s2 = op[2]
                if not (isinstance(s2, int) and 0 <= s2 < NSLOTS) or pool[s2] is None or (kind == "setop" and not (0 <= op[5] < NSLOTS)):
                    raise _Skip()
                other = pool[s2]
                b2 = list(shadow[s2])
                def inb(l):
                    members = {id(y) for y in l}
                    return lambda x: id(x) in members
                if kind == "setop":
                    o, inplace, d = op[3], op[4], op[5]
                    fn = {("or", False): _op.or_, ("and", False): _op.and_, ("sub", False): _op.sub, ("xor", False): _op.xor,
                          ("or", True): _op.ior, ("and", True): _op.iand, ("sub", True): _op.isub, ("xor", True): _op.ixor}[(o, inplace)]
                    with warnings.catch_warnings():
                        warnings.simplefilter("ignore")
                        res = fn(st, other)
                    got = list(res)
                    in_a, in_b = inb(before), inb(b2)
                    want = {"or": [x for x in before] + [x for x in b2 if not in_a(x)],
                            "and": [x for x in before if in_b(x)],
                            "sub": [x for x in before if not in_b(x)],
                            "xor": [x for x in before if not in_b(x)] + [x for x in b2 if not in_a(x)]}[o]
                    if sorted(ids(got)) != sorted(ids(want)) or len(set(ids(got))) != len(got):
                        fail(i, "C03/setop/wrong-members", f"{op} on {ids(before)} and {ids(b2)}: got {ids(got)}, the set operation gives {sorted(ids(want))}")
                    if inplace:
                        if res is not st:
                            fail(i, "C03/setop/inplace-returns-other-object", f"{op}: the augmented operator did not return the set itself")
                        shadow[s], touched = got, s
                    else:
                        if res is st or res is other:
                            fail(i, "C03/setop/copy-aliases-operand", f"{op}: the operator returned one of its operands")
                        if not isinstance(res, AgentSet):
                            fail(i, "C03/setop/result-type", f"{op}: the result is a {type(res).__name__}")
                        pool[d], shadow[d], touched = res, got, d
                    ret = [1 if res is st else 0]
                else:
                    c = op[3]
                    r = {"eq": lambda: st == other, "le": lambda: st <= other, "disjoint": lambda: st.isdisjoint(other)}[c]()
                    sa, sb = set(ids(before)), set(ids(b2))
                    e = {"eq": sa == sb, "le": sa <= sb, "disjoint": not (sa & sb)}[c]
                    if bool(r) != e:
                        fail(i, "C03/setcmp/wrong", f"{op} on {ids(before)} and {ids(b2)}: got {r}")
                    ret = [1 if r else 0]
            elif kind == "get":
                _, _, names, single, mode, dflt = op
                dflt = _val(dflt)
                if single and names:
                    arg = f"a{names[0]}"
                    e = _attempt(lambda: [getattr(a, arg) if mode == 0 else getattr(a, arg, dflt) for a in before])
                    flat = lambda r: list(r)  # noqa: E731
                else:
                    arg = [f"a{n}" for n in (names[:1] if single else names)]
                    e = _attempt(lambda: [[getattr(a, x) if mode == 0 else getattr(a, x, dflt) for x in arg] for a in before])
                    flat = lambda r: [x for row in r for x in row]  # noqa: E731
                ref_err = e[1] if e[0] == "err" else None
                arg_copy = list(arg) if isinstance(arg, list) else arg
                hm = {0: "error", 1: "default"}.get(mode, "bogus")
                if mode == 0 and i % 2:
                    res = st.get(arg)
                else:
                    res = st.get(arg, handle_missing=hm, default_value=dflt)
                if mode not in (0, 1):
                    fail(i, "C03/get/unknown-handle_missing-accepted", f"{op}: returned {res}")
                elif e[0] != "ok":
                    fail(i, "C03/get/no-exception", f"{op} on {ids(before)}: an agent lacks the attribute but get returned {res}")
                elif res != e[1]:
                    fail(i, "C03/get/wrong-values", f"{op} on {ids(before)}: got {res}, list semantics gives {e[1]}")
                if arg != arg_copy:
                    fail(i, "C03/get/mutated-argument", f"{op}: the list of names became {arg}")
                ret = [len(res)] + flat(res)
                res.clear()
            elif kind == "set":
                _, _, n, v = op
                v = _val(v)
                res = st.set(f"a{n}", v)
                for a in before:
                    sattrs[a.unique_id][n] = v
                if res is not st:
                    fail(i, "C03/set/returns-other-object", f"{op}: set did not return the set itself")
                ret = [1 if res is st else 0]
            elif kind == "agg":
                _, _, n, fn = op
                func = {"sum": sum, "min": min, "max": max, "len": len}[fn]
                e = _attempt(lambda: func([getattr(a, f"a{n}") for a in before]))
                ref_err = e[1] if e[0] == "err" else None
                res = st.agg(f"a{n}", func)
                if e[0] != "ok":
                    fail(i, "C03/agg/no-exception", f"{op} on {ids(before)}: list semantics raises {e[1].__name__}, agg returned {res}")
                elif res != e[1]:
                    fail(i, "C03/agg/wrong-value", f"{op} on {ids(before)}: got {res}, list semantics gives {e[1]}")
                ret = [res]
            elif kind == "map":
                mf = op[2]
                if mf[0] == "key":
                    kc = _mk_key(mf[1], as_callable=True)
                    e = _attempt(lambda: [kc(a) for a in before])
                    res = st.map(kc)
                else:
                    c = mf[1]
                    e = _attempt(lambda: [getattr(a, "a0") + c for a in before])
                    res = st.map("plus", c) if i % 2 else st.map("plus", c=c)
                ref_err = e[1] if e[0] == "err" else None
                if e[0] != "ok":
                    fail(i, "C03/map/no-exception", f"{op} on {ids(before)}: list semantics raises {e[1].__name__}, map returned {res}")
                elif res != e[1]:
                    fail(i, "C03/map/wrong-values", f"{op} on {ids(before)}: got {res}, list semantics gives {e[1]}")
                ret = [len(res)] + list(res)
            elif kind in ("add", "discard", "remove", "contains", "indexof", "count"):
                a = byid.get(op[2])
                if a is None:
                    ops_for_model.append(mop)
                    obs.append([-2] + obs_state())
                    continue
                present = a in before
                if kind == "add":
                    st.add(a)
                    shadow[s], touched = (before if present else before + [a]), s
                    ret = []
                elif kind == "discard":
                    st.discard(a)
                    shadow[s], touched = [x for x in before if x is not a], s
                    ret = []
                elif kind == "remove":
                    if not present:
                        st.remove(a)
                        fail(i, "C03/remove/absent-agent-accepted", f"{op} on {ids(before)}: remove of an absent agent did not raise")
                    else:
                        st.remove(a)
                    shadow[s], touched = [x for x in before if x is not a], s
                    ret = []
                elif kind == "contains":
                    r = a in st
                    if r != present:
                        fail(i, "C03/contains/wrong", f"{op} on {ids(before)}: `in` gives {r}")
                    ret = [1 if r else 0]
                elif kind == "indexof":
                    e = _attempt(lambda: before.index(a))
                    r = st.index(a)
                    if e[0] != "ok":
                        fail(i, "C03/index/absent-agent-accepted", f"{op} on {ids(before)}: index of an absent agent gives {r}")
                    elif r != e[1]:
                        fail(i, "C03/index/wrong", f"{op} on {ids(before)}: got {r}, list gives {e[1]}")
                    ret = [r]
                else:
                    r = st.count(a)
                    if r != before.count(a):
                        fail(i, "C03/count/wrong", f"{op} on {ids(before)}: got {r}")
                    ret = [r]
            elif kind == "len":
                r = len(st)
                if r != len(before):
                    fail(i, "C03/len/wrong", f"{op} on {ids(before)}: len gives {r}")
                ret = [r]
            elif kind == "index":
                e = _attempt(lambda: before[op[2]])
                r = st[op[2]]
                if e[0] != "ok":
                    fail(i, "C03/getitem/no-exception", f"{op} on {ids(before)}: list indexing raises, the set returned {r.unique_id}")
                elif r is not e[1]:
                    fail(i, "C03/getitem/wrong", f"{op} on {ids(before)}: got {r.unique_id}, list gives {e[1].unique_id}")
                ret = [r.unique_id]
            elif kind == "slice":
                r = st[op[2]:op[3]]
                e = before[op[2]:op[3]]
                if list(r) != e:
                    fail(i, "C03/getitem/wrong-slice", f"{op} on {ids(before)}: got {ids(r)}, list gives {ids(e)}")
                for step in (2, -1, -2):     # extended slices (not in the model): list semantics
                    if list(st[op[2]:op[3]:step]) != before[op[2]:op[3]:step]:
                        fail(i, "C03/getitem/wrong-slice", f"{op} with step {step} on {ids(before)}: got {ids(st[op[2]:op[3]:step])}")
                r.clear()                    # the returned list is the caller's: emptying it must not touch the set
                ret = [len(e)] + ids(e)
            elif kind == "iter":
                it0 = iter(st)
                next(it0, None)
                abandoned.append(it0)        # started, never finished, never released
                r = list(iter(st))
                if r != before:
                    fail(i, "C03/iter/wrong", f"{op} on {ids(before)}: got {ids(r)}")
                ret = ids(r)
            elif kind == "reversed":
                r = list(reversed(st))
                if r != before[::-1]:
                    fail(i, "C03/reversed/wrong", f"{op} on {ids(before)}: got {ids(r)}")
                ret = ids(r)
            elif kind == "pop":
                r = st.pop()
                if not before:
                    fail(i, "C03/pop/empty-set-accepted", f"{op}: pop on an empty set returned {r}")
                elif r is not before[0]:
                    fail(i, "C03/pop/not-the-first-member", f"{op} on {ids(before)}: popped {r.unique_id}")
                shadow[s], touched = before[1:], s
                ret = [r.unique_id]
            elif kind == "clear":
                st.clear()
                shadow[s], touched = [], s
                ret = []
            else:
                raise ValueError(kind)
        except _Done as dn:
            ret = dn.args[0]
        except _Skip:
            ops_for_model.append(mop)
            obs.append([-2] + obs_state())
            continue
        except Exception as e:  # noqa: BLE001
            arm(False)
            exc = e
        ops_for_model.append(mop)
        if exc is None:
            obs.append([0] + [_z(x) for x in ret] + obs_state())
            check_state(i, kind, touched)
        else:
            k = _EXC_KIND.get(type(exc))
            expected = False
            if k == E_ATTR and kind == "grouplookup":
                expected = _would_raise_attr(op, before, cl)
            elif k == E_ATTR and kind == "groupmap":
                gmk = op[4]
                expected = (_would_raise_attr(op, before, cl) or (gmk[0] == "get" and op[3] == "list" and bool(before))
                            or (gmk[0] in ("sum", "get") and any(not hasattr(a, f"a{gmk[1]}") for a in before)))
            elif k == E_ATTR and kind == "groupdo":
                expected = _would_raise_attr(op, before, cl) or (op[4] and op[3] == "list" and bool(before))
            elif k == E_ATTR and kind == "groupagg":
                expected = _would_raise_attr(op, before, cl) or any(not hasattr(a, f"a{op[3]}") for a in before)
            elif k == E_ATTR and kind in ("select", "sort", "groupby", "groupget", "get", "agg", "map", "groupcount", "groupdoset"):
                # legitimate exactly when evaluating the user function over the members raises
                expected = _would_raise_attr(op, before, cl)
            elif k == E_KEY and kind == "remove":
                expected = byid[op[2]] not in before
            elif k == E_KEY and kind == "grouplookup":
                kc = _mk_key(op[2], as_callable=True)
                ks = _attempt(lambda: [kc(a) for a in before])
                expected = ks[0] == "ok" and op[3] not in ks[1] and op[4] == "agentset"
            elif k == E_KEY and kind == "groupget":
                kc = _mk_key(op[2], as_callable=True)
                ks = _attempt(lambda: [kc(a) for a in before])
                expected = ks[0] == "ok" and op[3] not in ks[1]
            elif k == E_VALUE and kind == "get":
                expected = op[4] not in (0, 1)
            elif k == E_VALUE and kind == "agg":
                expected = op[3] in ("min", "max") and not before
            elif k == E_KEY and kind == "pop":
                expected = not before
            elif k == E_VALUE and kind == "indexof":
                expected = byid[op[2]] not in before
            elif k == E_INDEX and kind == "index":
                expected = not (-len(before) <= op[2] < len(before))
            if not expected and ref_err is not None and type(exc) is ref_err and case.get("rich"):
                expected, k = True, 90     # e.g. TypeError from comparing unlike values: list semantics raises it too
            if expected:
                obs.append([-1, k] + obs_state())
            elif isinstance(exc, _OpTimeout):
                hung = True
                obs.append([-1, 98])
                fail(i, f"C03/{kind}/does-not-terminate", f"{op} on {ids(before)}: {exc}")
                continue
            else:
                obs.append([-1, 99] + obs_state())
                fail(i, f"C03/{kind}/unexpected-exception", f"{op} on {ids(before)} raised {type(exc).__name__}: {exc}")
            shadow[s] = before
            check_state(i, kind, None, rejected=True)
    if ids(init_list) != ids(init_copy):
        failures.append({"key": "C03/constructor/mutated-argument", "op": -1,
                         "what": f"the list handed to AgentSet(...) became {ids(init_list)} (was {ids(init_copy)})"})
    out = {"obs": obs, "failures": failures, "ops_for_model": ops_for_model}
    if case.get("rich"):
        out["model"] = False       # values the Z-valued model cannot represent: implementation + oracle only
    return out


def _would_raise_attr(op, before, cl):
    kind = op[0]
    try:
        if kind == "select":
            f = _mk_pred(op[2]) if op[2] is not None else None
            for a in before:
                if f is not None:
                    f(a)
        elif kind in ("sort", "groupby", "groupget", "grouplookup", "groupcount", "groupagg", "groupdoset", "groupmap", "groupdo"):
            kc = _mk_key(op[2], as_callable=True)
            for a in before:
                kc(a)
        elif kind == "get":
            if op[4] != 0:
                return False
            names = op[2][:1] if op[3] else op[2]
            for a in before:
                for n in names:
                    getattr(a, f"a{n}")
        elif kind == "agg":
            for a in before:
                getattr(a, f"a{op[2]}")
        elif kind == "map":
            if op[2][0] == "key":
                kc = _mk_key(op[2][1], as_callable=True)
                for a in before:
                    kc(a)
            else:
                for a in before:
                    getattr(a, "a0")
    except (AttributeError, KeyError):
        return True
    return False


# ------------------------------------------------------------------ model side
def _c_pred(p):
    k = p[0]
    if k == "true":
        return "PTrue"
    if k == "false":
        return "PFalse"
    if k == "le":
        return f"(PAttrLe {L.z(p[1])} {L.z(p[2])})"
    if k == "eq":
        return f"(PAttrEq {L.z(p[1])} {L.z(p[2])})"
    if k == "idmod":
        return f"(PIdMod {L.z(p[1])} {L.z(p[2])})"
    if k == "falsy":          # the model's filter is a filter whatever its truth value
        return _c_pred(p[1])
    if k == "not":
        return f"(PNot {_c_pred(p[1])})"
    return f"({'PAnd' if k == 'and' else 'POr'} {_c_pred(p[1])} {_c_pred(p[2])})"


def _c_key(k):
    kind = k[0]
    if kind == "attr":
        return f"(KAttr {L.z(k[1])})"
    if kind == "neg":
        return f"(KNegAttr {L.z(k[1])})"
    if kind == "mod":
        return f"(KAttrMod {L.z(k[1])} {L.z(k[2])})"
    if kind == "id":
        return "KId"
    if kind == "idmod":
        return f"(KIdMod {L.z(k[1])})"
    if kind == "name":
        return f"(KName {L.z(k[1])})"
    return "KCls"


def _c_am(am):
    if am[0] == "inf":
        return "AInf"
    if am[0] == "int":
        return f"(AInt {L.z(am[1])})"
    return f"(AFrac {L.z(am[1])} {L.z(am[2])})"


def _c_optz(x):
    return "None" if x is None else f"(Some {L.z(x)})"


def _c_op(op):
    k = op[0]
    s = L.z(op[1])
    if k == "select":
        _, _, p, am, ty, inplace, d = op
        ps = "None" if p is None else f"(Some {_c_pred(p)})"
        return f"Select {s} {ps} {_c_am(am)} {_c_optz(ty)} {L.b(inplace)} {L.z(d)}"
    if k == "sort" and op[2][0] == "pair":
        return f"Sort2 {s} {_c_key(op[2][1])} {_c_key(op[2][2])} {L.b(op[3])} {L.b(op[4])} {L.z(op[5])}"
    if k == "sort":
        return f"Sort {s} {_c_key(op[2])} {L.b(op[3])} {L.b(op[4])} {L.z(op[5])}"
    if k == "shuffle":
        if len(op) == 4:     # no recorded outcome (never reached the implementation)
            return f"Shuffle {s} [] {L.b(op[2])} {L.z(op[3])}"
        return f"Shuffle {s} {L.zlist(op[2])} {L.b(op[3])} {L.z(op[4])}"
    if k == "groupby":
        return f"GroupBy {s} {_c_key(op[2])} {L.b(op[3] == 'agentset')}"
    if k == "groupmap":
        gm = op[4]
        g = f"(GMLen {L.b(gm[1])})" if gm[0] == "len" else (f"(GMSumAttr {L.z(gm[1])})" if gm[0] == "sum" else f"(GMGet {L.z(gm[1])})")
        return f"GroupMap {s} {_c_key(op[2])} {L.b(op[3] == 'agentset')} {g}"
    if k == "groupdo":
        return f"GroupDo {s} {_c_key(op[2])} {L.b(op[3] == 'agentset')} {L.b(op[4])} {L.z(op[5])} {L.z(op[6])}"
    if k == "setop":
        o = {"or": "SUnion", "and": "SInter", "sub": "SDiff", "xor": "SXor"}[op[3]]
        return f"SetOp {s} {L.z(op[2])} {o} {L.b(op[4])} {L.z(op[5])}"
    if k == "setcmp":
        c = {"eq": "CEq", "le": "CLe", "disjoint": "CDisjoint"}[op[3]]
        return f"SetCmp {s} {L.z(op[2])} {c}"
    if k == "grouplookup":
        return f"GroupLookup {s} {_c_key(op[2])} {L.z(op[3])} {L.b(op[4] == 'agentset')}"
    if k == "groupget":
        return f"GroupGet {s} {_c_key(op[2])} {L.z(op[3])} {L.z(op[4])}"
    if k == "groupcount":
        return f"GroupCount {s} {_c_key(op[2])}"
    if k == "groupagg":
        fn = {"sum": "FSum", "min": "FMin", "max": "FMax", "len": "FLen"}[op[4]]
        return f"GroupAgg {s} {_c_key(op[2])} {L.z(op[3])} {fn}"
    if k == "groupdoset":
        return f"GroupDoSet {s} {_c_key(op[2])} {L.z(op[3])} {L.z(op[4])}"
    if k == "get":
        return f"Get {s} {L.zlist(op[2])} {L.b(op[3])} {L.z(op[4])} {L.z(op[5])}"
    if k == "set":
        return f"SetAttr {s} {L.z(op[2])} {L.z(op[3])}"
    if k == "agg":
        fn = {"sum": "FSum", "min": "FMin", "max": "FMax", "len": "FLen"}[op[3]]
        return f"Agg {s} {L.z(op[2])} {fn}"
    if k == "map":
        f = f"(MKey {_c_key(op[2][1])})" if op[2][0] == "key" else f"(MMeth {L.z(op[2][1])})"
        return f"Map {s} {f}"
    if k in ("add", "discard", "remove", "contains", "count"):
        return f"{k.capitalize()} {s} {L.z(op[2])}"
    if k == "indexof":
        return f"IndexOf {s} {L.z(op[2])}"
    if k in ("pop", "clear", "reversed"):
        return f"{k.capitalize()} {s}"
    if k == "len":
        return f"Len {s}"
    if k == "index":
        return f"Index {s} {L.z(op[2])}"
    if k == "slice":
        return f"Slice {s} {_c_optz(op[2])} {_c_optz(op[3])}"
    if k == "iter":
        return f"Iter {s}"
    raise ValueError(op)


def coq_case(case):
    if case.get("rich") or case.get("user"):
        return "{| c_agents := []; c_init := []; c_ops := [] |}"
    if case.get("gen"):        # scale stream: the population is described by (n, seed), not listed
        n, seed = case["gen"]
        ops = case.get("_ops_for_model") or case["ops"]
        return (f"{{| c_agents := gen_agents {n} {seed}; c_init := zrange 1 {n}; "
                f"c_ops := {L.lst([_c_op(o) for o in ops])} |}}")
    ags = []
    for i, (cls, attrs) in enumerate(case["agents"]):
        at = L.lst([L.pair(L.z(n), L.z(v)) for n, v in attrs])
        ags.append(f"({i + 1}, {{| a_cls := {L.z(cls)}; a_attrs := {at} |}})")
    n = len(case["agents"])
    init = [i for i in case["init"] if 1 <= i <= n]
    ops = case.get("_ops_for_model") or case["ops"]
    return (f"{{| c_agents := {L.lst(ags)}; c_init := {L.zlist(init)}; "
            f"c_ops := {L.lst([_c_op(o) for o in ops])} |}}")


def op_kinds(case):
    if case.get("user"):
        return ["usercode/" + case["user"] + ("/" + case["op"] + "/" + case["what"] if case["user"] == "callback" else "")]
    out = []
    for op in case["ops"]:
        k = op[0]
        if k in ("select", "sort", "shuffle", "setop"):
            k += "/inplace" if op[-2] else "/copy"
        out.append(k)
    return out


def nontrivial(case):
    obs = case.get("_obs", [])
    if case.get("user"):
        return bool(obs)
    if len(case["ops"]) < 3 or not obs:
        return False
    last = obs[-1]
    filled = sum(1 for x in last if x == -5)
    return filled >= 2 and any(o and o[0] == 0 and len(o) > 2 and o[1] != -7 for o in obs)


LEVEL_TEXT = ("76 machine-checked Coq theorems (each closed under the global context, 19 non-vacuity Examples) over a Gallina model of "
              "AgentSet + GroupBy acting on a pool of sets derived from one another, for every table, pool, member list, DSL term and "
              "history: select = firstn(limit)(filter) with the floor-rounded fraction of the original size, raising exactly when the "
              "counting loop reaches a raising member; sort is THE stable sorted permutation in the requested direction (uniqueness "
              "theorem, tuple keys lexicographic, string keys via an order-isomorphic code), idempotent, commuting with select; shuffle "
              "keeps exactly the members (the legality check accepts exactly the permutations); groups partition the members in "
              "first-seen order, GroupBy.count / agg / map / do on both result types; get / set / agg / map are the list comprehensions; the "
              "ordered-set laws, the inherited pop / clear / index / count / reversed and the set operators (membership and order); in-place "
              "= copy for single operations and for whole sequences of them; copies, queries and rejected calls leave every other set and "
              "every attribute unchanged; no duplicates and no invented member after any history. Code-level T1: the conditions, "
              "arithmetic, loop and branch structure of select / sort / shuffle / get / GroupBy.count / agg are regenerated from "
              "mesa/agent.py on every run and proved equal to the model (bridge lemmas robust to harmless rewrites), the remaining "
              "statements are compared modulo local names; the headline theorems are restated about the generated code "
              "(C03_*_of_source). T2: differential evaluation of model vs implementation on ~930 (quick) / 27 000 (thorough) histories "
              "plus an exhaustive sweep of small shapes; an independent list-semantics oracle supplies the failing input, also on an "
              "oracle-only stream of value domains the model cannot represent. One defect found and repaired: select ignored a filter "
              "object whose truth value is False (fixes/C03-1-select-falsy-filter.diff).")
LEVEL_NOTE = ("Theorems are about the model (tied to the code by T1 + T2); user functions range over small DSLs; attribute values in the "
              "model are ints (strings only as keys from a fixed table) - floats, big ints, str, tuple, bool, Fraction, Decimal, numpy "
              "scalars and None are oracle-only. Not modelled: weak-reference death inside a set and do / shuffle_do (C04), pickling "
              "(C19), the generator of derived sets (C01). Trusted: Coq kernel, pyexpr translator + tables module, the driver / observer, "
              "CPython dict-order and str / tuple comparison semantics as modelled. No axioms.")
TECHNIQUE = ("Coq proof (induction over histories, invariants, refinement to list functions, uniqueness of the stable sort; closed under the "
             "global context) + code-level T1 (source translated to Gallina, bridge lemmas, alpha-normalised statement skeletons) + "
             "vm_compute correspondence + independent list-semantics oracle (incl. an oracle-only rich-value stream)")
DESIGN_REF = "DESIGN.md section 4, C03"
