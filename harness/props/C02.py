"""C02 - the model's agent registry is exact and unique_ids are unique per model.
Model: coq/Model/Registry.v.  The oracle is a shadow history (what was created for which model,
on what remove() was called), stated in Python independently of the Gallina model."""
import itertools

import coqlit as L

ID = "C02"
COQ_PROPERTY_FILE = "Properties/C02.v"
COQ_DEPS = ["Common/ListX.v", "Common/ObsHash.v", "Generated/Tables.v", "Model/Registry.v", "Proofs/RegistryProofs.v",
            "Proofs/RegistryMore.v", "Proofs/RegistryProjection.v"]
COQ_IMPORTS = "From Mesa Require Import Model.Registry."
COQ_CASE_TYPE = "case"
COQ_RUN = "run_case"
TABLE_CONSTRUCTS = ["agent_first_id", "deregister_order", "register_order", "remove_suppresses_keyerror", "registry_skeleton"]
RULE = ("histories = 1-3 coexisting models (more via new_model) + 4-40 ops out of: constructor call, create_agents "
        "(scalar / list / tuple / ndarray / str argument, positional or keyword, length = n and != n, n in -1..4; equal argument "
        "specifications share ONE object across calls and models and must come back unchanged), agent.remove (also of removed "
        "agents), model.deregister_agent, remove_all_agents, in-place shuffle/sort of model.agents and of agents_by_type[c], "
        "do/map/shuffle_do activations of model.agents or agents_by_type[c] whose callbacks remove themselves/others (also agents of "
        "other models), create agents (also for another model) or call remove_all_agents; every 7th history also mutates "
        "model.agents through the AgentSet API (discard/remove/select(inplace=True) with 6 filter forms); every 5th keeps an "
        "abandoned live iterator over every set before each op; eleven agent classes: A, A>B, A>B>C built with type(), D, mesa.Agent "
        "itself, four classes overriding remove() (work then super late; super then work; no super; super then remove() of "
        "ANOTHER agent of the model, chains and cycles), a class with falsy instances, a class with a mixin after mesa.Agent in "
        "the MRO, and the library's own agent families (CellAgent, FixedAgent, Grid2DMovingAgent - unplaced, placed on a cell, taken off "
        "again -, an agent on a legacy MultiGrid, a ContinuousSpaceAgent) through every removal path; a model with agents that came and went before the history (prior history in the process); plus an "
        "oracle-only stream (1/5 more histories, not evaluated by the Z-valued model): twelve exotic payload objects (None, float, "
        "str, tuple, bool, 2**70, numpy scalar, 0-d array, frozenset, dict, Decimal, Fraction) through the constructor and "
        "create_agents, constructors raising before / after super().__init__(), callbacks raising in the middle of an activation, "
        "deepcopy / pickle round trip of a model (directly or through one of its agents / its AgentSet) whose copy must mirror every "
        "view with its own agent objects, go on as a model of its own - continuing its own unique_id sequence - and leave the "
        "original alone, "
        "n = 30; a USER-CODE stream (1/6 more histories, implementation + oracle only, what the user code does is recorded in the shadow history through hooks): a Model subclass overriding register_agent / deregister_agent (calling super; creating a companion inside the registration of another agent, a tombstone or the removal of another agent inside a deregistration), constructors that create / remove agents or raise after super().__init__(), agents assigning their own unique_id (several sharing one), a diamond subclass, each with copies / pickles of the model and further creation in between and at the end; a SCALE stream in every run (registries of 1025 / 2049 / 4097 agents of three classes over two models, oracle-only: bulk create_agents, interleaved single removes, remove_all_agents, agents.do / shuffle_do(\"remove\"), re-creation; 129 / 257 agents also through the model; 21 sizes from 8 to 8193 in the thorough tier and whenever the source moved); every view of every model is observed after every op and the oracle is evaluated after every atomic action "
        "(not inside a running remove()/remove_all_agents()); non-trivial = at least 3 ops, one creation and one removal or "
        "activation; distinct = by SHA1 of the history; enumerator (thorough / on a break): all sequences of length <= 3 (4) over 21 ops")
TRUSTED_BASE = [
    "Coq 8.16.1 kernel (coqc); vm_compute used for evaluating the model in the correspondence, for the examples and the two refutation witnesses; coqchk in the thorough tier",
    "no axioms: Print Assumptions reports 'Closed under the global context' for every C02 theorem",
    "harness/tables/registry.py (T1): first id, statement ORDER of register_agent / deregister_agent (translated), and the statement "
    "skeletons of Agent.__init__, Agent.create_agents, Agent.remove, Model.remove_all_agents and the registry part of Model.__init__, "
    "compared modulo local names, docstrings, annotations, logger calls and message texts; C02_source_first_id / "
    "C02_source_statement_order prove generated = what Model/Registry.v hard-codes",
    "harness/props/C02.py driver+observer, the shadow-history oracle and the Gallina literal printer (T2, differential testing, not a proof)",
    "Model/Registry.v is a hand transcription of Agent.__init__/remove/create_agents and Model.register_agent/"
    "deregister_agent/remove_all_agents, the AgentSet.do/shuffle_do loop and AgentSet.discard/remove/select(inplace) on model.agents; dict "
    "and WeakKeyDictionary = insertion-ordered key list; Python's dynamic dispatch of remove() = a fixed table of four overriding classes",
    "Uint63 primitive hash only in scratch Cases files, never under a theorem",
]
ASSUMPTIONS = [
    "the harness keeps a strong reference to every agent for the whole history (weak-reference death is C04's subject)",
    "in-place shuffle/sort outcomes, select(inplace=True) outcomes and shuffle_do orders are inputs to the model, checked to be "
    "permutations / subsequences",
    "overriding remove() methods are the four modelled shapes (their extra work: constructing agents for self.model, or remove() of "
    "another agent of the SAME model that is still in model.agents); an override touching another model, and user calls of "
    "register_agent, are outside the model",
    "exactness of model.agents is claimed for histories without AgentSet-API removal from model.agents (C02_agents_exact carries the "
    "hypothesis setapi_free; with such removals the weaker C02_agents_sound_any_history holds and the exactness statement is refuted by a witness)",
    "model objects hash by identity (the _ids table is keyed by the model object)",
]
SOURCE_FUNCS = [("mesa/agent.py", "Agent.__init__"), ("mesa/agent.py", "Agent.remove"), ("mesa/agent.py", "Agent.create_agents"),
                ("mesa/model.py", "Model.register_agent"), ("mesa/model.py", "Model.deregister_agent"),
                ("mesa/model.py", "Model.remove_all_agents"), ("mesa/model.py", "Model.agents"), ("mesa/model.py", "Model.agent_types"),
                ("mesa/model.py", "Model.agents_by_type"), ("mesa/agent.py", "AgentSet.do"), ("mesa/agent.py", "AgentSet.shuffle_do"),
                ("mesa/agent.py", "AgentSet.map"), ("mesa/agent.py", "AgentSet.add"), ("mesa/agent.py", "AgentSet.remove"),
                ("mesa/agent.py", "AgentSet.discard"), ("mesa/agent.py", "AgentSet._update")]
NCLS = 11  # A, B(A), C(B), D, mesa.Agent, four classes overriding remove(): E(A), F(D), G(A), H(A), then
#            Zf(A): instances are falsy (__bool__ False, __len__ 0), J(mesa.Agent, Mixin): a mixin AFTER the framework base
#            (classes 11, 12 - constructors that raise before / after super().__init__() - only in the oracle-only stream)
OVERRIDING = (5, 6, 7, 8)
PLAIN = (0, 1, 2, 3, 4, 9, 10, 17, 18, 19, 20, 21)
# 17-21: the library's own Agent families - CellAgent, FixedAgent, Grid2DMovingAgent subclasses (unplaced / placed on a cell of a
# small grid / placed and taken off again, by val % 3), an Agent placed on a legacy MultiGrid, a ContinuousSpaceAgent; registry-wise
# their remove() is Agent.remove, so they are plain classes for the model
CSA_CLS = 21
FIXED_CLS = 18
# FINDINGS (wave 11): "removing an agent is idempotent" is violated by two library classes on /repo HEAD:
#   ContinuousSpaceAgent.remove() a second time raises AttributeError (self.space is None by then),
#   FixedAgent.remove() a second time raises ValueError (its cell is kept and cell.remove_agent(self) runs again).
# Repaired in /repo by fixes/C02-2-*.diff and fixes/C02-3-*.diff; the driver performs the second remove() of such agents
# (on a tree without the repairs ./check C02 reports C02/Agent.remove/raised).  VERIF_C02_LIB_IDEMPOTENT=0 switches it off.
import os as _os2

LIB_SECOND_REMOVE = _os2.environ.get("VERIF_C02_LIB_IDEMPOTENT", "1") != "0"
OWN_ID = 15          # classes 13-16 (Spawner, Killer, OwnId, Dia) and RegModel: user code in the loop, oracle-only stream


def _gen_cls(rng):
    return rng.choice(PLAIN) if rng.random() < 0.75 else rng.choice(OVERRIDING)


def _gen_val(rng, sim, c):
    if c == 4:
        return 0
    if c == 8:      # the creation index of the agent this one will remove along with itself (may not exist yet)
        return rng.randrange(len(sim.born) + 2)
    return rng.randint(0, 9)
E_KEY = 1


# ------------------------------------------------------------------ generation
def _short(l):
    """a long id list for a message: its length, head and tail"""
    l = list(l)
    return l if len(l) <= 24 else f"<{len(l)} agents: {l[:8]} ... {l[-8:]}>"


class _CtorBoom(Exception):
    pass


class _CbBoom(Exception):
    pass


def _exotic(i):
    import decimal
    import fractions

    import numpy as np

    return [None, 1.5, "txt", (1, 2), True, 2 ** 70, np.int64(3), np.array(5), frozenset({1, 2}), {"a": 1}, decimal.Decimal("0.1"),
            fractions.Fraction(1, 3)][i % N_EXOTIC]


class _Sim:
    """the generator's own bookkeeping of which keys exist (approximate after shuffles: only used to
    aim ops at existing agents; a miss is a no-op in driver and model alike)"""

    def __init__(self, n):
        self.n = n
        self.born = []  # (model, cls)
        self.live = [[] for _ in range(n)]
        self.types = [[] for _ in range(n)]

    def create(self, m, c):
        if not 0 <= m < self.n:
            return
        self.born.append((m, c))
        self.live[m].append(len(self.born) - 1)
        if c not in self.types[m]:
            self.types[m].append(c)

    def remove(self, k, dispatch=True):
        if 0 <= k < len(self.born):
            m, c = self.born[k]
            if dispatch and c == 7:
                return
            if dispatch and c == 5:
                self.create(m, 3)
            if k in self.live[m]:
                self.live[m].remove(k)
            if dispatch and c == 6:
                self.create(m, 3)

    def act(self, self_k, a):
        if a[0] == "remove_self":
            self.remove(self_k)
        elif a[0] == "remove":
            self.remove(a[1])
        elif a[0] == "create":
            self.create(a[1], a[2])
        elif a[0] == "create_many":
            if 0 <= a[1] < self.n:
                for _ in range(max(0, a[3])):
                    self.create(a[1], a[2])
        elif a[0] == "remove_all":
            if 0 <= a[1] < self.n:
                for k in list(self.live[a[1]]):
                    self.remove(k)

    def apply(self, op):
        k = op[0]
        if k == "new_model":
            self.n += 1
            self.live.append([])
            self.types.append([])
        elif k in ("create", "create_many", "remove", "remove_all"):
            self.act(None, op)
        elif k == "deregister":
            self.remove(op[1], dispatch=False)
        elif k == "activate":
            m, c = op[1], op[2]
            if 0 <= m < self.n:
                snap = [x for x in self.live[m] if c is None or self.born[x][1] == c]
                sc = {e[0]: e[1] for e in reversed(op[5])}
                for x in snap:
                    self.act(x, sc.get(x, ["nop"]))


def _gen_form(rng, n, c):
    if c == 4:
        return "scalar", 0, "pos"
    kind = rng.choice(["scalar", "list", "list", "tuple", "ndarray", "str"])
    how = rng.choice(["pos", "kw"])
    if kind == "scalar":
        return kind, rng.randint(-3, 9), how
    ln = n if rng.random() < 0.65 else rng.choice([max(0, n - 1), n + 1, 0, 1, 2])
    ln = max(0, ln)
    if kind == "str":
        return kind, [rng.randint(97, 122) for _ in range(ln)], how
    return kind, [rng.randint(-3, 9) for _ in range(ln)], how


def _gen_act(rng, sim, m):
    r = rng.random()
    if r < 0.25:
        return ["remove_self"]
    if r < 0.45:
        pool = sim.live[m] if sim.live[m] and rng.random() < 0.8 else list(range(len(sim.born)))
        return ["remove", rng.choice(pool)] if pool else ["nop"]
    if r < 0.75:
        tm = m if rng.random() < 0.75 else rng.randrange(sim.n)
        c = _gen_cls(rng)
        return ["create", tm, c, _gen_val(rng, sim, c)]
    if r < 0.9:
        tm = m if rng.random() < 0.75 else rng.randrange(sim.n)
        c = _gen_cls(rng)
        n = rng.randint(0, 2)
        return ["create_many", tm, c, n, *_gen_form(rng, n, c)]
    if r < 0.93:
        return ["remove_all", m if rng.random() < 0.7 else rng.randrange(sim.n)]
    return ["nop"]


def _gen_op(rng, sim):
    nlive = sum(len(x) for x in sim.live)
    r = rng.random()
    m = rng.randrange(sim.n)
    if nlive > 14:
        r = 0.45 + r * 0.3
    if r < 0.25 or not sim.born:
        c = _gen_cls(rng)
        return ["create", m, c, _gen_val(rng, sim, c)]
    if r < 0.43:
        c = _gen_cls(rng)
        n = rng.choice([0, 1, 2, 2, 3, 3, 4, -1])
        return ["create_many", m, c, n, *_gen_form(rng, n, c)]
    if r < 0.62:
        # remove: mostly a live agent, sometimes an already removed one (second removal), rarely a bad key
        rr = rng.random()
        live = [k for l in sim.live for k in l]
        if rr < 0.65 and live:
            return ["remove", rng.choice(live)]
        if rr < 0.95:
            return ["remove", rng.randrange(len(sim.born))]
        return ["remove", len(sim.born) + rng.randint(0, 2)]
    if r < 0.67:
        return ["deregister", rng.randrange(len(sim.born))]
    if r < 0.71:
        return ["remove_all", m]
    if r < 0.78:
        return ["reorder_all", m, rng.choice(["shuffle", "sort_val", "sort_uid_desc", "sort_val_asc"])]
    if r < 0.82 and sim.types[m]:
        return ["reorder_type", m, rng.choice(sim.types[m]), rng.choice(["shuffle", "sort_uid_desc"])]
    if r < 0.97:
        c = None
        if sim.types[m] and rng.random() < 0.3:
            c = rng.choice(sim.types[m])
        snap = [x for x in sim.live[m] if c is None or sim.born[x][1] == c]
        script = []
        dens = rng.choice([0.3, 0.6, 1.0])
        for x in snap:
            if rng.random() < dens:
                script.append([x, _gen_act(rng, sim, m)])
        return ["activate", m, c, rng.choice(["do", "do", "map", "shuffle_do"]), rng.choice(["name", "callable"]), script]
    return ["new_model"]


def _gen_setapi(rng, sim):
    m = rng.randrange(sim.n)
    if rng.random() < 0.6 and sim.born:
        live = sim.live[m]
        k = rng.choice(live) if live and rng.random() < 0.8 else rng.randrange(len(sim.born))
        return ["set_discard", m, k, rng.random() < 0.5]
    return ["set_select", m, rng.choice(["even_keys", "val_ge_3", "first2", "all", "none", "half"])]


def _gen_history(rng, nops, setapi=False):
    n = rng.choice([1, 2, 2, 3])
    sim = _Sim(n)
    ops = []
    for _ in range(nops):
        if setapi and sim.born and rng.random() < 0.15:
            ops.append(_gen_setapi(rng, sim))
            continue
        if sim.n >= 4:
            op = _gen_op(rng, sim)
            while op[0] == "new_model":
                op = _gen_op(rng, sim)
        else:
            op = _gen_op(rng, sim)
        # second removal right away, often
        ops.append(op)
        sim.apply(op)
        if op[0] == "remove" and rng.random() < 0.3:
            ops.append(list(op))
    return {"nmodels": n, "ops": ops}


def gen_cases(rng, tier):
    n = 500 if tier == "quick" else 8000
    cases = []
    for i in range(n):
        nops = rng.randint(4, 16) if i % 3 else rng.randint(16, 40)
        # every seventh history also mutates model.agents through the AgentSet API (not a registry operation)
        c = _gen_history(rng, nops, setapi=(i % 7 == 6))
        if i % 5 == 4:
            c["abandon_iter"] = True     # an abandoned, still referenced iterator over every set before each op
        cases.append(c)
    # oracle-only stream (the Z-valued model cannot represent it): exotic payload objects, constructors that raise before /
    # after super().__init__(), callbacks that raise in the middle of an activation, large n
    for i in range(n // 5):
        cases.append(_gen_oracle_only(rng))
    # USER CODE stream (oracle-only): Model subclass overriding register_agent / deregister_agent (calling super, creating or
    # removing agents inside), constructors that create / remove agents or raise after super().__init__(), agents assigning their
    # own unique_id, a diamond subclass; copies / pickles of the model and further creation after each
    for i in range(n // 6):
        cases.append(_gen_usercode(rng))
    return _scale_cases(tier) + cases


def _gen_usercode(rng):
    c = _gen_history(rng, rng.randint(6, 18), setapi=False)
    nm = c["nmodels"]
    ops = []
    nb = 0
    for op in c["ops"]:
        if op[0] in ("reorder_all", "reorder_type", "new_model"):
            continue
        if op[0] == "create" and rng.random() < 0.6:
            cl = rng.choice([0, 0, 1, 12, 13, 14, 15, 16, 16])
            op = ["create", op[1], cl, rng.randrange(nb + 1) if cl == 14 else rng.randint(0, 5)] if cl != 12 else ["create_raise", op[1], 12]
        elif op[0] == "create_many" and rng.random() < 0.5:
            op = ["create_many", op[1], rng.choice([0, 1, 13, 15, 16]), rng.randint(1, 3), "scalar", rng.randint(0, 5), "pos"]
        ops.append(op)
        nb += 2
        if rng.random() < 0.3:
            ops.append(["clone_model", rng.randrange(nm), rng.choice(COPY_KINDS)])
    ops.append(["clone_model", rng.randrange(nm), rng.choice(COPY_KINDS)])
    return {"nmodels": nm, "ops": ops, "oracle_only": True, "usercode": True}


# ---- SCALE stream (harness/SCALE_NOTE.md): registries whose sizes CROSS thresholds.  The big ones are implementation + oracle only
# (thousands of agents are cheap for the implementation and the shadow-history oracle, quadratic for the list-based Gallina model);
# the medium ones (<= 257 agents) also go through the model.
SCALE_QUICK = [1025, 2049, 4097]
SCALE_THOROUGH = [8, 16, 32, 64, 100, 128, 129, 255, 256, 257, 512, 1000, 1001, 1024, 1025, 2048, 2049, 3000, 4096, 4097, 8193]
SCALE_MODEL_QUICK = [129, 257]
SCALE_MODEL_THOROUGH = [8, 16, 17, 32, 33, 64, 65, 100, 128, 129, 255, 256, 257]


def _scale_case(n, variant, oracle_only=True):
    a = n // 3
    bulk = [["create_many", 0, 0, a, "scalar", 1, "pos"], ["create_many", 0, 3, a, "scalar", 2, "kw"],
            ["create_many", 0, 9, n - 2 * a, "scalar", 3, "pos"], ["create_many", 1, 1, 5, "scalar", 4, "pos"]]
    singles = [["remove", k] for k in sorted({1, a, n // 2, n - 1})]          # interleaved single removes
    if variant == 0:
        ops = bulk + singles + [["remove_all", 0], ["create_many", 0, 1, 3, "scalar", 1, "pos"], ["remove_all", 0], ["remove_all", 1]]
    elif variant == 1:
        ops = bulk + [["remove_all", 0], ["create", 0, 0, 1], ["create_many", 0, 3, n, "scalar", 1, "pos"]] + singles + [["remove_all", 0]]
    else:
        ops = bulk + singles + ([["bulk_remove", 0, "do"], ["create_many", 0, 0, n, "scalar", 5, "pos"], ["bulk_remove", 0, "shuffle_do"]]
                                if oracle_only else [["remove_all", 1], ["remove_all", 0], ["create_many", 0, 0, n, "scalar", 5, "pos"]])
        ops += [["remove_all", 0]]
    c = {"nmodels": 2, "ops": ops, "scale": n}
    if oracle_only:
        c["oracle_only"] = True
    return c


def _scale_cases(tier, rng=None):
    big = SCALE_QUICK if tier == "quick" else SCALE_THOROUGH
    med = SCALE_MODEL_QUICK if tier == "quick" else SCALE_MODEL_THOROUGH
    out = [_scale_case(n, i % 3) for i, n in enumerate(big)]
    if tier != "quick":
        out += [_scale_case(n, (i + 1) % 3) for i, n in enumerate(big) if n >= 1000]
    out += [_scale_case(n, i % 2, oracle_only=False) for i, n in enumerate(med)]
    return out


N_EXOTIC = 12
COPY_KINDS = ["pickle0", "pickle2", "pickle5", "pickle_default", "pickle_agent", "pickle_agentset", "deepcopy", "copy_agent"]
# After copy.deepcopy / a pickle round trip a model must continue its OWN unique_id sequence (repaired by e21a71b: Agent._ids is
# keyed by the model object, the model now carries the last id in its state); the clause is always evaluated.
_UID = [0]


def _reg(cls):
    """make a class defined inside the driver picklable by reference: a unique module-level name in this module"""
    import sys

    _UID[0] += 1
    name = f"{cls.__name__}_{_UID[0]}"
    cls.__name__ = cls.__qualname__ = name
    cls.__module__ = __name__
    setattr(sys.modules[__name__], name, cls)
    return cls


def _gen_oracle_only(rng):
    c = _gen_history(rng, rng.randint(6, 20), setapi=False)
    ops = []
    nm = c["nmodels"]
    for op in c["ops"]:
        r = rng.random()
        if r < 0.12:
            ops.append(["create_x", rng.randrange(nm), rng.choice([0, 1, 2, 3, 9, 10]), rng.randrange(N_EXOTIC)])
        elif r < 0.22:
            ops.append(["create_many_x", rng.randrange(nm), rng.choice([0, 1, 3, 9, 10]), rng.choice([0, 1, 2, 3]),
                        rng.randrange(N_EXOTIC), rng.choice(["pos", "kw"])])
        elif r < 0.30:
            ops.append(["create_raise", rng.randrange(nm), rng.choice([11, 12])])
        elif r < 0.33:
            ops.append(["create_many", rng.randrange(nm), 0, 30, "scalar", 1, "pos"])
        elif r < 0.45:
            ops.append(["clone_model", rng.randrange(nm), rng.choice(COPY_KINDS)])
        if op[0] == "activate" and op[5] and rng.random() < 0.6:
            op = list(op)
            sc = [list(e) for e in op[5]]
            sc[rng.randrange(len(sc))][1] = ["raise"]
            op[5] = sc
        ops.append(op)
    return {"nmodels": nm, "ops": ops, "oracle_only": True, "abandon_iter": rng.random() < 0.3}


_ALPHABET = [
    ["create", 0, 0, 1], ["create", 0, 2, 2], ["create", 1, 0, 3], ["create", 0, 4, 0],
    ["create", 0, 5, 4], ["create", 0, 6, 5], ["create", 1, 7, 6], ["create", 0, 8, 0],
    ["create_many", 0, 1, 2, "list", [5, 6], "pos"],
    ["create_many", 1, 2, 2, "tuple", [7], "kw"],
    ["remove", 0], ["remove", 1], ["remove", 2], ["deregister", 0],
    ["remove_all", 0],
    ["reorder_all", 0, "sort_uid_desc"],
    ["activate", 0, None, "do", "callable", "ALL:remove_self"],
    ["activate", 0, None, "do", "name", "ALL:create"],
    ["activate", 0, None, "shuffle_do", "callable", "ALL:remove_next"],
    ["activate", 0, 0, "map", "callable", "ALL:create_other"],
    ["activate", 0, None, "do", "name", "ALL:remove_key2"],
]


def _expand(op, nkeys=8):
    if op[0] != "activate" or not isinstance(op[5], str):
        return list(op)
    what = op[5].split(":")[1]
    sc = []
    for k in range(nkeys):
        a = {"remove_self": ["remove_self"], "create": ["create", 0, 1, k], "remove_next": ["remove", k + 1],
             "create_other": ["create", 1, 3, k], "remove_key2": ["remove", 2]}[what]
        sc.append([k, a])
    return op[:5] + [sc]


def enumerate_cases(tier, broken=False):
    """every sequence of length <= 3 (4 in the thorough tier) over 21 ops on two models"""
    depth = 4 if tier == "thorough" else 3
    if broken:
        import random as _random

        yield from _scale_cases("thorough")      # the source moved: look at scale first
        r2 = _random.Random(4242)
        for _ in range(400):
            yield _gen_usercode(r2)
    for d in range(1, depth + 1):
        for seq in itertools.product(range(len(_ALPHABET)), repeat=d):
            yield {"nmodels": 2, "ops": [_expand(_ALPHABET[i]) for i in seq]}


# ------------------------------------------------------------------ implementation side
def _enc_val(v):
    import numpy as np

    if isinstance(v, (bool, int, np.integer)):
        return [0, int(v)]
    if isinstance(v, str):
        return [1, len(v)] + [ord(ch) for ch in v]
    if isinstance(v, np.ndarray) and v.ndim != 1:
        return [2, -1]
    if isinstance(v, (list, tuple, np.ndarray)):
        try:
            return [1, len(v)] + [int(x) for x in v]
        except (TypeError, ValueError):
            return [2, -1]
    return [2, -1]


class _Driver:
    def __init__(self, case):
        import mesa

        self.mesa = mesa

        class A(mesa.Agent):
            def __init__(self, model, val=0):
                super().__init__(model)
                self.val = val

            def act(self, drv):
                drv.callback(self)

        class D(mesa.Agent):
            def __init__(self, model, val=0):
                super().__init__(model)
                self.val = val

            def act(self, drv):
                drv.callback(self)

        B = type("B", (A,), {})
        C = type("C", (B,), {"extra": 1})
        drv = self

        class E(A):            # work first, super().remove() late
            def remove(self):
                drv.spawn(self, 3, 50)
                drv.note_super_remove(self)
                super().remove()

        class F(D):            # super().remove() first, work afterwards
            def remove(self):
                drv.note_super_remove(self)
                super().remove()
                drv.spawn(self, 3, 60)

        class G(A):            # forgets super().remove(): the agent is never deregistered
            def remove(self):
                pass

        class H(A):            # removes ANOTHER agent (the one whose creation index is self.val) after itself
            def remove(self):
                drv.note_super_remove(self)
                super().remove()
                p = drv.partner_of(self)
                if p is not None and p is not self and p.model is self.model and p in self.model.agents:
                    drv.nested_remove(p)

        class Zf(A):           # falsy instances: `if agent:` is not `if agent is not None:`
            def __bool__(self):
                return False

            def __len__(self):
                return 0

        class Mixin:
            def __init__(self, *args, **kwargs):
                self.mixed = True
                super().__init__(*args, **kwargs)

        class J(mesa.Agent, Mixin):      # a mixin placed AFTER the framework base in the MRO
            def __init__(self, model, val=0):
                super().__init__(model)
                self.val = val

            def act(self, drv):
                drv.callback(self)

        class RB(A):           # the constructor raises BEFORE super().__init__(): no id drawn, nothing registered
            def __init__(self, model, val=0):
                raise _CtorBoom

        class RA(A):           # ... AFTER super().__init__(): the agent exists, is registered and has drawn its id
            def __init__(self, model, val=0):
                super().__init__(model, val)
                raise _CtorBoom

        self.suspend = 0
        self.shared = {}        # equal argument specifications share ONE mutable object across calls and models
        self.abandoned = []
        self.abandon = bool(case.get("abandon_iter"))
        # ---- USER CODE in the loop (harness/USERCODE_NOTE.md), used by the oracle-only "usercode" stream only
        class Spawner(A):      # the constructor creates another agent (after super().__init__())
            def __init__(self, model, val=0):
                super().__init__(model, val)
                drv.ctor_create(self, 3, 80)

        class Killer(A):       # the constructor removes another agent of the history (the one with creation index val)
            def __init__(self, model, val=0):
                super().__init__(model, val)
                drv.ctor_remove(self, val)

        class OwnId(A):        # assigns its own unique_id after the framework drew one (several agents may share it)
            def __init__(self, model, val=0):
                super().__init__(model, val)
                self.unique_id = 1000 + (val if isinstance(val, int) else 0) % 3

        Dm = type("Dm", (A,), {})
        Dia = type("Dia", (B, Dm), {})      # a diamond over A

        class RegModel(mesa.Model):
            """overrides the public hooks register_agent / deregister_agent (calling super) and runs user code inside them"""

            def register_agent(self, agent):
                drv.on_register(self, agent)             # the shadow history learns of the agent here (it has its id already)
                super().register_agent(agent)
                if type(agent) is A:                     # a companion created INSIDE the registration of another agent
                    drv.model_create(self, 3, 70)

            def deregister_agent(self, agent):
                super().deregister_agent(agent)
                if type(agent) is B:                     # a tombstone created inside the deregistration
                    drv.model_create(self, 3, 71)
                elif type(agent) is Dia:                 # ... or another agent removed inside it
                    drv.model_remove_first(self, agent)

        import warnings

        from mesa.discrete_space import CellAgent, FixedAgent, Grid2DMovingAgent, OrthogonalMooreGrid
        from mesa.experimental.continuous_space import ContinuousSpace, ContinuousSpaceAgent
        from mesa.space import MultiGrid

        self.spaces = {}

        def spaces_of(model):
            if id(model) not in self.spaces:
                with warnings.catch_warnings():
                    warnings.simplefilter("ignore")
                    self.spaces[id(model)] = (OrthogonalMooreGrid((3, 3), torus=False, random=model.random),
                                              MultiGrid(3, 3, False),
                                              ContinuousSpace([[0, 4], [0, 4]], random=model.random, n_agents=2))
            return self.spaces[id(model)]

        def place_on_cell(agent, val, may_leave=True):
            v = val if isinstance(val, int) else 0
            if v % 3 == 0:
                return                                   # created but never placed
            cells = list(spaces_of(agent.model)[0].all_cells)
            agent.cell = cells[v % len(cells)]
            if v % 3 == 2 and may_leave:
                agent.cell = None                        # taken off again

        class CA(CellAgent):
            def __init__(self, model, val=0):
                super().__init__(model)
                self.val = val
                place_on_cell(self, val)

            def act(self, drv):
                drv.callback(self)

        class FA(FixedAgent):
            def __init__(self, model, val=0):
                super().__init__(model)
                self.val = val
                place_on_cell(self, val, may_leave=False)

        class GA(Grid2DMovingAgent):
            def __init__(self, model, val=0):
                super().__init__(model)
                self.val = val
                place_on_cell(self, val)

        class LA(A):           # a plain agent living on a legacy grid
            def __init__(self, model, val=0):
                super().__init__(model, val)
                v = val if isinstance(val, int) else 0
                if v % 3:
                    grid = spaces_of(model)[1]
                    grid.place_agent(self, (v % 3, (v // 3) % 3))
                    if v % 3 == 2:
                        grid.remove_agent(self)

        class CSA(ContinuousSpaceAgent):
            def __init__(self, model, val=0):
                super().__init__(spaces_of(model)[2], model)
                self.val = val
                v = val if isinstance(val, int) else 0
                if v % 3:
                    self.position = [v % 4, (v // 2) % 4]

        for cls0 in (A, B, C, D, E, F, G, H, Zf, Mixin, J, RB, RA, Spawner, Killer, OwnId, Dm, Dia, RegModel, CA, FA, GA, LA, CSA):
            _reg(cls0)
        self.classes = [A, B, C, D, mesa.Agent, E, F, G, H, Zf, J, RB, RA, Spawner, Killer, OwnId, Dia, CA, FA, GA, LA, CSA]
        self.usercode = bool(case.get("usercode"))
        self.model_cls = RegModel if self.usercode else mesa.Model
        # prior history in the same process: a model that came and went, with agents of the same classes
        prior = mesa.Model(seed=3)
        for cls0 in (A, D, C, Zf):
            cls0(prior, 1)
        prior.remove_all_agents()
        self.cidx = {c: i for i, c in enumerate(self.classes)}
        self.models = [self.model_cls(seed=7 + i) for i in range(case["nmodels"])]
        self.born = []          # agents, index = key (strong references for the whole history)
        self.key = {}           # id(agent) -> key
        # the shadow history (oracle side)
        self.s_model = []       # key -> model index
        self.s_cls = []
        self.s_uid = []
        self.s_removed = []     # key -> bool
        self.s_count = [0] * case["nmodels"]   # agents ever created per model
        self.s_reordered = [False] * case["nmodels"]
        self.s_hidden = set()   # live agents taken out of model.agents through the AgentSet API
        self.s_uids = {}        # model -> {unique_id: key of the first agent that got it}
        self.failures = []
        self.opi = 0
        self.script = {}
        self.called = []

    # ---- failures
    def fail(self, key, what):
        if not any(f["key"] == key for f in self.failures):
            self.failures.append({"key": key, "op": self.opi, "what": what})

    # ---- keys
    def kof(self, a):
        return self.key.get(id(a), -7)

    def adopt(self, a, m, c):
        """a freshly constructed agent: give it its key, check its unique_id (the property's id clause)"""
        if id(a) in self.key:
            return self.key[id(a)]      # already learnt of through the register_agent hook of a user Model subclass
        k = len(self.born)
        self.born.append(a)
        self.key[id(a)] = k
        self.s_count[m] += 1
        exp = self.s_count[m]
        uid = getattr(a, "unique_id", None)
        self.s_model.append(m)
        self.s_cls.append(c)
        self.s_uid.append(uid)
        self.s_removed.append(False)
        if c == OWN_ID:
            pass      # the agent replaces the id the framework gave it: uniqueness is then its own business
        elif type(uid) is not int or uid != exp:
            self.fail("C02/Agent.unique_id/not-sequential",
                      f"agent number {exp} created for model {m} (class {self.classes[c].__name__}) got unique_id {uid!r}; ids must be 1, 2, 3, ... in creation order per model")
        seen = self.s_uids.setdefault(m, {})
        if c == OWN_ID:
            return k
        try:
            first = seen.setdefault(uid, k)
        except TypeError:
            first = k
        if first != k:
            self.fail("C02/Agent.unique_id/duplicate",
                      f"unique_id {uid!r} handed out twice within model {m} (agents #{first} and #{k})")
        return k

    # ---- atomic actions (shared by top-level ops and callbacks)
    def do_create(self, m, c, v):
        if not 0 <= m < len(self.models):
            return None
        cls = self.classes[c]
        a = cls(self.models[m]) if c == 4 else cls(self.models[m], v)
        k = self.kof(a) if id(a) in self.key else self.adopt(a, m, c)
        if c == OWN_ID:
            self.s_uid[k] = a.unique_id
        self.check("constructor")
        return k

    def do_create_many(self, m, c, n, kind, data, how):
        if not 0 <= m < len(self.models):
            return None
        import numpy as np

        cls = self.classes[c]
        model = self.models[m]
        before = {id(x) for x in self.born}
        if c == 4:
            ret = cls.create_agents(model, n)
        else:
            spec = (kind, tuple(data) if isinstance(data, list) else data)
            if spec not in self.shared:
                self.shared[spec] = {"scalar": lambda: data, "list": lambda: list(data), "tuple": lambda: tuple(data),
                                     "ndarray": lambda: np.array(data, dtype=int),
                                     "str": lambda: "".join(chr(x) for x in data)}[kind]()
            arg = self.shared[spec]          # the SAME object every time this specification is used
            ret = cls.create_agents(model, n, arg) if how == "pos" else cls.create_agents(model, n, val=arg)
            now = arg.tolist() if kind == "ndarray" else ([ord(ch) for ch in arg] if kind == "str" else (list(arg) if kind != "scalar" else arg))
            if now != (list(data) if kind != "scalar" else data):
                self.fail("C02/Agent.create_agents/argument-mutated",
                          f"{cls.__name__}.create_agents(model {m}, {n}, {kind} {data}) changed the caller's argument to {now}")
        got = list(ret)
        want = max(0, n)
        ok = (len(got) == want and all(id(x) not in before for x in got) and len({id(x) for x in got}) == len(got)
              and all(type(x) is cls and x.model is model for x in got))
        if not ok:
            self.fail("C02/Agent.create_agents/returned-set",
                      f"{cls.__name__}.create_agents(model {m}, {n}, ...) returned {len(got)} agents "
                      f"(classes {[type(x).__name__ for x in got]}); expected {want} new {cls.__name__} agents of that model")
        keys = []
        for x in got:
            if id(x) not in self.key:
                keys.append(self.adopt(x, m, c))
            else:
                keys.append(self.kof(x))
            if c == OWN_ID:
                self.s_uid[keys[-1]] = x.unique_id
        self.check("create_agents")
        return keys

    # ---- hooks of the user-code classes (RegModel, Spawner, Killer): what the user code does is recorded in the shadow history
    def on_register(self, model, agent):
        if id(agent) in self.key:
            return
        for m, mm in enumerate(self.models):
            if mm is model:
                self.adopt(agent, m, self.cidx.get(type(agent), 0))
                return

    def model_create(self, model, c, v):
        return self.classes[c](model, v)        # a copied model is not part of the history: on_register ignores it

    def model_remove_first(self, model, agent):
        for x in list(model.agents):
            if x is not agent and type(x) is self.classes[3]:
                if self.kof(x) >= 0:
                    self.s_removed[self.kof(x)] = True
                    self.s_hidden.discard(self.kof(x))
                x.remove()
                return

    def ctor_create(self, agent, c, v):
        self.classes[c](agent.model, v)

    def ctor_remove(self, agent, val):
        if self.kof(agent) < 0 or not (isinstance(val, int) and 0 <= val < len(self.born)):
            return
        p = self.born[val]
        if p is agent or p.model is not agent.model:
            return
        k = self.kof(p)
        if self.s_cls[k] not in OVERRIDING:
            self.s_removed[k] = True
            self.s_hidden.discard(k)
        p.remove()

    # hooks called by the overriding remove() methods of E, F, G
    def spawn(self, agent, c, v):
        if self.kof(agent) < 0:
            return      # an agent of a copied / unpickled model: not part of the shadow history
        m = self.s_model[self.kof(agent)]
        a = self.classes[c](self.models[m], v)
        self.adopt(a, m, c)

    def partner_of(self, agent):
        import numpy as np

        v = getattr(agent, "val", None)
        if self.kof(agent) < 0:
            return None
        if isinstance(v, (int, np.integer)) and not isinstance(v, bool) and 0 <= int(v) < len(self.born):
            return self.born[int(v)]
        return None

    def nested_remove(self, p):
        k = self.kof(p)
        if self.s_cls[k] not in OVERRIDING:
            self.s_removed[k] = True
            self.s_hidden.discard(k)
        p.remove()     # dynamic dispatch: p may override remove() itself

    def note_super_remove(self, agent):
        k = self.kof(agent)
        if k < 0:
            return
        self.s_removed[k] = True
        self.s_hidden.discard(k)

    def do_remove(self, k):
        if not 0 <= k < len(self.born):
            return False
        a = self.born[k]
        was = self.s_removed[k]
        if was and self.s_cls[k] in (CSA_CLS, FIXED_CLS) and not LIB_SECOND_REMOVE:
            return True
        if self.s_cls[k] not in OVERRIDING:
            self.s_removed[k] = True
            self.s_hidden.discard(k)
        self.suspend += 1     # the property is about the moments between calls of the API, not inside remove()
        try:
            a.remove()
        except Exception as e:  # noqa: BLE001
            self.fail("C02/Agent.remove/raised",
                      f"agent.remove() of agent #{k} ({'already removed' if was else 'live'}) raised {type(e).__name__}: {e}")
            raise
        finally:
            self.suspend -= 1
        self.check("Agent.remove")
        return True

    def do_remove_all(self, m):
        if not 0 <= m < len(self.models):
            return False
        for k in range(len(self.born)):
            if self.s_model[k] == m and self.s_cls[k] not in OVERRIDING:
                self.s_removed[k] = True
                self.s_hidden.discard(k)
        self.suspend += 1
        try:
            self.models[m].remove_all_agents()     # agent.remove() of every registered agent, overrides included
        finally:
            self.suspend -= 1
        self.check("remove_all_agents")
        return True

    def do_act(self, self_k, a):
        if a[0] == "nop":
            return
        if a[0] == "remove_self":
            self.do_remove(self_k)
        elif a[0] == "remove":
            self.do_remove(a[1])
        elif a[0] == "create":
            self.do_create(a[1], a[2], a[3])
        elif a[0] == "create_many":
            self.do_create_many(*a[1:])
        elif a[0] == "remove_all":
            self.do_remove_all(a[1])
        elif a[0] == "raise":
            raise _CbBoom
        else:
            raise ValueError(a)

    def callback(self, agent, *unused):
        k = self.kof(agent)
        self.called.append(k)
        self.do_act(k, self.script.get(k, ["nop"]))

    # ---- the property, on the implementation (after every atomic action: "at every moment")
    def live(self, m):
        return [k for k in range(len(self.born)) if self.s_model[k] == m and not self.s_removed[k]]

    def check(self, site):
        if self.suspend:
            return
        for m, model in enumerate(self.models):
            live = self.live(m)
            # agents discarded from model.agents through the AgentSet API are - by what the code does - live and
            # registered but no longer in that view; the statement's exactness clause is about registry operations
            vis = [k for k in live if k not in self.s_hidden]
            ids = [self.kof(a) for a in model.agents]
            if sorted(ids) != vis or len(model.agents) != len(vis):
                self.fail("C02/Model.agents/not-exact",
                          f"after {site}: model {m}.agents holds agents {_short(ids)} (len {len(model.agents)}), the agents created for it and not removed are {_short(vis)}")
            elif not self.s_reordered[m] and ids != vis:
                self.fail("C02/Model.agents/order",
                          f"after {site}: model {m}.agents iterates {_short(ids)}, creation order is {_short(vis)} and nothing reordered it")
            bt = model.agents_by_type
            for cls, aset in bt.items():
                got = [self.kof(a) for a in aset]
                c = self.cidx.get(cls, -8)
                exp = [k for k in live if self.s_cls[k] == c]
                if sorted(got) != exp or any(type(a) is not cls for a in aset) or len(aset) != len(exp):
                    self.fail("C02/Model.agents_by_type/not-exact",
                              f"after {site}: model {m}.agents_by_type[{getattr(cls, '__name__', cls)}] holds {_short(got)}, the live agents of exactly that class are {_short(exp)}")
            types = list(model.agent_types)
            for c in sorted({self.s_cls[k] for k in live}):
                if self.classes[c] not in types or self.classes[c] not in bt:
                    self.fail("C02/Model.agent_types/missing-class",
                              f"after {site}: model {m} has live agents of class {self.classes[c].__name__} but agent_types is {[t.__name__ for t in types]}")
            if len(set(types)) != len(types) or set(types) != set(bt.keys()):
                self.fail("C02/Model.agent_types/inconsistent",
                          f"after {site}: model {m}.agent_types {[t.__name__ for t in types]} vs agents_by_type keys {[t.__name__ for t in bt]}")
            hard = getattr(model, "_agents", None)
            if hard is not None and sorted(self.kof(a) for a in hard) != live:
                self.fail("C02/Model._agents/not-exact",
                          f"after {site}: model {m} hard references {_short(self.kof(a) for a in hard)}, live agents {_short(live)}")
            for k in range(len(self.born)):
                a = self.born[k]
                if self.s_model[k] == m:
                    isin = a in model.agents
                    if isin != (not self.s_removed[k] and k not in self.s_hidden):
                        self.fail("C02/Model.agents/membership",
                                  f"after {site}: `agent #{k} in model {m}.agents` is {isin}, removed={self.s_removed[k]}")
                    cls = type(a)
                    if self.s_removed[k] and cls in bt and a in bt[cls]:
                        self.fail("C02/Agent.remove/still-visible",
                                  f"after {site}: removed agent #{k} is still in model {m}.agents_by_type[{cls.__name__}]")
                    if self.s_removed[k] and hard is not None and a in hard:
                        self.fail("C02/Agent.remove/still-visible",
                                  f"after {site}: removed agent #{k} is still hard-referenced by model {m}")
                elif a in model.agents:
                    self.fail("C02/models/interference", f"after {site}: agent #{k} of model {self.s_model[k]} is in model {m}.agents")
        for k, a in enumerate(self.born):
            if getattr(a, "unique_id", None) != self.s_uid[k]:
                self.fail("C02/Agent.unique_id/changed",
                          f"after {site}: unique_id of agent #{k} was {self.s_uid[k]!r}, now {getattr(a, 'unique_id', None)!r}")

    # ---- observation (mirrors view_world of Model/Registry.v)
    def view_model(self, i):
        model = self.models[i]
        out = []
        al = list(model.agents)
        out += [-100, i, len(al)]
        for a in al:
            uid = a.unique_id if type(a.unique_id) is int else -9
            out += [self.kof(a), uid, self.cidx.get(type(a), -8)] + _enc_val(getattr(a, "val", 0))
        hard = list(getattr(model, "_agents", {}).keys())
        out += [-101, len(hard)] + [self.kof(a) for a in hard]
        bt = model.agents_by_type
        out += [-102, len(bt)]
        for cls, aset in bt.items():
            out += [self.cidx.get(cls, -8), len(aset)] + [self.kof(a) for a in aset]
        return out

    def view(self):
        out = []
        for i in range(len(self.models)):
            out += self.view_model(i)
        out += [-103] + [a.unique_id if type(a.unique_id) is int else -9 for a in self.born]
        return out

    # ---- which models an op may touch (for the independence clause)
    def act_targets(self, self_k, a):
        if a[0] == "remove_self":
            return {self.s_model[self_k]} if 0 <= self_k < len(self.born) else set()
        if a[0] == "remove":
            return {self.s_model[a[1]]} if 0 <= a[1] < len(self.born) else set()
        if a[0] in ("create", "create_many", "remove_all"):
            return {a[1]}
        return set()

    def targets(self, op):
        k = op[0]
        if k == "new_model":
            return set()
        if k in ("remove", "deregister"):
            return {self.s_model[op[1]]} if 0 <= op[1] < len(self.born) else set()
        if k in ("set_discard", "set_select", "create_x", "create_many_x", "create_raise", "bulk_remove"):
            return {op[1]}
        if k == "clone_model":
            return set()
        if k == "activate":
            t = {op[1]}
            for e in op[5]:
                t |= self.act_targets(e[0], e[1])
            return t
        return {op[1]}

    # ---- top-level ops: returns (result observation, op as the model must see it)
    def run_op(self, op):
        kind = op[0]
        if kind == "new_model":
            self.models.append(self.model_cls(seed=7 + len(self.models)))
            self.s_count.append(0)
            self.s_reordered.append(False)
            self.check("Model()")
            return [len(self.models) - 1], op
        if kind == "create":
            k = self.do_create(op[1], op[2], op[3])
            return ([-2] if k is None else [k]), op
        if kind == "create_many":
            ks = self.do_create_many(*op[1:])
            return ([-2] if ks is None else [len(ks)] + ks), op
        if kind == "remove":
            if not self.do_remove(op[1]):
                return [-2], op
            a = self.born[op[1]]
            return [1 if a in a.model.agents else 0], op
        if kind == "deregister":
            k = op[1]
            if not 0 <= k < len(self.born):
                return [-2], op
            a = self.born[k]
            was_live = not self.s_removed[k]
            hidden = k in self.s_hidden   # then the third statement of deregister_agent raises after the first two ran
            self.s_hidden.discard(k)
            before = self.view()
            try:
                a.model.deregister_agent(a)
            except KeyError:
                if was_live and not hidden:
                    self.fail("C02/Model.deregister_agent/raised-for-live-agent", f"deregister_agent of live agent #{k} raised KeyError")
                if self.view() != before and not hidden:
                    for key in ("C02/Model.deregister_agent/state-changed-on-KeyError", "C18/Model.deregister_agent/state-changed"):
                        self.fail(key, f"deregister_agent of the already removed agent #{k} raised KeyError but changed the registry")
                self.s_removed[k] = True
                self.check("deregister_agent")
                return [-1, E_KEY], op
            self.s_removed[k] = True
            self.check("deregister_agent")
            return [0], op
        if kind == "remove_all":
            return ([0] if self.do_remove_all(op[1]) else [-2]), op
        if kind in ("reorder_all", "reorder_type"):
            m = op[1]
            if not 0 <= m < len(self.models):
                return [-2], op
            model = self.models[m]
            if kind == "reorder_all":
                aset, how = model.agents, op[2]
            else:
                cls = self.classes[op[2]]
                if cls not in model.agents_by_type:
                    return [-2], op
                aset, how = model.agents_by_type[cls], op[3]
            self.s_reordered[m] = True
            if how == "shuffle":
                r = aset.shuffle(inplace=True)
            elif how == "sort_uid_desc":
                r = aset.sort("unique_id", ascending=False, inplace=True)
            elif how == "sort_val_asc":
                r = aset.sort(lambda a: _enc_val(getattr(a, "val", 0)), ascending=True, inplace=True)
            else:
                r = aset.sort(lambda a: _enc_val(getattr(a, "val", 0)), inplace=True)
            if r is not aset:
                self.fail("C02/AgentSet/inplace-returned-other-object", f"{how} with inplace=True did not return the set itself")
            self.check("in-place reorder")
            order = [self.kof(a) for a in aset]
            return [0], op + [order]
        if kind == "create_x":
            _, m, c, xi = op
            if not 0 <= m < len(self.models):
                return [-2], op
            a = self.classes[c](self.models[m], _exotic(xi))
            k = self.adopt(a, m, c)
            self.check("constructor")
            return [k], op
        if kind == "create_many_x":
            _, m, c, n, xi, how = op
            if not 0 <= m < len(self.models):
                return [-2], op
            import numpy as np

            x = _exotic(xi)
            cls, model = self.classes[c], self.models[m]
            before = self.view()
            try:
                ret = cls.create_agents(model, n, x) if how == "pos" else cls.create_agents(model, n, val=x)
            except TypeError:
                # a 0-d ndarray has no len(): create_agents refuses it before constructing anything
                if not (isinstance(x, np.ndarray) and x.ndim == 0) or self.view() != before:
                    raise
                return [-1, 2], op
            for a in ret:
                if id(a) not in self.key:
                    self.adopt(a, m, c)
            self.check("create_agents")
            return [len(ret)], op
        if kind == "bulk_remove":
            _, m, how = op
            if not 0 <= m < len(self.models):
                return [-2], op
            for k in range(len(self.born)):
                if self.s_model[k] == m and self.s_cls[k] not in OVERRIDING:
                    self.s_removed[k] = True
                    self.s_hidden.discard(k)
            self.suspend += 1
            try:
                if how == "do":
                    self.models[m].agents.do("remove")
                else:
                    self.models[m].agents.shuffle_do("remove")
            finally:
                self.suspend -= 1
            self.check(f"model.agents.{how}('remove')")
            return [0], op
        if kind == "clone_model":
            import copy
            import pickle

            _, m, how = op
            if not 0 <= m < len(self.models):
                return [-2], op
            model = self.models[m]
            before = self.view()
            if how in ("pickle0", "pickle1") and any(self.s_model[k] == m and self.s_cls[k] == CSA_CLS and not self.s_removed[k]
                                                     for k in range(len(self.born))):
                return [0], op      # ContinuousSpaceAgent has __slots__ and no __getstate__: not picklable with protocols 0/1 (C19's subject)
            if how.startswith("pickle") and how[6:].isdigit():
                r = pickle.loads(pickle.dumps(model, protocol=int(how[6:])))
            elif how == "pickle_default":
                r = pickle.loads(pickle.dumps(model))
            elif how == "deepcopy":
                r = copy.deepcopy(model)
            elif len(model.agents) == 0:
                return [0], op
            elif how == "pickle_agent":
                r = pickle.loads(pickle.dumps(model.agents[0])).model
            elif how == "copy_agent":
                r = copy.deepcopy(model.agents[0]).model
            else:
                r = next(iter(pickle.loads(pickle.dumps(model.agents)))).model
            what = f"model {m} restored through {how}"
            sig = lambda mm: ([(a.unique_id, type(a)) for a in mm.agents], [a.unique_id for a in mm._agents],  # noqa: E731
                              [(c, [a.unique_id for a in s0]) for c, s0 in mm.agents_by_type.items()], list(mm.agent_types))
            ok = (r is not model and sig(r) == sig(model) and all(a.model is r for a in r.agents)
                  and not ({id(a) for a in r.agents} & {id(a) for a in model.agents})
                  and all(type(a) is c for c, s0 in r.agents_by_type.items() for a in s0)
                  and {id(a) for a in r._agents} == {id(a) for a in r.agents} | {id(a) for c, s0 in r.agents_by_type.items() for a in s0})
            if not ok:
                self.fail("C02/Model.copy/registry-not-exact",
                          f"{what}: the copy's views {sig(r)} must mirror the original's {sig(model)} with its own agent objects")
            # the copy goes on as a model of its own: a new agent continues ITS id sequence, a removal leaves every view at once
            n_ever = self.s_count[m]
            a = self.classes[0](r, 1)
            if a.unique_id != n_ever + 1:
                self.fail("C02/Agent.unique_id/restarts-after-copy-or-pickle",
                          f"{what}: {n_ever} agents were ever created for the model (ids 1..{n_ever}); the next agent created for "
                          f"the copy got unique_id {a.unique_id} instead of {n_ever + 1} (ids in the copy: {[x.unique_id for x in r.agents]})")
            a.remove()
            victims = [v for v in r.agents if self.cidx.get(type(v), 99) in PLAIN][:2]
            for v in victims:
                v.remove()
            left = {id(x) for x in r.agents}
            if (id(a) in left or any(id(v) in left for v in victims) or {id(x) for x in r._agents} != left
                    or any(v in s0 for v in victims for s0 in r.agents_by_type.values())):
                self.fail("C02/Model.copy/registry-not-exact", f"{what}: after removing agents from the copy its views disagree")
            if self.view() != before:
                self.fail("C02/Model.copy/original-changed", f"{what}: copying, or creating/removing agents in the copy, changed the original")
            self.check("copy / pickle round trip")
            return [0], op
        if kind == "create_raise":
            _, m, c = op
            if not 0 <= m < len(self.models):
                return [-2], op
            model = self.models[m]
            try:
                self.classes[c](model, 1)
            except _CtorBoom:
                pass
            # whatever got registered was created for this model (the constructor drew an id and registered before raising)
            for a in list(model.agents):
                if id(a) not in self.key:
                    self.adopt(a, m, c)
            self.check("constructor that raised")
            return [0], op
        if kind == "set_discard":
            _, m, k, strict = op
            if not 0 <= m < len(self.models):
                return [-2], op
            model = self.models[m]
            if not 0 <= k < len(self.born):
                return ([-1, E_KEY] if strict else [0]), op
            a = self.born[k]
            present = a in model.agents
            if present and self.s_model[k] == m and not self.s_removed[k]:
                self.s_hidden.add(k)
            try:
                if strict:
                    model.agents.remove(a)
                else:
                    model.agents.discard(a)
            except KeyError:
                self.check("AgentSet.remove")
                return [-1, E_KEY], op
            self.check("AgentSet.discard")
            return [0], op
        if kind == "set_select":
            _, m, how = op
            if not 0 <= m < len(self.models):
                return [-2], op
            model = self.models[m]
            if how == "even_keys":
                kw = {"filter_func": lambda a: self.kof(a) % 2 == 0}
            elif how == "val_ge_3":
                kw = {"filter_func": lambda a: _enc_val(getattr(a, "val", 0)) >= [0, 3]}
            elif how == "first2":
                kw = {"at_most": 2}
            elif how == "none":
                kw = {"at_most": 0}
            elif how == "half":
                kw = {"at_most": 0.5}
            else:
                kw = {}
            before = [self.kof(a) for a in model.agents]
            r = model.agents.select(inplace=True, **kw)
            after = [self.kof(a) for a in model.agents]
            if r is not model.agents:
                self.fail("C02/AgentSet/inplace-returned-other-object", "select(inplace=True) did not return the set itself")
            for k in before:
                if k not in after and 0 <= k < len(self.born) and not self.s_removed[k]:
                    self.s_hidden.add(k)
            self.check("AgentSet.select(inplace=True)")
            return [0], op + [after]
        if kind == "activate":
            _, m, c, akind, mform, script = op
            if not 0 <= m < len(self.models):
                return [-2], op
            model = self.models[m]
            if c is None:
                aset = model.agents
            else:
                if self.classes[c] not in model.agents_by_type:
                    return [-2], op
                aset = model.agents_by_type[self.classes[c]]
            self.script = {}
            for e in reversed(script):
                self.script[e[0]] = e[1]
            self.called = []
            if mform == "name" and all(hasattr(a, "act") for a in aset):
                meth, args = "act", (self,)
            else:
                meth, args = self.callback, ()
            try:
                if akind == "do":
                    r = aset.do(meth, *args)
                elif akind == "map":
                    r = aset.map(meth, *args)
                else:
                    r = aset.shuffle_do(meth, *args)
            except _CbBoom:
                pass        # user code raised in the middle of the activation: the history goes on from there
            self.check("activation aborted by an exception in user code" if any(e[1] == ["raise"] for e in script) else "activation")
            self.script = {}
            called = list(self.called)
            return [len(called)] + called, op + [called]
        raise ValueError(op)


def run_impl(case):
    drv = _Driver(case)
    obs = []
    ops_for_model = []
    for i, op in enumerate(case["ops"]):
        drv.opi = i
        tg = drv.targets(op)
        if drv.abandon:
            for mm in drv.models:
                for aset in [mm.agents, *mm.agents_by_type.values()]:
                    it = iter(aset)
                    next(it, None)
                    drv.abandoned.append(it)      # abandoned but alive: the WeakKeyDictionary iteration guard stays set
        before = [drv.view_model(j) for j in range(len(drv.models))]
        try:
            r, mop = drv.run_op(op)
        except Exception as e:  # noqa: BLE001
            r, mop = [-1, 99], op
            drv.script = {}
            drv.fail(f"C02/{op[0]}/unexpected-exception", f"{op} raised {type(e).__name__}: {e}")
        try:
            drv.check(op[0])
            for j in range(len(before)):
                if j not in tg and drv.view_model(j) != before[j]:
                    drv.fail("C02/models/interference",
                             f"{op} (touching models {sorted(tg)}) changed the registry of model {j}: {before[j]} -> {drv.view_model(j)}")
            obs.append(r + drv.view())
        except Exception as e:  # noqa: BLE001
            obs.append([-1, 99])
            drv.fail("C02/observer/unexpected-exception", f"observing after {op} raised {type(e).__name__}: {e}")
        ops_for_model.append(mop)
    return {"obs": obs, "failures": drv.failures, "ops_for_model": ops_for_model, "model": not case.get("oracle_only")}


# ------------------------------------------------------------------ model side
def _form(kind, data):
    if kind == "scalar":
        return f"(FScalar {L.z(data)})"
    if kind == "str":
        return f"(FOpaque {L.zlist(data)})"
    return f"(FSeq {L.zlist(data)})"


def _act(a):
    if a[0] == "nop":
        return "ANop"
    if a[0] == "remove_self":
        return "ARemoveSelf"
    if a[0] == "remove":
        return f"ARemove {L.z(a[1])}"
    if a[0] == "create":
        return f"ACreate {L.z(a[1])} {L.z(a[2])} {L.z(a[3])}"
    if a[0] == "create_many":
        return f"ACreateMany {L.z(a[1])} {L.z(a[2])} {L.z(a[3])} {_form(a[4], a[5])}"
    if a[0] == "remove_all":
        return f"ARemoveAll {L.z(a[1])}"
    if a[0] == "raise":
        return "ANop"             # oracle-only
    raise ValueError(a)


def _op(op):
    k = op[0]
    if k == "new_model":
        return "NewModel"
    if k == "create":
        return f"Create {L.z(op[1])} {L.z(op[2])} {L.z(op[3])}"
    if k == "create_many":
        return f"CreateMany {L.z(op[1])} {L.z(op[2])} {L.z(op[3])} {_form(op[4], op[5])}"
    if k == "remove":
        return f"Remove {L.z(op[1])}"
    if k == "deregister":
        return f"Deregister {L.z(op[1])}"
    if k == "remove_all":
        return f"RemoveAll {L.z(op[1])}"
    if k == "reorder_all":
        order = op[3] if len(op) > 3 else []
        return f"ReorderAll {L.z(op[1])} {L.zlist(order)}"
    if k == "reorder_type":
        order = op[4] if len(op) > 4 else []
        return f"ReorderType {L.z(op[1])} {L.z(op[2])} {L.zlist(order)}"
    if k == "set_discard":
        return f"SetDiscard {L.z(op[1])} {L.z(op[2])} {L.b(op[3])}"
    if k == "set_select":
        keep = op[3] if len(op) > 3 else []
        return f"SetSelect {L.z(op[1])} {L.zlist(keep)}"
    if k == "activate":
        _, m, c, akind, _mform, script = op[:6]
        called = op[6] if len(op) > 6 else []
        cc = "None" if c is None else f"(Some {L.z(c)})"
        shuf = f"(Some {L.zlist(called)})" if akind == "shuffle_do" else "None"
        sc = L.lst([L.pair(L.z(e[0]), _act(e[1])) for e in script])
        return f"Activate {L.z(m)} {cc} {shuf} {sc}"
    if k in ("create_x", "create_many_x", "create_raise", "clone_model", "bulk_remove"):
        return "Remove (-1)"      # oracle-only operations: the Z-valued model has no counterpart (never compared)
    raise ValueError(op)


def coq_case(case):
    ops = case.get("_ops_for_model") or case["ops"]
    return f"{{| c_nmodels := {L.z(case['nmodels'])}; c_ops := {L.lst([_op(o) for o in ops])} |}}"


def op_kinds(case):
    out = [f"scale/{case['scale']}agents" + ("/oracle-only" if case.get("oracle_only") else "")] if case.get("scale") else []
    for op in case["ops"]:
        if op[0] == "create_many":
            out.append(f"create_many/{op[4]}/{op[6]}")
        elif op[0] == "activate":
            out.append(f"activate/{op[3]}/{op[4]}")
            out += [f"callback/{e[1][0]}" for e in op[5]]
        elif op[0] in ("create_x", "create_many_x"):
            out.append(f"{op[0]}/{type(_exotic(op[3] if op[0] == 'create_x' else op[4])).__name__}")
        elif op[0] == "set_select":
            out.append(f"set_select/{op[2]}")
        elif op[0] == "set_discard":
            out.append("set_discard/" + ("remove" if op[3] else "discard"))
        elif op[0] in ("reorder_all", "reorder_type"):
            out.append(f"{op[0]}/{op[-1] if isinstance(op[-1], str) else op[2 if op[0] == 'reorder_all' else 3]}")
        else:
            out.append(op[0])
    return out


def nontrivial(case):
    ks = [op[0] for op in case["ops"]]
    return (len(ks) >= 3 and any(k in ("create", "create_many") for k in ks)
            and any(k in ("remove", "remove_all", "activate", "deregister") for k in ks))


LEVEL_TEXT = ("27 machine-checked Coq theorems (+ 6 examples) over a Gallina transcription of the registry code (Model/Registry.v, "
              "Proofs/RegistryProofs.v, RegistryMore.v, RegistryProjection.v), all for EVERY history of the modelled operations on any number "
              "of coexisting models, proved by a state invariant (strict / weak by a flag) preserved by the two atomic actions and lifted "
              "through every loop by a generic closure section: the hard-reference dict equals the created-and-not-removed agents in "
              "creation order; agents_by_type groups them by exact class and agent_types is EXACTLY the classes ever instantiated, in "
              "order of first creation (a class keeps its key with an empty set); model.agents is a duplicate-free permutation of the "
              "live agents - equal as a list while nothing was reordered in place - for histories without AgentSet-API removal, and "
              "never holds a removed/foreign/duplicate agent in any history; unique_ids per model are 1,2,3,... in creation order, "
              "never reused; Agent.remove is idempotent in every state and clears every view; remove_all_agents restores full exactness "
              "after anything done to model.agents (absent overriding remove()); coexisting models: frame theorems, an activation frame "
              "theorem, and the PROJECTION theorem (each model's final registry and id counter = fold of a one-model step over the "
              "events addressed to it, events of callbacks, create_agents, remove_all_agents and overriding remove() methods "
              "included); two refutation witnesses (exactness under AgentSet-API removal; emptiness after remove_all_agents with "
              "overriding remove()). Tied to the code by T1 (tables and statement skeletons re-read from the source on every run) and "
              "by differential evaluation under vm_compute on random and enumerated histories (T2); an independent shadow-history "
              "oracle states the property on the implementation, also on an oracle-only stream of exotic values and error paths, and "
              "supplies the failing input.")
LEVEL_NOTE = ("Theorems are about the model. Not modelled: weak-reference death (harness keeps agents alive), remove() overrides beyond "
              "the four shapes or touching another model, user calls of register_agent; argument distribution of create_agents is in "
              "the model and the correspondence but not an oracle clause (the statement does not speak about it). One defect found and fixed (e21a71b, fixes/C02-1-*.diff): "
              "a copied / unpickled model restarted its unique_id sequence at 1; the oracle clause (key "
              "C02/Agent.unique_id/restarts-after-copy-or-pickle, oracle-only copy stream) is always evaluated; observations: agents_by_type keeps empty sets for extinct classes (proved), create_agents "
              "refuses a 0-d ndarray with TypeError before constructing anything, deregister_agent on an agent discarded from "
              "model.agents raises KeyError after updating two structures (user-inflicted). Trusted: Coq kernel, the T1 extractor, the "
              "driver/observer, CPython dict/WeakKeyDictionary ordering as modelled. No axioms.")
TECHNIQUE = ("Coq proof (strict/weak state invariant and trace projection by induction over histories, fuel-indexed recursion for chained "
             "remove() overrides; closed under the global context) + source-regenerated tables and statement skeletons (T1) + vm_compute "
             "correspondence and shadow-history oracle (T2)")
DESIGN_REF = "DESIGN.md section 4, C02"
