"""C09 - legacy neighbourhood queries return exactly the cells/agents in range.
Orthogonal legacy grids (SingleGrid, MultiGrid): model Model/LegacyNbhd.v."""
import itertools

import coqlit as L

ID = "C09"
COQ_PROPERTY_FILE = "Properties/C09.v"
COQ_DEPS = ["Common/ListX.v", "Common/ObsHash.v", "Generated/Tables.v", "Model/LegacyNbhd.v", "Proofs/LegacyNbhdProofs.v"]
COQ_IMPORTS = "From Mesa Require Import Model.LegacyNbhd."
COQ_CASE_TYPE = "case"
COQ_RUN = "run_case"
TABLE_CONSTRUCTS = ["grid_cache_key"]
RULE = ("histories = one legacy grid (class, w, h, torus, random placement of agents) + a sequence of "
        "get/iter_neighborhood, get/iter_neighbors, get_cell_list_contents calls on that one instance; the first "
        "cases enumerate all (w,h)<=3x3 x torus x pos x r<=4 x moore x include_center exhaustively in shuffled order, "
        "the rest are random with w,h<=6, r<=max(w,h)+1 and queries revisiting a position with one argument changed; "
        "non-trivial = at least 2 queries of which one has a non-empty answer; distinct = by SHA1 of the history")
TRUSTED_BASE = [
    "Coq 8.16.1 kernel (coqc); vm_compute used for finite facts and for evaluating the model in the correspondence",
    "no axioms: Print Assumptions reports 'Closed under the global context' for every C09 theorem",
    "harness/translate.py (T1) extracting the cache_key tuple of _Grid.get_neighborhood",
    "harness/props/C09.py driver+observer and the Gallina literal printer (T2, differential testing, not a proof)",
    "Model/LegacyNbhd.v is a hand transcription of mesa/space.py:_Grid.get_neighborhood; Python int arithmetic = Z, dict = insertion-ordered key list",
    "Uint63 primitive hash only in scratch Cases files, never under a theorem",
]
ASSUMPTIONS = [
    "positions, radii are Python ints; radius >= 1; hex and network legacy grids are checked by the oracle only (not yet in the Gallina model)",
    "order of the returned cells is not part of the statement: compared as sorted sets plus a duplicate flag",
]
E_OOB = 1


# ------------------------------------------------------------------ generation
def _queries_all(w, h, rmax):
    qs = []
    for x in range(w):
        for y in range(h):
            for r in range(1, rmax + 1):
                for moore in (True, False):
                    for ic in (True, False):
                        qs.append((x, y, moore, ic, r))
    return qs


def _mk_case(rng, cls, w, h, torus, qs, extra_ops=()):
    n_agents = rng.randint(0, w * h if cls == "SingleGrid" else w * h + 3)
    cells = [(x, y) for x in range(w) for y in range(h)]
    agents = []
    if cls == "SingleGrid":
        rng.shuffle(cells)
        for i, c in enumerate(cells[:n_agents]):
            agents.append([i + 1, c[0], c[1]])
    else:
        for i in range(n_agents):
            c = rng.choice(cells)
            agents.append([i + 1, c[0], c[1]])
    ops = []
    for (x, y, moore, ic, r) in qs:
        kind = rng.choice(["nbhd", "nbhd", "nbrs", "nbrs"])
        form = rng.choice(["get", "iter"])
        ops.append([kind, x, y, moore, ic, r, form])
    ops += list(extra_ops)
    return {"cls": cls, "w": w, "h": h, "torus": torus, "agents": agents, "ops": ops}


def gen_cases(rng, tier):
    cases = []
    # exhaustive small grids
    small = 3 if tier == "quick" else 4
    rsmall = 4 if tier == "quick" else 5
    for w in range(1, small + 1):
        for h in range(1, small + 1):
            for torus in (False, True):
                qs = _queries_all(w, h, rsmall)
                rng.shuffle(qs)
                # split into histories of <= 60 queries so that shrinking stays cheap
                for s in range(0, len(qs), 60):
                    cases.append(_mk_case(rng, rng.choice(["SingleGrid", "MultiGrid"]), w, h, torus, qs[s:s + 60]))
    n = 300 if tier == "quick" else 6000
    for _ in range(n):
        w, h = rng.randint(1, 6), rng.randint(1, 6)
        if rng.random() < 0.15:
            w, h = rng.randint(5, 12), rng.randint(5, 12)  # interior fast path
        torus = rng.random() < 0.5
        qs = []
        for _ in range(rng.randint(2, 14)):
            if qs and rng.random() < 0.5:
                x, y, m, ic, r = rng.choice(qs)
                which = rng.randrange(4)
                if which == 0:
                    m = not m
                elif which == 1:
                    ic = not ic
                elif which == 2:
                    r = max(1, r + rng.choice([-1, 1]))
                else:
                    x, y = rng.randrange(w), rng.randrange(h)
                qs.append((x, y, m, ic, r))
            else:
                qs.append((rng.randrange(w), rng.randrange(h), rng.random() < 0.5, rng.random() < 0.5,
                           rng.randint(1, max(w, h) + 1)))
        extra = []
        if rng.random() < 0.3:
            cl = [[rng.randrange(w), rng.randrange(h)] for _ in range(rng.randint(0, 4))]
            extra.append(["contents", cl])
        if rng.random() < 0.1:
            # out-of-bounds position: rejected, never cached
            extra.append(["nbhd", w + rng.randint(0, 2), rng.randrange(h), True, False, 1, "get"])
        cases.append(_mk_case(rng, rng.choice(["SingleGrid", "MultiGrid"]), w, h, torus, qs, extra))
    return cases


def enumerate_cases(tier, broken=False):
    """targeted enumerator: every (w,h)<=4x4 (5x5 thorough) x torus x pos x r<=max+1 x flags, each
    grid queried twice in different orders (cache warm from other flags first)."""
    import random

    rng = random.Random(12345)
    lim = 5 if tier == "thorough" else 4
    for w in range(1, lim + 1):
        for h in range(1, lim + 1):
            for torus in (False, True):
                qs = _queries_all(w, h, max(w, h) + 1)
                for rep in range(2):
                    rng.shuffle(qs)
                    for s in range(0, len(qs), 80):
                        yield _mk_case(rng, ["SingleGrid", "MultiGrid"][rep], w, h, torus, qs[s:s + 80])


# ------------------------------------------------------------------ implementation side
def _enc(p):
    return p[0] * 65536 + p[1]


def _obs_cells(cells):
    e = [_enc(c) for c in cells]
    return [1 if len(set(e)) != len(e) else 0] + sorted(e)


def _obs_agents(ids):
    return [1 if len(set(ids)) != len(ids) else 0] + sorted(ids)


def _adist(torus, n, a, b):
    return min((a - b) % n, (b - a) % n) if torus else abs(a - b)


def _expected_cells(w, h, torus, x, y, moore, ic, r):
    out = set()
    for cx in range(w):
        for cy in range(h):
            dx, dy = _adist(torus, w, cx, x), _adist(torus, h, cy, y)
            d = max(dx, dy) if moore else dx + dy
            if d <= r and ((cx, cy) != (x, y) or ic):
                out.add((cx, cy))
    return out


def run_impl(case):
    import mesa
    from mesa.space import MultiGrid, SingleGrid

    model = mesa.Model(seed=1)
    cls = {"SingleGrid": SingleGrid, "MultiGrid": MultiGrid}[case["cls"]]
    import warnings

    with warnings.catch_warnings():
        warnings.simplefilter("ignore")
        g = cls(case["w"], case["h"], case["torus"])
    ids = {}
    where = {}
    for aid, x, y in case["agents"]:
        a = mesa.Agent(model)
        ids[id(a)] = aid
        a._verif_id = aid
        g.place_agent(a, (x, y))
        where.setdefault((x, y), []).append(aid)
    w, h, torus = case["w"], case["h"], case["torus"]
    obs = []
    failures = []
    for i, op in enumerate(case["ops"]):
        kind = op[0]
        try:
            if kind in ("nbhd", "nbrs"):
                _, x, y, moore, ic, r, form = op
                inb = 0 <= x < w and 0 <= y < h
                if kind == "nbhd":
                    res = g.get_neighborhood((x, y), moore, ic, r) if form == "get" else list(g.iter_neighborhood((x, y), moore, ic, r))
                    cells = [tuple(int(v) for v in c) for c in res]
                    obs.append(_obs_cells(cells))
                    if inb:
                        exp = _expected_cells(w, h, torus, x, y, moore, ic, r)
                        if len(set(cells)) != len(cells):
                            failures.append({"key": f"C09/{case['cls']}/neighborhood/duplicates", "op": i,
                                             "what": f"get_neighborhood({(x, y)}, moore={moore}, include_center={ic}, radius={r}) on {w}x{h} torus={torus} returned duplicates: {cells}"})
                        if set(cells) != exp:
                            failures.append({"key": f"C09/{case['cls']}/neighborhood/wrong-cells", "op": i,
                                             "what": f"get_neighborhood({(x, y)}, moore={moore}, include_center={ic}, radius={r}) on {w}x{h} torus={torus}: got {sorted(cells)}, the cells in range are {sorted(exp)}"})
                else:
                    res = g.get_neighbors((x, y), moore, ic, r) if form == "get" else list(g.iter_neighbors((x, y), moore, ic, r))
                    got = [a._verif_id for a in res]
                    obs.append(_obs_agents(got))
                    if inb:
                        exp = _expected_cells(w, h, torus, x, y, moore, ic, r)
                        expa = sorted(a for c in exp for a in where.get(c, []))
                        if sorted(got) != expa:
                            failures.append({"key": f"C09/{case['cls']}/neighbors/wrong-agents", "op": i,
                                             "what": f"get_neighbors({(x, y)}, moore={moore}, include_center={ic}, radius={r}) on {w}x{h} torus={torus}: got agents {sorted(got)}, the agents in range are {expa}"})
            elif kind == "contents":
                cl = [tuple(c) for c in op[1]]
                got = [a._verif_id for a in g.get_cell_list_contents(cl)]
                obs.append(_obs_agents(got))
                expa = sorted(a for c in cl for a in where.get(c, []))
                if sorted(got) != expa:
                    failures.append({"key": f"C09/{case['cls']}/cell_list_contents/wrong-agents", "op": i,
                                     "what": f"get_cell_list_contents({cl}): got {sorted(got)}, occupants are {expa}"})
            else:
                raise ValueError(kind)
        except Exception as e:  # noqa: BLE001
            if "out of bounds" in str(e) and kind != "contents" and not (0 <= op[1] < w and 0 <= op[2] < h):
                obs.append([-1, E_OOB])
            else:
                obs.append([-1, 99])
                failures.append({"key": f"C09/{case['cls']}/{kind}/unexpected-exception", "op": i,
                                 "what": f"{op} raised {type(e).__name__}: {e}"})
    return {"obs": obs, "failures": failures}


# ------------------------------------------------------------------ model side
def _q(x, y, moore, ic, r):
    return f"{{| q_pos := {L.zpair((x, y))}; q_moore := {L.b(moore)}; q_ic := {L.b(ic)}; q_r := {L.z(r)} |}}"


def coq_case(case):
    cells = {}
    for aid, x, y in case["agents"]:
        cells.setdefault((x, y), []).append(aid)
    cs = L.lst([L.pair(L.zpair(c), L.zlist(v)) for c, v in cells.items()])
    ops = []
    for op in case["ops"]:
        if op[0] == "nbhd":
            ops.append(f"Nbhd {_q(*op[1:6])}")
        elif op[0] == "nbrs":
            ops.append(f"Nbrs {_q(*op[1:6])}")
        else:
            ops.append(f"Contents {L.lst([L.zpair(c) for c in op[1]])}")
    g = f"{{| g_w := {case['w']}; g_h := {case['h']}; g_torus := {L.b(case['torus'])} |}}"
    return f"{{| c_grid := {g}; c_contents := {cs}; c_ops := {L.lst(ops)} |}}"


def op_kinds(case):
    return [f"{op[0]}" + ("/" + op[6] if len(op) > 6 else "") for op in case["ops"]]


def nontrivial(case):
    obs = case.get("_obs", [])
    return len(case["ops"]) >= 2 and any(len(o) > 1 and o[0] != -1 for o in obs)

LEVEL_TEXT = ("Machine-checked Coq theorems over a Gallina transcription of _Grid.get_neighborhood: for every width/height >= 1, "
              "torus flag, position, radius, metric and include_center the result is exactly the metric ball (C09_cells_exact), "
              "without duplicates, the interior fast path equals the border path, and - using the cache-key tuple re-extracted "
              "from the source on every run - every query history gets the answers of a fresh grid (C09_cache_transparent). "
              "The model is tied to the code by the regenerated table (T1) and by differential evaluation of model vs "
              "implementation on exhaustive small grids and random histories (T2); an independent oracle states the property "
              "on the implementation and supplies the failing input.")
LEVEL_NOTE = ("Theorems are about the model; hex and network legacy grids are covered by the implementation-side oracle only. "
              "Trusted: Coq kernel, translate.py, the driver/observer, CPython int/dict semantics as modelled. No axioms.")
TECHNIQUE = "Coq proof (induction/arith lemmas, closed under global context) + source-regenerated tables + vm_compute correspondence"
DESIGN_REF = "DESIGN.md section 4, C09"
