"""C09 - legacy neighbourhood queries return exactly the cells/agents in range.
Orthogonal legacy grids (SingleGrid, MultiGrid): model Model/LegacyNbhd.v."""
import itertools

import coqlit as L

ID = "C09"
COQ_PROPERTY_FILE = "Properties/C09.v"
COQ_DEPS = ["Common/ListX.v", "Common/ObsHash.v", "Common/Reach.v", "Generated/Tables.v", "Model/LegacyNbhd.v",
            "Proofs/LegacyNbhdProofs.v", "Proofs/LegacyNbhdBridge.v", "Model/LegacyHexNet.v", "Proofs/LegacyHexNetProofs.v"]
COQ_IMPORTS = "From Mesa Require Import Model.LegacyNbhd Model.LegacyHexNet."
COQ_CASE_TYPE = "case9"
COQ_RUN = "run_case9"
TABLE_CONSTRUCTS = ["grid_cache_key", "lhex_even_col", "lhex_odd_col", "hex_cache_key", "grid_nbhd_skeleton",
                    "grid_out_of_bounds_code", "grid_nbhd_guard_code", "grid_nbhd_fast_code", "grid_nbhd_slow_code"]
SOURCE_FUNCS = [("mesa/space.py", "_Grid.get_neighborhood"), ("mesa/space.py", "_Grid.iter_neighbors"),
                ("mesa/space.py", "_Grid.out_of_bounds"), ("mesa/space.py", "_Grid.iter_cell_list_contents"),
                ("mesa/space.py", "_HexGrid.get_neighborhood"), ("mesa/space.py", "_HexGrid.iter_neighbors"),
                ("mesa/space.py", "NetworkGrid.get_neighborhood"), ("mesa/space.py", "NetworkGrid.get_neighbors"),
                ("mesa/space.py", "NetworkGrid.iter_cell_list_contents")]
RULE = ("histories = one legacy grid (class, w, h, torus, random placement of agents) + a sequence of "
        "get/iter_neighborhood, get/iter_neighbors, get_cell_list_contents calls on that one instance; the first "
        "cases enumerate all (w,h)<=3x3 x torus x pos x r<=4 x moore x include_center exhaustively in shuffled order, "
        "the rest are random with w,h<=6, r<=max(w,h)+1 and queries revisiting a position with one argument changed; "
        "a scale stream (a dimension of 129..700 or beyond 2^16, cells with hundreds of agents, several hundred distinct "
        "queries then repeats, pairs of cells that alias under packed keys, long path/cycle graphs); argument forms: "
        "Python ints, numpy int64/int32, numpy-bool / 0-1 flags, cell lists as list/tuple/generator/iterator/map, "
        "abandoned and interleaved iterators; agents of plain, falsy, iterable and sequence-like user subclasses; every "
        "third history on a user subclass of the grid class; "
        "non-trivial = at least 2 queries of which one has a non-empty answer; distinct = by SHA1 of the history")
TRUSTED_BASE = [
    "Coq 8.16.1 kernel (coqc); vm_compute used for finite facts and for evaluating the model in the correspondence",
    "no axioms: Print Assumptions reports 'Closed under the global context' for every C09 theorem",
    "harness/translate.py (T1) extracting the cache_key tuple of _Grid.get_neighborhood",
    "harness/props/C09.py driver+observer and the Gallina literal printer (T2, differential testing, not a proof)",
    "Model/LegacyNbhd.v is a hand transcription of mesa/space.py:_Grid.get_neighborhood; Python int arithmetic = Z, dict = insertion-ordered key list",
    "Uint63 primitive hash only in scratch Cases files, never under a theorem",
]
ASSUMPTIONS = [
    "positions and radii are integers (Python or numpy); radius >= 1; NetworkGrid graphs are simple undirected graphs with int node ids",
    "hex tori with odd width (no wrapped hexagonal tiling exists) are run through the model correspondence only, not the oracle",
    "order of the returned cells is not part of the statement: compared as sorted sets plus a duplicate flag",
]
E_OOB = 1


# ------------------------------------------------------------------ generation
_FORMS = ["list", "tuple", "gen", "iter", "map"]   # the cell list may be any iterable, also a one-shot one


def _as_form(cells, form):
    if form == "tuple":
        return tuple(cells)
    if form == "gen":
        return (c for c in cells)
    if form == "iter":
        return iter(list(cells))
    if form == "map":
        return map(lambda c: c, cells)
    return list(cells)


def _queries_all(w, h, rmax):
    qs = []
    for x in range(w):
        for y in range(h):
            for r in range(1, rmax + 1):
                for moore in (True, False):
                    for ic in (True, False):
                        qs.append((x, y, moore, ic, r))
    return qs


def _mk_case(rng, cls, w, h, torus, qs, extra_ops=()):
    n_agents = rng.randint(0, w * h if cls == "SingleGrid" else w * h + 3)
    cells = [(x, y) for x in range(w) for y in range(h)]
    agents = []
    if cls == "SingleGrid":
        rng.shuffle(cells)
        for i, c in enumerate(cells[:n_agents]):
            agents.append([i + 1, c[0], c[1]])
    else:
        for i in range(n_agents):
            c = rng.choice(cells)
            agents.append([i + 1, c[0], c[1]])
    ops = []
    for (x, y, moore, ic, r) in qs:
        kind = rng.choice(["nbhd", "nbhd", "nbrs", "nbrs"])
        # "abandon" = an iterator that is started and dropped before the query proper; "np" = numpy integer arguments
        form = rng.choice(["get", "iter", "get", "iter", "abandon", "np", "np32", "npflags", "interleave"])
        ops.append([kind, x, y, moore, ic, r, form])
    ops += list(extra_ops)
    return {"cls": cls, "w": w, "h": h, "torus": torus, "agents": agents, "ops": ops}


def _gen_large(rng, tier):
    """scale: grids with a dimension in the hundreds (coordinates beyond CPython's small-int cache, beyond 255/256/257),
    cells holding many agents, histories of several hundred distinct queries followed by repeats (caches with limits),
    long path/cycle graphs.  The model's cost depends on the radius, not on the grid size."""
    cases = []
    forms = ["get", "iter", "get", "iter", "abandon", "np", "np32", "npflags", "interleave"]
    for _ in range(36 if tier == "quick" else 700):
        shape = rng.randrange(3)
        big = rng.choice([129, 200, 255, 256, 257, 258, 259, 300, 513, 700])
        if shape == 0:
            w, h = big, rng.randint(1, 7)
        elif shape == 1:
            w, h = rng.randint(1, 7), big
        else:
            w, h = rng.choice([257, 258, 260, 300]), rng.choice([257, 258, 261, 300])
        torus = rng.random() < 0.5
        cls = rng.choice(["SingleGrid", "MultiGrid"])
        qs = []
        for _ in range(rng.randint(3, 12)):
            if qs and rng.random() < 0.4:
                x, y, m, ic, r = rng.choice(qs)
                if rng.random() < 0.5:
                    ic = not ic
                else:
                    m = not m
            else:
                # positions: beyond 256 where the dimension allows, at the far border, at the near border, anywhere
                def coord(n):
                    k = rng.randrange(4)
                    if k == 0 and n > 258:
                        return rng.randint(257, n - 1)
                    if k == 1:
                        return n - 1 - rng.randint(0, min(3, n - 1))
                    if k == 2:
                        return rng.randint(0, min(3, n - 1))
                    return rng.randrange(n)
                x, y = coord(w), coord(h)
                m, ic = rng.random() < 0.5, rng.random() < 0.5
                r = rng.randint(1, 3) if rng.random() < 0.8 else rng.randint(4, 9)
            qs.append((x, y, m, ic, r))
        # agents near the queried positions (so that neighbour queries are non-trivial), several per cell on a MultiGrid
        agents, used, aid = [], set(), 0
        for (x, y, m, ic, r) in qs:
            for _k in range(rng.randint(0, 4)):
                ax, ay = x + rng.randint(-r, r), y + rng.randint(-r, r)
                if torus:
                    ax, ay = ax % w, ay % h
                if not (0 <= ax < w and 0 <= ay < h):
                    continue
                if cls == "SingleGrid" and (ax, ay) in used:
                    continue
                used.add((ax, ay))
                aid += 1
                agents.append([aid, ax, ay])
        ops = [[rng.choice(["nbhd", "nbrs"]), x, y, m, ic, r, rng.choice(forms)] for (x, y, m, ic, r) in qs]
        if rng.random() < 0.3 and agents:
            ops.append(["contents", [[a[1], a[2]] for a in rng.sample(agents, min(len(agents), 4))], rng.choice(["list", "tuple"])])
        cases.append({"cls": cls, "w": w, "h": h, "torus": torus, "agents": agents, "ops": ops})
    # very long strips: coordinates beyond 2**16, and pairs of cells that coincide under a packed key
    # ((x << 16) | y, x * 256 + y, ...) queried one after the other on one instance
    for _ in range(4 if tier == "quick" else 40):
        long_ = rng.choice([65536 + 9, 70000])
        short = rng.randint(2, 3)
        tall = rng.random() < 0.5
        w, h = (short, long_) if tall else (long_, short)
        torus = rng.random() < 0.5
        qs = []
        for _k in range(rng.randint(2, 4)):
            m, ic, r = rng.random() < 0.5, rng.random() < 0.5, rng.randint(1, 2)
            for mod in rng.sample([256, 65536], 2):
                a = rng.randrange(short - 1)
                b = mod + rng.randint(0, long_ - mod - 1)
                pair = [(a, b), (a + 1, b - mod)]
                rng.shuffle(pair)
                for (s_, l_) in pair:
                    qs.append(((s_, l_) if tall else (l_, s_)) + (m, ic, r))
        agents = []
        for (x, y, m, ic, r) in qs:
            if rng.random() < 0.6 and [x, y] not in [a[1:] for a in agents]:
                agents.append([len(agents) + 1, x, y])
        ops = [[rng.choice(["nbhd", "nbrs"]), x, y, m, ic, r, rng.choice(["get", "iter", "np"])] for (x, y, m, ic, r) in qs]
        cases.append({"cls": rng.choice(["SingleGrid", "MultiGrid"]), "w": w, "h": h, "torus": torus, "agents": agents, "ops": ops})
    # crowded cells / many agents
    for _ in range(6 if tier == "quick" else 80):
        w, h = rng.randint(2, 5), rng.randint(2, 5)
        n = rng.choice([40, 130, 260, 300, 520])
        agents = [[i + 1, rng.randrange(w), rng.randrange(h)] for i in range(n)]
        if rng.random() < 0.5:                       # one cell holds almost everybody
            cx, cy = rng.randrange(w), rng.randrange(h)
            agents = [[a[0], cx, cy] if rng.random() < 0.9 else a for a in agents]
        qs = [(rng.randrange(w), rng.randrange(h), rng.random() < 0.5, rng.random() < 0.5, rng.randint(1, 2)) for _ in range(4)]
        ops = [[rng.choice(["nbrs", "nbrs", "nbhd"]), x, y, m, ic, r, rng.choice(forms)] for (x, y, m, ic, r) in qs]
        ops.append(["contents", [[rng.randrange(w), rng.randrange(h)] for _ in range(3)], "list"])
        cases.append({"cls": "MultiGrid", "w": w, "h": h, "torus": rng.random() < 0.5, "agents": agents, "ops": ops})
    # several hundred distinct queries on one instance, then the early ones again (bounded caches, compaction)
    for _ in range(3 if tier == "quick" else 40):
        w, h = rng.randint(6, 12), rng.randint(6, 12)
        allq = [(x, y, m, ic, r) for x in range(w) for y in range(h) for m in (True, False) for ic in (True, False) for r in (1, 2)]
        rng.shuffle(allq)
        first = allq[:rng.choice([130, 260, 300, 520])]
        qs = first + rng.sample(first[:40], 25)
        base = _mk_case(rng, rng.choice(["SingleGrid", "MultiGrid"]), w, h, rng.random() < 0.5, [])
        base["agents"] = base["agents"][:30]
        base["ops"] = [[rng.choice(["nbhd", "nbrs"]), x, y, m, ic, r, rng.choice(["get", "iter"])] for (x, y, m, ic, r) in qs]
        cases.append(base)
    # large hex grids and long sparse graphs
    for _ in range(8 if tier == "quick" else 150):
        big = rng.choice([130, 256, 258, 300])
        w, h = (big, rng.randint(1, 6)) if rng.random() < 0.5 else (rng.randint(1, 6), big)
        torus = rng.random() < 0.5
        if torus and w % 2:
            w += 1
        qs = []
        for _k in range(rng.randint(3, 8)):
            x = rng.choice([rng.randrange(w), w - 1, max(0, w - 2)])
            y = rng.choice([rng.randrange(h), h - 1, max(0, h - 2)])
            qs.append((x, y, rng.random() < 0.5, rng.randint(1, 3)))
        c = _hex_case(rng, rng.choice(["HexSingleGrid", "HexMultiGrid"]), 1, 1, torus, qs)
        c["w"], c["h"] = w, h
        c["agents"] = []
        seen = set()
        for (x, y, ic, r) in qs:
            for _k in range(rng.randint(0, 3)):
                ax, ay = x + rng.randint(-r, r), y + rng.randint(-r, r)
                if 0 <= ax < w and 0 <= ay < h and ((ax, ay) not in seen or c["cls"] == "HexMultiGrid"):
                    seen.add((ax, ay))
                    c["agents"].append([len(c["agents"]) + 1, ax, ay])
        cases.append(c)
    for _ in range(4 if tier == "quick" else 60):
        n = rng.choice([60, 130, 258, 300])
        edges = [[i, i + 1] for i in range(n - 1)]
        if rng.random() < 0.5:
            edges.append([n - 1, 0])
        for _k in range(rng.randint(0, 5)):
            i, j = rng.randrange(n), rng.randrange(n)
            if i != j and [i, j] not in edges and [j, i] not in edges:
                edges.append([i, j])
        agents = [[k + 1, rng.choice([rng.randrange(n), n - 1, 257 % n])] for k in range(rng.randint(0, 12))]
        ops = [[rng.choice(["nbhd", "nbrs"]), rng.choice([rng.randrange(n), n - 1, 257 % n]), rng.random() < 0.5,
                rng.choice([1, 2, 3, 7, 20])] for _k in range(rng.randint(3, 7))]
        cases.append({"kind": "net", "n": n, "edges": edges, "agents": agents, "ops": ops})
    return cases


def gen_cases(rng, tier):
    cases = _gen_hex(rng, tier) + _gen_net(rng, tier) + _gen_large(rng, tier)
    # exhaustive small grids
    small = 3 if tier == "quick" else 4
    rsmall = 4 if tier == "quick" else 5
    for w in range(1, small + 1):
        for h in range(1, small + 1):
            for torus in (False, True):
                qs = _queries_all(w, h, rsmall)
                rng.shuffle(qs)
                # split into histories of <= 60 queries so that shrinking stays cheap
                for s in range(0, len(qs), 60):
                    cases.append(_mk_case(rng, rng.choice(["SingleGrid", "MultiGrid"]), w, h, torus, qs[s:s + 60]))
    n = 300 if tier == "quick" else 6000
    for _ in range(n):
        w, h = rng.randint(1, 6), rng.randint(1, 6)
        if rng.random() < 0.15:
            w, h = rng.randint(5, 12), rng.randint(5, 12)  # interior fast path
        torus = rng.random() < 0.5
        qs = []
        for _ in range(rng.randint(2, 14)):
            if qs and rng.random() < 0.5:
                x, y, m, ic, r = rng.choice(qs)
                which = rng.randrange(4)
                if which == 0:
                    m = not m
                elif which == 1:
                    ic = not ic
                elif which == 2:
                    r = max(1, r + rng.choice([-1, 1]))
                else:
                    x, y = rng.randrange(w), rng.randrange(h)
                qs.append((x, y, m, ic, r))
            else:
                r = rng.randint(1, max(w, h) + 1) if (rng.random() < 0.9 or max(w, h) > 6) else min(3 * max(w, h), 12)
                qs.append((rng.randrange(w), rng.randrange(h), rng.random() < 0.5, rng.random() < 0.5, r))
        extra = []
        if rng.random() < 0.3:
            cl = [[rng.randrange(w), rng.randrange(h)] for _ in range(rng.randint(0, 4))]
            # the orthogonal grids' accept_tuple_argument needs len() and indexing: sized sequences only there
            extra.append(["contents", cl, rng.choice(["list", "tuple"])])
        if rng.random() < 0.1:
            # out-of-bounds position: rejected, never cached
            extra.append(["nbhd", w + rng.randint(0, 2), rng.randrange(h), True, False, 1, "get"])
        cases.append(_mk_case(rng, rng.choice(["SingleGrid", "MultiGrid"]), w, h, torus, qs, extra))
    return cases


def _hex_case(rng, cls, w, h, torus, qs):
    base = _mk_case(rng, "SingleGrid" if cls == "HexSingleGrid" else "MultiGrid", w, h, torus, [])
    ops = [[rng.choice(["nbhd", "nbrs"]), x, y, ic, r, rng.choice(["get", "iter"])] for (x, y, ic, r) in qs]
    return {"kind": "hex", "cls": cls, "w": w, "h": h, "torus": torus, "agents": base["agents"], "ops": ops}


def _gen_hex(rng, tier):
    cases = []
    lim = 4 if tier == "quick" else 5
    for w in range(1, lim + 1):
        for h in range(1, lim + 1):
            for torus in (False, True):
                qs = [(x, y, ic, r) for x in range(w) for y in range(h) for ic in (True, False) for r in range(1, 5)]
                rng.shuffle(qs)
                for s0 in range(0, len(qs), 50):
                    cases.append(_hex_case(rng, rng.choice(["HexSingleGrid", "HexMultiGrid"]), w, h, torus, qs[s0:s0 + 50]))
    for _ in range(60 if tier == "quick" else 1500):
        w, h = rng.randint(1, 8), rng.randint(1, 8)
        torus = rng.random() < 0.5
        qs = []
        for _ in range(rng.randint(2, 10)):
            if qs and rng.random() < 0.5:
                x, y, ic, r = rng.choice(qs)
                if rng.random() < 0.5:
                    ic = not ic
                else:
                    r = max(1, r + rng.choice([-1, 1]))
                qs.append((x, y, ic, r))
            else:
                qs.append((rng.randrange(w), rng.randrange(h), rng.random() < 0.5, rng.randint(1, max(w, h) + 1)))
        cases.append(_hex_case(rng, rng.choice(["HexSingleGrid", "HexMultiGrid"]), w, h, torus, qs))
    return cases


def _gen_net(rng, tier):
    cases = []
    for _ in range(120 if tier == "quick" else 3000):
        n = rng.randint(1, 8)
        p = rng.choice([0.0, 0.15, 0.3, 0.5, 0.8, 1.0])
        edges = [[i, j] for i in range(n) for j in range(i + 1, n) if rng.random() < p]
        agents = [[k + 1, rng.randrange(n)] for k in range(rng.randint(0, n + 2))]
        ops = []
        for _ in range(rng.randint(2, 12)):
            if rng.random() < 0.25:
                ops.append(["contents", [rng.randrange(n) for _ in range(rng.randint(0, 4))], rng.choice(_FORMS)])
            else:
                ops.append([rng.choice(["nbhd", "nbrs"]), rng.randrange(n), rng.random() < 0.5, rng.randint(1, n + 1)])
        cases.append({"kind": "net", "n": n, "edges": edges, "agents": agents, "ops": ops})
    return cases


def enumerate_cases(tier, broken=False):
    """targeted enumerator: every (w,h)<=4x4 (5x5 thorough) x torus x pos x r<=max+1 x flags, each
    grid queried twice in different orders (cache warm from other flags first)."""
    import random

    rng = random.Random(12345)
    lim = 5 if tier == "thorough" else 4
    for w in range(1, lim + 1):
        for h in range(1, lim + 1):
            for torus in (False, True):
                qs = _queries_all(w, h, max(w, h) + 1)
                for rep in range(2):
                    rng.shuffle(qs)
                    for s in range(0, len(qs), 80):
                        yield _mk_case(rng, ["SingleGrid", "MultiGrid"][rep], w, h, torus, qs[s:s + 80])


# ------------------------------------------------------------------ implementation side
def _enc(p):
    return p[0] * 4294967296 + p[1]


def _obs_cells(cells):
    e = [_enc(c) for c in cells]
    return [1 if len(set(e)) != len(e) else 0] + sorted(e)


def _obs_agents(ids):
    return [1 if len(set(ids)) != len(ids) else 0] + sorted(ids)


def _adist(torus, n, a, b):
    return min((a - b) % n, (b - a) % n) if torus else abs(a - b)


def _expected_cells(w, h, torus, x, y, moore, ic, r):
    out = set()
    for cx in range(w):
        for cy in range(h):
            dx, dy = _adist(torus, w, cx, x), _adist(torus, h, cy, y)
            d = max(dx, dy) if moore else dx + dy
            if d <= r and ((cx, cy) != (x, y) or ic):
                out.add((cx, cy))
    return out


def _cube(p):
    x, y = p
    return x, y - (x + (x % 2)) // 2


def _hexdist(a, b):
    (q1, r1), (q2, r2) = _cube(a), _cube(b)
    dq, dr = q1 - q2, r1 - r2
    return max(abs(dq), abs(dr), abs(dq + dr))


def _hex_expected(w, h, torus, pos, ic, r):
    """cells within r steps of touching hexagons (touching decided geometrically in cube coordinates)"""
    def adj(p):
        out = []
        for dx in (-1, 0, 1):
            for dy in (-1, 0, 1):
                c = (p[0] + dx, p[1] + dy)
                if _hexdist(p, c) == 1:
                    if torus:
                        out.append((c[0] % w, c[1] % h))
                    elif 0 <= c[0] < w and 0 <= c[1] < h:
                        out.append(c)
        return out
    seen = set()
    frontier = [pos]
    for _ in range(r):
        nxt = []
        for p in frontier:
            for c in adj(p):
                if c not in seen:
                    seen.add(c)
                    nxt.append(c)
        frontier = nxt
    seen.discard(pos)
    if ic:
        seen.add(pos)
    return seen


def _run_hex(case):
    import warnings

    import mesa
    from mesa.space import HexMultiGrid, HexSingleGrid

    model = mesa.Model(seed=1)
    cls = _user_subclass({"HexSingleGrid": HexSingleGrid, "HexMultiGrid": HexMultiGrid}[case["cls"]], case)
    w, h, torus = case["w"], case["h"], case["torus"]
    with warnings.catch_warnings():
        warnings.simplefilter("ignore")
        g = cls(w, h, torus)
        _add_layers(g, case)
    where = {}
    for aid, x, y in case["agents"]:
        a = _agent(model, aid)
        a._verif_id = aid
        g.place_agent(a, (x, y))
        where.setdefault((x, y), []).append(aid)
    obs, failures = [], []
    in_quantifier = (not torus) or w % 2 == 0
    for i, op in enumerate(case["ops"]):
        kind, x, y, ic, r, form = op
        try:
            if kind == "nbhd":
                res = g.get_neighborhood((x, y), ic, r) if form == "get" else list(g.iter_neighborhood((x, y), ic, r))
                cells = [tuple(int(v) for v in c) for c in res]
                obs.append(_obs_cells(cells))
                if in_quantifier:
                    exp = _hex_expected(w, h, torus, (x, y), ic, r)
                    if len(set(cells)) != len(cells) or set(cells) != exp:
                        failures.append({"key": f"C09/{case['cls']}/neighborhood/wrong-cells", "op": i,
                                         "what": f"hex get_neighborhood({(x, y)}, include_center={ic}, radius={r}) on {w}x{h} torus={torus}: got {sorted(cells)}, cells within {r} steps of touching hexagons are {sorted(exp)}"})
            else:
                res = g.get_neighbors((x, y), ic, r) if form == "get" else list(g.iter_neighbors((x, y), ic, r))
                got = [a._verif_id for a in res]
                obs.append(_obs_agents(got))
                if in_quantifier:
                    exp = _hex_expected(w, h, torus, (x, y), ic, r)
                    expa = sorted(a for c in exp for a in where.get(c, []))
                    if sorted(got) != expa:
                        failures.append({"key": f"C09/{case['cls']}/neighbors/wrong-agents", "op": i,
                                         "what": f"hex get_neighbors({(x, y)}, include_center={ic}, radius={r}) on {w}x{h} torus={torus}: got agents {sorted(got)}, agents in range are {expa}"})
        except Exception as e:  # noqa: BLE001
            obs.append([-1, 99])
            failures.append({"key": f"C09/{case['cls']}/{kind}/unexpected-exception", "op": i, "what": f"{op} raised {type(e).__name__}: {e}"})
    return {"obs": obs, "failures": failures}


def _run_net(case):
    import mesa
    import networkx as nx
    from mesa.space import NetworkGrid

    model = mesa.Model(seed=1)
    G = nx.Graph()
    G.add_nodes_from(range(case["n"]))
    G.add_edges_from([tuple(e) for e in case["edges"]])
    g = NetworkGrid(G)
    where = {}
    for aid, node in case["agents"]:
        a = _agent(model, aid)
        a._verif_id = aid
        g.place_agent(a, node)
        where.setdefault(node, []).append(aid)
    adj = {i: set() for i in range(case["n"])}
    for i, j in case["edges"]:
        adj[i].add(j)
        adj[j].add(i)

    def expected(node, ic, r):
        seen, frontier = set(), [node]
        for _ in range(r):
            nxt = []
            for p in frontier:
                for c in adj[p]:
                    if c not in seen:
                        seen.add(c)
                        nxt.append(c)
            frontier = nxt
        seen.discard(node)
        if ic:
            seen.add(node)
        return seen

    obs, failures = [], []
    for i, op in enumerate(case["ops"]):
        kind = op[0]
        if kind == "contents":
            try:
                form = op[2] if len(op) > 2 else "list"
                res = g.get_cell_list_contents(_as_form(op[1], form)) if i % 2 else list(g.iter_cell_list_contents(_as_form(op[1], form)))
                got = [a._verif_id for a in res]
                obs.append(_obs_agents(got))
                expa = sorted(a for c in op[1] for a in where.get(c, []))
                if sorted(got) != expa:
                    failures.append({"key": "C09/NetworkGrid/cell_list_contents/wrong-agents", "op": i,
                                     "what": f"NetworkGrid.get_cell_list_contents({op[1]} given as {form}): got {sorted(got)}, occupants are {expa}"})
            except Exception as e:  # noqa: BLE001
                obs.append([-1, 99])
                failures.append({"key": "C09/NetworkGrid/contents/unexpected-exception", "op": i, "what": f"{op} raised {type(e).__name__}: {e}"})
            continue
        kind, node, ic, r = op
        try:
            if kind == "nbhd":
                res = [int(v) for v in g.get_neighborhood(node, ic, r)]
                obs.append([1 if len(set(res)) != len(res) else 0] + sorted(res))
                exp = expected(node, ic, r)
                if len(set(res)) != len(res) or set(res) != exp:
                    failures.append({"key": "C09/NetworkGrid/neighborhood/wrong-nodes", "op": i,
                                     "what": f"NetworkGrid.get_neighborhood({node}, include_center={ic}, radius={r}) on edges {case['edges']}: got {sorted(res)}, nodes within {r} hops are {sorted(exp)}"})
            else:
                got = [a._verif_id for a in g.get_neighbors(node, ic, r)]
                obs.append(_obs_agents(got))
                expa = sorted(a for c in expected(node, ic, r) for a in where.get(c, []))
                if sorted(got) != expa:
                    failures.append({"key": "C09/NetworkGrid/neighbors/wrong-agents", "op": i,
                                     "what": f"NetworkGrid.get_neighbors({node}, include_center={ic}, radius={r}): got {sorted(got)}, agents within range {expa}"})
        except Exception as e:  # noqa: BLE001
            obs.append([-1, 99])
            failures.append({"key": f"C09/NetworkGrid/{kind}/unexpected-exception", "op": i, "what": f"{op} raised {type(e).__name__}: {e}"})
    adjl = [[n, [int(v) for v in G.neighbors(n)]] for n in G.nodes]
    return {"obs": obs, "failures": failures, "ops_for_model": [adjl] * len(case["ops"])}


_FALSY = {}
_SUBCLS = {}
_LAYER_NAMES = ["torus", "width", "height", "moore", "radius", "pos", "include_center", "num_cells", "elevation", "_grid",
                "_neighborhood_cache", "empties"]


def _add_layers(g, case):
    """the legacy grids carry property layers (part of the same classes): every fourth history queries a grid that has
    two layers attached, named like things the neighbourhood code reads (a layer is data; it must not shadow them);
    a third layer is attached and removed again after the first half of the queries (see run_impl)"""
    k = (3 * case["w"] + case["h"] + 2 * len(case["ops"])) % 4
    if k != 1:
        return
    from mesa.space import PropertyLayer

    names = [_LAYER_NAMES[(case["w"] + i * (case["h"] + 1)) % len(_LAYER_NAMES)] for i in range(2)]
    for nm in dict.fromkeys(names):
        g.add_property_layer(PropertyLayer(nm, case["w"], case["h"], 1 if nm != "torus" else int(not case["torus"]), dtype=int))


def _user_subclass(base, case):
    """every third history runs on a user subclass of the grid class (a docstring-only subclass, and one with
    an extra constructor argument and __slots__-free attributes): the statement is about the grid classes
    as they are meant to be used, i.e. also subclassed"""
    k = (case["w"] + 2 * case["h"] + len(case["ops"])) % 6
    if k not in (0, 3):
        return base
    key = (base, k)
    if key not in _SUBCLS:
        if k == 0:
            _SUBCLS[key] = type("My" + base.__name__, (base,), {"__doc__": "user subclass"})
        else:
            def __init__(self, width, height, torus, label="world"):
                base.__init__(self, width, height, torus)
                self.label = label

            _SUBCLS[key] = type("Labelled" + base.__name__, (base,), {"__init__": __init__})
    return _SUBCLS[key]


def _agent(model, aid):
    """a plain Agent for most odd ids; otherwise user subclasses that are legitimate but unusual: agents whose truth
    value is False (a container-style agent with __len__ == 0 / a cell automaton with __bool__ = alive), agents that are
    iterable (a group agent iterating over its members, which stand anywhere on the grid / an empty group) or
    sequence-like (__getitem__ + __len__): the statement says 'exactly the agents occupying those cells',
    whatever else the agent objects are"""
    import mesa

    if not _FALSY:
        class Household(mesa.Agent):
            def __len__(self):
                return 0

        class Dead(mesa.Agent):
            def __bool__(self):
                return False

        class Group(mesa.Agent):
            def __iter__(self):
                return iter([a for a in getattr(self.model, "_verif_members", []) if a is not self])

        class EmptyGroup(mesa.Agent):
            def __iter__(self):
                return iter(())

        class Seq(mesa.Agent):
            def __len__(self):
                return 0

            def __getitem__(self, i):
                raise IndexError(i)

        _FALSY.update(h=Household, d=Dead, g=Group, e=EmptyGroup, s=Seq)
    k = aid % 8
    cls = {0: _FALSY["h"], 2: _FALSY["d"], 3: _FALSY["g"], 4: _FALSY["s"], 6: _FALSY["e"]}.get(k, mesa.Agent)
    a = cls(model)
    if not hasattr(model, "_verif_members"):
        model._verif_members = []
    model._verif_members.append(a)
    return a


def run_impl(case):
    if case.get("kind") == "hex":
        return _run_hex(case)
    if case.get("kind") == "net":
        return _run_net(case)
    import mesa
    from mesa.space import MultiGrid, SingleGrid

    model = mesa.Model(seed=1)
    cls = _user_subclass({"SingleGrid": SingleGrid, "MultiGrid": MultiGrid}[case["cls"]], case)
    import warnings

    with warnings.catch_warnings():
        warnings.simplefilter("ignore")
        g = cls(case["w"], case["h"], case["torus"])
        _add_layers(g, case)
    ids = {}
    where = {}
    for aid, x, y in case["agents"]:
        a = _agent(model, aid)
        ids[id(a)] = aid
        a._verif_id = aid
        g.place_agent(a, (x, y))
        where.setdefault((x, y), []).append(aid)
    w, h, torus = case["w"], case["h"], case["torus"]
    obs = []
    failures = []
    for i, op in enumerate(case["ops"]):
        kind = op[0]
        try:
            if kind in ("nbhd", "nbrs"):
                _, x, y, moore, ic, r, form = op
                inb = 0 <= x < w and 0 <= y < h
                if form == "abandon":
                    it = g.iter_neighborhood((x, y), moore, ic, r) if kind == "nbhd" else g.iter_neighbors((x, y), moore, ic, r)
                    next(it, None)
                    del it
                pending = None
                if form == "interleave" and inb:
                    # an iterator of this very query is started, other queries run (and warm / read the caches), then it
                    # is finished: its answer must be the same as that of an uninterrupted call
                    pending = g.iter_neighborhood((x, y), moore, ic, r) if kind == "nbhd" else g.iter_neighbors((x, y), moore, ic, r)
                    head = [v for _, v in zip(range(1), pending)]
                    ox, oy = (x + 1) % w, (y + (1 if w == 1 else 0)) % h
                    g.get_neighborhood((ox, oy), not moore, ic, r)
                    g.get_neighborhood((x, y), moore, not ic, r)
                    list(g.iter_neighbors((ox, oy), moore, True, 1))
                if form in ("np", "np32", "npflags"):
                    import numpy as np

                    ity = np.int32 if form == "np32" else np.int64
                    qpos, pr = (ity(x), ity(y)), ity(r)
                    if form == "npflags":      # flags as they come out of numpy computations / as 0-1 ints
                        moore = np.bool_(moore) if (x + y) % 2 else int(moore)
                        ic = int(ic) if (x + y) % 2 else np.bool_(ic)
                else:
                    qpos, pr = (x, y), r
                if kind == "nbhd":
                    if pending is not None:
                        res = head + list(pending)
                    else:
                        res = g.get_neighborhood(qpos, moore, ic, pr) if form in ("get", "np", "np32", "npflags") else list(g.iter_neighborhood(qpos, moore, ic, pr))
                    cells = [tuple(int(v) for v in c) for c in res]
                    obs.append(_obs_cells(cells))
                    if inb:
                        exp = _expected_cells(w, h, torus, x, y, moore, ic, r)
                        if len(set(cells)) != len(cells):
                            failures.append({"key": f"C09/{case['cls']}/neighborhood/duplicates", "op": i,
                                             "what": f"get_neighborhood({(x, y)}, moore={moore}, include_center={ic}, radius={r}) on {w}x{h} torus={torus} returned duplicates: {cells}"})
                        if set(cells) != exp:
                            failures.append({"key": f"C09/{case['cls']}/neighborhood/wrong-cells", "op": i,
                                             "what": f"get_neighborhood({(x, y)}, moore={moore}, include_center={ic}, radius={r}) on {w}x{h} torus={torus}: got {sorted(cells)}, the cells in range are {sorted(exp)}"})
                else:
                    if pending is not None:
                        res = head + list(pending)
                    else:
                        res = g.get_neighbors(qpos, moore, ic, pr) if form in ("get", "np", "np32", "npflags") else list(g.iter_neighbors(qpos, moore, ic, pr))
                    got = [a._verif_id for a in res]
                    obs.append(_obs_agents(got))
                    if inb:
                        exp = _expected_cells(w, h, torus, x, y, moore, ic, r)
                        expa = sorted(a for c in exp for a in where.get(c, []))
                        if sorted(got) != expa:
                            failures.append({"key": f"C09/{case['cls']}/neighbors/wrong-agents", "op": i,
                                             "what": f"get_neighbors({(x, y)}, moore={moore}, include_center={ic}, radius={r}) on {w}x{h} torus={torus}: got agents {sorted(got)}, the agents in range are {expa}"})
            elif kind == "contents":
                cl = [tuple(c) for c in op[1]]
                form = op[2] if len(op) > 2 else "list"
                if i % 2:
                    got = [a._verif_id for a in g.get_cell_list_contents(_as_form(cl, form))]
                else:   # the iterator form is the primitive the list form wraps
                    got = [a._verif_id for a in g.iter_cell_list_contents(_as_form(cl, form))]
                obs.append(_obs_agents(got))
                expa = sorted(a for c in cl for a in where.get(c, []))
                if sorted(got) != expa:
                    failures.append({"key": f"C09/{case['cls']}/cell_list_contents/wrong-agents", "op": i,
                                     "what": f"get_cell_list_contents({cl}): got {sorted(got)}, occupants are {expa}"})
            else:
                raise ValueError(kind)
        except Exception as e:  # noqa: BLE001
            if type(e) is Exception and kind != "contents" and not (0 <= op[1] < w and 0 <= op[2] < h):
                obs.append([-1, E_OOB])
            else:
                obs.append([-1, 99])
                failures.append({"key": f"C09/{case['cls']}/{kind}/unexpected-exception", "op": i,
                                 "what": f"{op} raised {type(e).__name__}: {e}"})
    return {"obs": obs, "failures": failures}


# ------------------------------------------------------------------ model side
def _q(x, y, moore, ic, r):
    return f"{{| q_pos := {L.zpair((x, y))}; q_moore := {L.b(moore)}; q_ic := {L.b(ic)}; q_r := {L.z(r)} |}}"


def _contents(agents):
    cells = {}
    for aid, x, y in agents:
        cells.setdefault((x, y), []).append(aid)
    return L.lst([L.pair(L.zpair(c), L.zlist(v)) for c, v in cells.items()])


def coq_case(case):
    if case.get("kind") == "hex":
        ops = [f"{'HNbhd' if op[0] == 'nbhd' else 'HNbrs'} {L.zpair((op[1], op[2]))} {L.b(op[3])} {L.z(op[4])}" for op in case["ops"]]
        g = f"{{| g_w := {case['w']}; g_h := {case['h']}; g_torus := {L.b(case['torus'])} |}}"
        return f"CHex {g} {_contents(case['agents'])} {L.lst(ops)}"
    if case.get("kind") == "net":
        if case.get("_ops_for_model"):
            adjl = case["_ops_for_model"][0]
        else:  # same construction order as the driver (networkx lists neighbours in edge-insertion order)
            d = {i: [] for i in range(case["n"])}
            for i, j in case["edges"]:
                d[i].append(j)
                d[j].append(i)
            adjl = [[n, d[n]] for n in range(case["n"])]
        G = L.lst([L.pair(L.z(n), L.zlist(l)) for n, l in adjl])
        nodes = {}
        for aid, node in case["agents"]:
            nodes.setdefault(node, []).append(aid)
        cs = L.lst([L.pair(L.z(n), L.zlist(v)) for n, v in nodes.items()])
        ops = [(f"NContents {L.zlist(op[1])}" if op[0] == "contents" else
                f"{'NNbhd' if op[0] == 'nbhd' else 'NNbrs'} {L.z(op[1])} {L.b(op[2])} {L.z(op[3])}") for op in case["ops"]]
        return f"CNet {G} {cs} {L.lst(ops)}"
    return "COrth " + _coq_case_orth(case)


def _coq_case_orth(case):
    cells = {}
    for aid, x, y in case["agents"]:
        cells.setdefault((x, y), []).append(aid)
    cs = L.lst([L.pair(L.zpair(c), L.zlist(v)) for c, v in cells.items()])
    ops = []
    for op in case["ops"]:
        if op[0] == "nbhd":
            ops.append(f"Nbhd {_q(*op[1:6])}")
        elif op[0] == "nbrs":
            ops.append(f"Nbrs {_q(*op[1:6])}")
        else:
            ops.append(f"Contents {L.lst([L.zpair(c) for c in op[1]])}")
    g = f"{{| g_w := {case['w']}; g_h := {case['h']}; g_torus := {L.b(case['torus'])} |}}"
    return f"({{| c_grid := {g}; c_contents := {cs}; c_ops := {L.lst(ops)} |}})"


def op_kinds(case):
    k = case.get("kind", "orth")
    return [f"{k}/{op[0]}" for op in case["ops"]]


def nontrivial(case):
    obs = case.get("_obs", [])
    return len(case["ops"]) >= 2 and any(len(o) > 1 and o[0] != -1 for o in obs)

LEVEL_TEXT = ("Machine-checked Coq theorems over Gallina transcriptions of _Grid.get_neighborhood, _HexGrid.get_neighborhood and "
              "NetworkGrid.get_neighborhood: for every width/height >= 1, torus flag, position, radius, metric and include_center the "
              "orthogonal result is exactly the metric ball (C09_cells_exact), without duplicates, the interior fast path equals the "
              "border path; the hex result is exactly the set of cells within r steps of touching hexagons (C09_hex_is_ball, with "
              "C09_hex_touching proving that the adjacency tables re-extracted from the source are cube-distance 1); NetworkGrid "
              "answers are the r-hop ball of any simple graph (C09_network_ball); and - using the cache-key tuples re-extracted from "
              "the source on every run - every query history gets the answers of a fresh grid (C09_cache_transparent, "
              "C09_hex_cache_transparent). The model is tied to the code by the regenerated tables (T1) and by differential evaluation "
              "of model vs implementation on exhaustive small grids and random histories (T2); an independent oracle states the property "
              "on the implementation (geometric distance / cube coordinates / own BFS) and supplies the failing input.")
LEVEL_NOTE = ("Theorems are about the models; the tie is the regenerated tables plus differential testing, bounded by its generators. "
              "Trusted: Coq kernel, translate.py + tables/legacy_hex.py, the driver/observer, CPython int/dict/set/deque semantics and "
              "networkx neighbors/shortest-path as modelled. No axioms.")
TECHNIQUE = "Coq proof (induction, invariants, lia; closed under global context) + source-regenerated tables + vm_compute correspondence"
DESIGN_REF = "DESIGN.md section 4, C09"
