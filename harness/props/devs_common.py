"""Shared by C14 and C15: the case format, the driver + observer on the real simulators, the independent
oracle (the two property statements over the implementation's own trace), the Gallina printer.

case = {"cls": "ABM"|"DEVS", "script": [[tick, [act...]], ...], "fuel": n, "ops": [op...], "setup": bool (default true;
        false = simulator.setup(model) is never called: run calls must raise and change nothing)}
times are integers counting 1/8 (S = 8); `fl` says whether the Python value handed to the simulator is a
float (t/8) or an int (t//8, only when 8 | t).
op  = ["idjump", k] (the process-wide event-id counter SimulationEvent._ids is advanced by k, as if k events had been created by
      other simulators in between; invisible in the model, whose ids are only compared: printed as a cancel of a tag that does not exist) |
      ["reset"] | ["setup"] (life cycle: Simulator.reset(), setup(<a new model>)) |
      ["sched", kind, t, fl, prio, tag, holder, body] | ["cancel", tag] | ["drop", holder]
    | ["until", t, fl] | ["for", d, fl] | ["next"] | ["peek", n]
act = ["sched", ...same...] | ["cancel", tag] | ["drop", holder] | ["raise"] (the user callable raises UserBoom: ARaise in the model)
      | ["running", bool] (user code sets model.running; no effect on a simulator: nothing in the model)
      | ["rnext"] | ["rreset"] (re-entrancy: the callable calls run_next_event() / reset() on the simulator executing it; only in
        cases marked "nested": true, which are judged by nested_oracle alone - implementation + oracle only)
kind in now|rel|abs|tick, prio in L|D|H.  Tags are unique per case; model.step events show as tag -1.

User code: an event's callable is the bound method `fire` of a Holder object (even holder ids; WeakMethod) or a plain
function object (odd holder ids; weakref.ref), so that dropping the holder kills the weak reference; it is called with (tag, body); it logs [0, tag, clock] and interprets body; every schedule call
made by user code is wrapped in try/except and its outcome logged ([4, tag, time] accepted, [1|2, tag, 0]
rejected past / unit, [5, tag, 0] not attempted).  model.step logs [3, model.steps, clock] and interprets
script[model.steps]."""
import os

import coqlit as L

# optional heapq tie (DESIGN section 7): also compare the ORDER of EventList._events after every operation with the
# heap array of Model/DevsHeap.v (CPython heapq transcribed in Model/Heap.v).  Off by default: the array layout is an
# internal detail and must never decide a verdict of the normal run.
HEAP_TIE = os.environ.get("VERIF_HEAPQ_TIE") == "1"

S = 8
R_OK, R_PAST, R_UNIT, R_SKIP = 0, 1, 2, 5
E_EMPTY = 3
E_NOSETUP = 4
E_SETUP_TIME = 5
E_SETUP_EVENTS = 6
E_USER = 7


class UserBoom(Exception):
    """raised by the user code of an event / of model.step (act ["raise"])"""


class UserBoomIndex(UserBoom, IndexError):
    """the same, but also an IndexError (what random.choice([]) or [].pop() in user code raise): the simulators use
    `except IndexError` for "the event list is empty" and must not mistake the user's exception for that"""


# ... and every other "control-flow" exception type a library may catch for its own purposes (next() on an exhausted
# iterator, a missing key / attribute, a wrong call, a closing generator), plus the plain custom one
BOOMS = [UserBoom, UserBoomIndex] + [type("UserBoom" + b.__name__, (UserBoom, b), {})
                                     for b in (StopIteration, KeyError, AttributeError, TypeError, GeneratorExit, LookupError, RuntimeError)]
PVAL = {"L": 10, "D": 5, "H": 1}
PNAME = {"L": "PLow", "D": "PDefault", "H": "PHigh"}
KNAME = {"now": "KNow", "rel": "KRel", "abs": "KAbs", "tick": "KTick"}
SITE = {"now": "schedule_event_now", "rel": "schedule_event_relative", "abs": "schedule_event_absolute",
        "tick": "schedule_event_next_tick"}
CLS = {"ABM": "ABMSimulator", "DEVS": "DEVSimulator"}


# Non-dyadic float stream (C14): a case with "float": true carries its times as the Python floats themselves (decimal
# tenths / hundredths); nothing is scaled, the Z-scaled Gallina model is skipped for it (run_impl returns "model": False)
# and the oracle works on the floats exactly as the simulator got them.
_MODE = {"float": False}


def tv(t, fl):
    """the Python value for scaled time t"""
    if _MODE["float"]:
        return t
    if fl or t % S:
        return t / S
    return t // S


def sc(x):
    """scaled int of a simulator time (exact for the dyadic inputs the generators produce)"""
    if _MODE["float"]:
        return x
    v = x * S
    i = int(v)
    if i != v:
        raise ValueError(f"non-dyadic time {x!r}")
    return i


def _decode(x):
    """the float stream may carry numbers that JSON cannot: {"num": "npf"|"npi"|"frac"|"bool", "v": ...}"""
    if isinstance(x, dict) and "num" in x:
        import fractions

        import numpy as np
        k, v = x["num"], x["v"]
        return {"npf": lambda: np.float64(v), "npi": lambda: np.int64(v), "bool": lambda: bool(v),
                "frac": lambda: fractions.Fraction(v[0], v[1])}[k]()
    if isinstance(x, list):
        return [_decode(y) for y in x]
    if isinstance(x, dict):
        return {k: _decode(v) for k, v in x.items()}
    return x


def _noop(*a, **k):
    pass


def _d(x):
    """a time for a message"""
    return x if _MODE["float"] else x / S


def _tu():
    return "time" if _MODE["float"] else "time*8"


def _obs_int(x):
    """observations are lists of ints also in the float stream (they are only counted there, never compared)"""
    return int(x) if isinstance(x, (int, bool)) else int(round(x * 1000000))


# ============================================================== implementation side
class _Env:
    def __init__(self, case):
        import mesa
        from mesa.experimental.devs.eventlist import Priority
        from mesa.experimental.devs.simulator import ABMSimulator, DEVSimulator

        env = self
        self.abm = case["cls"] == "ABM"
        self.script = {int(k): v for k, v in case.get("script", [])}
        self.log = []
        self.atom = []          # (site, kind, before, after) for rejected calls made by user code
        self.holders = {}
        self.dropped = set()
        self.by_tag = {}
        self.prio = {"L": Priority.LOW, "D": Priority.DEFAULT, "H": Priority.HIGH}

        class Holder:
            """an object whose truth value is False and whose len() is 0: code that tests `if fn:` / `if model:` instead of
            `is not None` would drop its events"""

            def __init__(self, h):
                self.h = h

            def __bool__(self):
                return False

            def __len__(self):
                return 0

            def fire(self, tag, body, extra=None):
                env.log.append([0, tag, sc(env.sim.time)])
                env.run_acts(body)

            def __call__(self, tag, body, extra=None):      # holders of kind 3 are themselves the callable
                env.log.append([0, tag, sc(env.sim.time)])
                env.run_acts(body)

        class M(mesa.Model):
            def __init__(self):
                super().__init__(seed=1)

            def __bool__(self):
                return False

            def step(self):
                env.log.append([3, self.steps, sc(env.sim.time)])
                env.run_acts(env.script.get(self.steps, []))

        def make_fn():
            def fire(tag, body, extra=None):
                env.log.append([0, tag, sc(env.sim.time)])
                env.run_acts(body)
            return fire

        self.Holder = Holder
        self.make_fn = make_fn
        # user subclasses as the library intends them: hooks overridden and delegating to super(), extra state, a model whose
        # step is overridden once more and calls super().step(); every other history uses them instead of the stock classes
        class MyABM(ABMSimulator):
            """docstring-only plus hooks"""

            hooks = 0

            def setup(self, model):
                self.hooks += 1
                return super().setup(model)

            def _execute_event(self, event):
                self.hooks += 1
                return super()._execute_event(event)

            def _schedule_event(self, event):
                self.hooks += 1
                return super()._schedule_event(event)

        class MyDEVS(DEVSimulator):
            def __init__(self, label="x"):
                super().__init__()
                self.label = label

            def _execute_event(self, event):
                return super()._execute_event(event)

            def run_for(self, time_delta):
                return super().run_for(time_delta)

        class M2(M):
            def step(self):
                super().step()

        sub = sum(map(len, map(str, case["ops"][:3]))) % 2 == 1
        if sub:
            M = M2      # noqa: N806
        self.Model = M
        self.sim = (MyABM() if self.abm else MyDEVS(label="y")) if sub else (ABMSimulator() if self.abm else DEVSimulator())
        # a second simulator in the same process that keeps consuming event ids (SimulationEvent._ids is class-level state)
        self.decoy = DEVSimulator()
        # one keyword dict object shared by ALL events, and the argument lists handed in: caller-owned, must never be mutated
        self.shared_kw = {"extra": 7}
        self.args_ref = []
        self.ncall = 0
        self.model = M()
        self.is_setup = bool(case.get("setup", True))
        if self.is_setup:
            self.sim.setup(self.model)

    # -- user code
    def run_acts(self, body):
        for a in body:
            if a[0] == "sched":
                before = self.snapshot()
                rc, t = self.do_sched(*a[1:])
                if rc in (R_PAST, R_UNIT):
                    self.atom.append((a[1], rc, before, self.snapshot(), a))
                self.log.append([4 if rc == R_OK else rc, a[5], t if rc == R_OK else 0])
            elif a[0] == "cancel":
                self.do_cancel(a[1])
            elif a[0] == "drop":
                self.do_drop(a[1])
            elif a[0] == "raise":
                self.ncall += 1
                raise BOOMS[self.ncall % len(BOOMS)]()
            elif a[0] == "rnext":
                # re-entrancy: the callable itself calls run_next_event() (markers 8 / 9 around whatever runs nested)
                self.log.append([8, 0, sc(self.sim.time)])
                if self.sim.model is not None:          # (after a nested reset() there is no model: the user code does not run then)
                    self.sim.run_next_event()
                self.log.append([9, 0, sc(self.sim.time)])
            elif a[0] == "rreset":
                # re-entrancy: the callable calls reset() on the simulator that is executing it
                self.sim.reset()
                self.is_setup = False
                self.log.append([6, 0, 0])
            elif a[0] == "running":
                # user code sets model.running (Model.run_model / the solara controllers look at it; the simulators do not:
                # the statement of C15 says model.step runs at EVERY tick) - no effect in the Gallina model, not printed for it
                self.model.running = bool(a[1])

    def do_sched(self, kind, t, fl, prio, tag, h, body):
        if h in self.dropped:
            return R_SKIP, 0
        if kind == "tick" and not self.abm:
            return R_SKIP, 0
        if h not in self.holders:
            # four kinds of callables, all weakly referenced by SimulationEvent: h % 4 == 0 a bound method of a (falsy) object
            # (WeakMethod), 1 a plain function, 2 a functools.partial object, 3 a (falsy) instance with __call__ (weakref.ref)
            import functools

            f0 = self.make_fn()
            lam = (lambda tag, body, extra=None: f0(tag, body, extra)) if self.ncall % 2 else None   # a lambda (kept alive by us only)
            self.holders[h] = [self.Holder(h), lam or self.make_fn(), functools.partial(self.make_fn()), self.Holder(h)][h % 4] \
                if h >= 0 else self.make_fn()
        holder = self.holders[h]
        fn = holder.fire if h % 4 == 0 else holder
        del holder
        args = [tag, body]
        self.args_ref.append((args, tag))
        kw = {"priority": self.prio[prio], "function_args": args, "function_kwargs": self.shared_kw}
        self.ncall += 1
        spell = self.ncall % 2      # positional / keyword spelling of the same call
        try:
            if kind == "now":
                ev = self.sim.schedule_event_now(fn, **kw) if spell else self.sim.schedule_event_now(function=fn, **kw)
            elif kind == "rel":
                ev = self.sim.schedule_event_relative(fn, tv(t, fl), **kw) if spell else \
                    self.sim.schedule_event_relative(function=fn, time_delta=tv(t, fl), **kw)
            elif kind == "abs":
                ev = self.sim.schedule_event_absolute(fn, tv(t, fl), **kw) if spell else \
                    self.sim.schedule_event_absolute(function=fn, time=tv(t, fl), **kw)
            else:
                ev = self.sim.schedule_event_next_tick(fn, **kw) if spell else self.sim.schedule_event_next_tick(function=fn, **kw)
        except ValueError:
            # which of the two rejections it was is read off the call, never off the message text (rewording a message is
            # harmless): a time before the clock is "past", anything else "unit"
            now = self.sim.time
            when = {"abs": tv(t, fl), "rel": now + tv(t, fl), "now": now, "tick": now + 1}[kind]
            return (R_PAST if when < now else R_UNIT), 0
        self.by_tag.setdefault(tag, []).append(ev)
        return R_OK, sc(ev.time)

    def do_cancel(self, tag):
        for ev in self.by_tag.get(tag, []):
            self.ncall += 1
            if self.ncall % 2:
                self.sim.cancel_event(ev)
            else:
                self.sim.cancel_event(event=ev)

    def do_drop(self, h):
        self.dropped.add(h)
        self.holders.pop(h, None)

    # -- observer
    def tag_of(self, ev):
        f = ev.fn() if ev.fn is not None else None
        if f is not None and f == self.model.step:
            return -1
        return ev.function_args[0] if ev.function_args else -9

    def pending(self):
        evs = [e for e in self.sim.event_list._events if not e.CANCELED]
        evs.sort(key=lambda e: (e.time, e.priority, e.unique_id))
        return [[self.tag_of(e), sc(e.time), int(e.priority)] for e in evs]

    def snapshot(self):
        return [sc(self.sim.time), int(self.model.steps), self.pending()]

    def view(self, log):
        # one snapshot per operation: it is also the `after` of this operation and the `before` of the next one
        self._snap = self.snapshot()
        clk, steps, pend = self._snap
        out = [clk, steps, len(pend)]
        for p in pend:
            out += p
        for i in log:
            out += i
        return out

    def do_op(self, op):
        """returns (observation, info) - info is what the oracle needs beyond the observation"""
        self.log = []
        self.atom = []
        k = op[0]
        if self.ncall % 3 == 0:
            self.decoy.reset()          # resetting ANOTHER simulator must not disturb this one (class-level id counter)
        self.decoy.schedule_event_absolute(_noop, 1.0)
        self.ncall += 1
        spell = self.ncall % 2
        info = {"before": self._last if getattr(self, "_last", None) is not None else self.snapshot()}
        self._snap = None
        if k == "sched":
            rc, t = self.do_sched(*op[1:])
            info["rc"] = rc
            info["t"] = t
            hd = [0] if rc == R_OK else [-2] if rc == R_SKIP else [-1, rc]
            ob = hd + self.view([])
        elif k == "cancel":
            self.do_cancel(op[1])
            ob = [0] + self.view([])
        elif k == "drop":
            self.do_drop(op[1])
            ob = [0] + self.view([])
        elif k in ("until", "for", "next"):
            try:
                if k == "until":
                    self.sim.run_until(tv(op[1], op[2])) if spell else self.sim.run_until(end_time=tv(op[1], op[2]))
                elif k == "for":
                    self.sim.run_for(tv(op[1], op[2])) if spell else self.sim.run_for(time_delta=tv(op[1], op[2]))
                else:
                    self.sim.run_next_event()
                ob = [0] + self.view(self.log)
            except UserBoom:
                info["userexc"] = True
                ob = [-1, E_USER] + self.view(self.log)
            except Exception as e:  # noqa: BLE001
                if not self.is_setup and self.sim.model is None and type(e) is Exception:
                    info["nosetup"] = True
                    ob = [-1, E_NOSETUP]
                else:
                    info["exc"] = f"{type(e).__name__}: {e}"
                    ob = [-1, 99]
        elif k == "peek":
            try:
                pk = self.sim.event_list.peak_ahead(op[1]) if spell else self.sim.event_list.peak_ahead(n=op[1])
                items = [[self.tag_of(e), sc(e.time), int(e.priority)] for e in pk]
                info["peek"] = items
                info["peek_cancelled"] = [bool(e.CANCELED) for e in pk]
                ob = [0, len(items)] + [x for it in items for x in it]
            except IndexError:
                info["peek"] = None
                ob = [-1, E_EMPTY]
        elif k == "idjump":
            import itertools

            from mesa.experimental.devs.eventlist import SimulationEvent
            SimulationEvent._ids = itertools.count(next(SimulationEvent._ids) + int(op[1]))
            ob = [0] + self.view([])
        elif k == "reset":
            self.sim.reset()
            self.is_setup = False
            ob = [0] + self.view([])
        elif k == "setup":
            new_model = self.Model()
            info["n_events_before"] = len(self.sim.event_list._events)
            try:
                self.sim.setup(new_model) if spell else self.sim.setup(model=new_model)
                self.model = new_model
                self.is_setup = True
                info["setup"] = 0
                ob = [0] + self.view([])
            except ValueError:
                # classified by the state, not by the message text
                code = E_SETUP_TIME if self.sim.time != self.sim.start_time else E_SETUP_EVENTS
                info["setup"] = code
                ob = [-1, code]
        else:
            raise ValueError(k)
        if HEAP_TIE:
            ob = ob + [-7] + [-8 if e.CANCELED else self.tag_of(e) for e in self.sim.event_list._events]
        info["caller_args_ok"] = self.shared_kw == {"extra": 7} and all(len(a) == 2 and a[0] == t for a, t in self.args_ref)
        info["log"] = [list(i) for i in self.log]
        info["atom"] = list(self.atom)
        info["after"] = self._snap if self._snap is not None else self.snapshot()
        self._last = info["after"]
        info["n_events"] = len(self.sim.event_list._events)
        return ob, info


def simulate(case, ops):
    env = _Env(case)
    out = []
    for op in ops:
        out.append(env.do_op(op))
    return out


# ============================================================== the oracle (property statements)
class _Shadow:
    """What the history scheduled, from the calls and their observed outcomes - not a simulator: it never
    decides which event runs, it only checks the events the implementation says it ran."""

    def __init__(self, abm, is_setup=True):
        self.abm = abm
        self.pend = []          # dicts: tag time prio seq seq2 holder cancelled step body
        self.seq = 0
        self.dead = set()
        self.nsteps = 0
        if abm and is_setup:
            self.add_step(S)

    def nseq(self):
        self.seq += 1
        return self.seq

    def add_step(self, t):
        s = self.nseq()
        e = {"tag": -1, "time": t, "prio": PVAL["H"], "seq": s, "seq2": s, "holder": None, "cancelled": False,
             "step": True, "body": []}
        self.pend.append(e)
        return e

    def add(self, tag, t, prio, holder, body):
        s = self.nseq()
        self.pend.append({"tag": tag, "time": t, "prio": PVAL[prio], "seq": s, "seq2": s, "holder": holder,
                          "cancelled": False, "step": False, "body": body})

    def live(self):
        return [e for e in self.pend if not e["cancelled"]]

    def runnable(self, e):
        return not e["cancelled"] and (e["step"] or e["holder"] not in self.dead)

    def order(self, which):
        return sorted(self.live(), key=lambda e: (e["time"], e["prio"], e[which]))


def oracle(case, recs):
    """recs = [(obs, info)] per op.  Returns the failures of the first op that violates a statement."""
    cls = CLS[case["cls"]]
    abm = case["cls"] == "ABM"
    is_setup = bool(case.get("setup", True))      # becomes False at reset(), True at a successful setup()
    sh = _Shadow(abm, is_setup)
    fails = []
    script = {int(k): v for k, v in case.get("script", [])}
    judged_clock = True     # False once a run went outside the quantifier (horizon before now)

    def fail(key, i, what):
        fails.append({"key": key, "op": i, "what": what})

    def expect_sched(i, a, now, rc, where, before=None, after=None):
        """one schedule call with observed outcome rc at clock `now`"""
        _, kind, t, fl, prio, tag, h, body = a
        site = SITE[kind]
        if rc == R_SKIP:
            return
        if rc == 99:
            fail(f"C14/{cls}/{site}/unexpected-exception", i, f"{site} raised an unexpected ValueError ({where})")
            return
        when = {"abs": t, "rel": now + t, "now": now, "tick": now + S}[kind]
        past = when < now
        unit_bad = abm and when % S != 0
        call = f"{site}({'' if kind in ('now', 'tick') else tv(t, fl)}) at time {_d(now)} ({where})"
        if rc == R_OK:
            if past:
                fail(f"C14/{cls}/{site}/accepted-in-past", i,
                     f"{call} was accepted: the event is scheduled for {_d(when)}, before the current time")
            elif unit_bad:
                fail(f"C14/{cls}/{site}/accepted-wrong-unit", i, f"{call} was accepted although {_d(when)} is not an integer time")
            sh.add(tag, when, prio, h, body)
        else:
            if not past and not unit_bad:
                fail(f"C14/{cls}/{site}/valid-call-rejected", i, f"{call} was rejected ({'past' if rc == R_PAST else 'unit'}) although {_d(when)} is a legal time")
            if before is not None and before != after:
                why = "past" if rc == R_PAST else "unit"
                msg = f"{call} raised ValueError but changed the simulator: before {before}, after {after}"
                fail(f"C18/devs/{site}-{why}", i, msg)
                fail(f"C14/{cls}/{site}/rejected-call-changed-state", i, msg)

    def run_body(i, body, log, pos, now, where):
        """interpret the user code of the event that just ran against the log items that follow it"""
        for a in body:
            if a[0] == "sched":
                if pos >= len(log) or log[pos][0] not in (1, 2, 4, 5, 99) or log[pos][1] != a[5]:
                    fail(f"C14/{cls}/trace/user-code-not-run-to-completion", i, f"expected the outcome of scheduling tag {a[5]} in the log at {pos}: {log}")
                    return pos
                code = log[pos][0]
                rc = R_OK if code == 4 else code
                if rc == R_OK and log[pos][2] != {"abs": a[2], "rel": now + a[2], "now": now, "tick": now + S}[a[1]]:
                    fail(f"C14/{cls}/{SITE[a[1]]}/wrong-event-time", i, f"event {a[5]} got time {_d(log[pos][2])} ({where})")
                expect_sched(i, a, now, rc, where)
                pos += 1
            elif a[0] == "cancel":
                for e in sh.pend:
                    if e["tag"] == a[1] and not e["step"]:
                        e["cancelled"] = True
            elif a[0] == "drop":
                sh.dead.add(a[1])
            elif a[0] == "raise":
                aborted[0] = True       # the user callable raises here: the rest of its body never runs
                return pos
        return pos

    aborted = [False]
    for i, (op, (ob, info)) in enumerate(zip(case["ops"], recs)):
        k = op[0]
        before, after = info["before"], info["after"]
        if fails:
            break
        if not info.get("caller_args_ok", True):
            fail(f"C14/{cls}/schedule/caller-arguments-mutated", i, f"after {op}: the function_args list / function_kwargs dict handed to schedule_event_* was modified by the simulator")
            break
        if "exc" in info or (ob[:2] == [-1, 99]):
            fail(f"C14/{cls}/{k}/unexpected-exception", i, f"{op} raised {info.get('exc')}")
            break
        for (kind, rc, b4, aft, a) in info["atom"]:
            if b4 != aft:
                why = "past" if rc == R_PAST else "unit"
                msg = f"{SITE[kind]} called from an event raised ValueError but changed the simulator: before {b4}, after {aft}"
                fail(f"C18/devs/{SITE[kind]}-{why}", i, msg)
                fail(f"C14/{cls}/{SITE[kind]}/rejected-call-changed-state", i, msg)
        if k == "sched":
            if info["rc"] == R_OK:
                want = {"abs": op[2], "rel": before[0] + op[2], "now": before[0], "tick": before[0] + S}[op[1]]
                if info["t"] != want:
                    fail(f"C14/{cls}/{SITE[op[1]]}/wrong-event-time", i,
                         f"{SITE[op[1]]}({tv(op[2], op[3])!r}) at time {_d(before[0])!r}: the event got time {_d(info['t'])!r}, not {_d(want)!r}")
                    break
            expect_sched(i, op, before[0], info["rc"], "top level", before, after)
        elif k == "cancel":
            for e in sh.pend:
                if e["tag"] == op[1] and not e["step"]:
                    e["cancelled"] = True
        elif k == "drop":
            sh.dead.add(op[1])
        elif k == "reset":
            sh.pend = []
            is_setup = False
            if after[0] != 0 or after[2] or info["n_events"]:
                fail(f"C14/{cls}/reset/not-back-to-start", i, f"after reset(): clock {_d(after[0])}, pending {after[2]}, {info['n_events']} entries in the event list")
                break
        elif k == "setup":
            want = E_SETUP_TIME if before[0] != 0 else E_SETUP_EVENTS if info["n_events_before"] else 0
            if info["setup"] != want:
                fail(f"C14/{cls}/setup/wrong-outcome", i, f"setup() at clock {_d(before[0])} with {info['n_events_before']} entries in the event list: outcome {info['setup']}, expected {want} (0 = accepted, 5 = time, 6 = events)")
                break
            if want and after != before:
                fail(f"C18/devs/setup-rejected", i, f"setup() raised but changed the simulator: {before} -> {after}")
                fail(f"C14/{cls}/setup/raised-but-changed-state", i, f"setup() raised but changed the simulator: {before} -> {after}")
                break
            if not want:
                is_setup = True
                sh.nsteps = 0          # a new model
                if abm:
                    sh.add_step(S)
        elif k in ("until", "for", "next") and not is_setup:
            if not info.get("nosetup"):
                fail(f"C14/{cls}/{k}/ran-without-setup", i, f"{op} did not raise although setup(model) was never called")
                break
            if after != before:
                fail(f"C14/{cls}/{k}/raised-but-changed-state", i, f"{op} raised 'not setup' but changed the simulator: {before} -> {after}")
                break
        elif k in ("until", "for", "next"):
            now0 = before[0]
            horizon = None
            if k == "until":
                horizon = op[1]
            elif k == "for":
                horizon = now0 + op[1]
            in_q = horizon is None or horizon >= now0
            if abm and horizon is not None and horizon % S != 0:
                in_q = False
            if not in_q:
                judged_clock = False
            log = info["log"]
            pos = 0
            prev = now0
            nexec = 0
            aborted[0] = False
            while pos < len(log) and not fails and not aborted[0]:
                it = log[pos]
                if it[0] == 0 or it[0] == 3:
                    is_step = it[0] == 3
                    clk = it[2]
                    if is_step:
                        cands = [e for e in sh.pend if e["step"] and not e["cancelled"]]
                        cands.sort(key=lambda e: e["time"])
                        e = cands[0] if cands else None
                        if e is None:
                            fail(f"C15/{cls}/step/ran-without-being-scheduled", i, f"model.step ran at {_d(clk)} but no step is pending in the history")
                            break
                    else:
                        cands = [e for e in sh.pend if e["tag"] == it[1] and not e["step"]]
                        if not cands:
                            fail(f"C14/{cls}/execution/event-executed-twice-or-never-scheduled", i,
                                 f"event {it[1]} ran at {_d(clk)} but is not pending (already executed, or never accepted)")
                            break
                        e = cands[0]
                        if e["cancelled"]:
                            fail(f"C14/{cls}/execution/cancelled-event-executed", i, f"event {it[1]} was cancelled and ran at {_d(clk)}")
                            break
                        if e["holder"] in sh.dead:
                            fail(f"C14/{cls}/execution/dead-callable-executed", i, f"event {it[1]}: its callable was dropped, yet it ran")
                            break
                    nexec += 1
                    if clk != e["time"]:
                        fail((f"C15/{cls}/step/not-at-its-tick" if is_step else f"C14/{cls}/clock/differs-from-event-time"), i,
                             f"{'model.step' if is_step else 'event ' + str(it[1])} scheduled for {_d(e['time'])} ran with simulator.time = {_d(clk)}")
                        break
                    if clk < prev and in_q:
                        fail(f"C14/{cls}/clock/moved-backwards", i, f"clock went from {_d(prev)} to {_d(clk)} in {op}")
                        break
                    if horizon is not None and e["time"] > horizon:
                        fail(f"C14/{cls}/run_until/executed-beyond-horizon", i, f"event {it[1]} at {_d(e['time'])} ran in {op} (horizon {_d(horizon)})")
                        break
                    if k == "next" and nexec > 1:
                        fail(f"C14/{cls}/run_next_event/more-than-one-event", i, f"run_next_event ran {nexec} events")
                        break
                    # pop-min: nothing runnable that is pending now may precede it
                    for o in sh.pend:
                        if o is e or not sh.runnable(o):
                            continue
                        if o["step"] or e["step"]:
                            less = (o["time"], o["prio"]) < (e["time"], e["prio"])
                        else:
                            less = (o["time"], o["prio"], o["seq"]) < (e["time"], e["prio"], e["seq"])
                        if less:
                            if o["step"] and o["time"] == e["time"]:
                                fail(f"C15/{cls}/step/after-lower-priority-event", i,
                                     f"event {it[1]} (priority {e['prio']}) ran at tick {_d(clk)} before that tick's model.step")
                            elif o["step"]:
                                fail(f"C15/{cls}/step/missed-tick", i, f"event {it[1]} ran at {_d(clk)} while the model.step of tick {_d(o['time'])} has not run")
                            else:
                                fail(f"C14/{cls}/order/not-in-time-priority-fifo-order", i,
                                     f"{'model.step' if is_step else 'event ' + str(it[1])} (time {_d(e['time'])}, priority {e['prio']}) ran while event {o['tag']} (time {_d(o['time'])}, priority {o['prio']}, scheduled {'earlier' if o['seq'] < e['seq'] else 'later'}) was pending")
                            break
                    if fails:
                        break
                    sh.pend.remove(e)
                    # events with a dead callable / cancelled that precede it were consumed silently
                    sh.pend = [o for o in sh.pend if sh.runnable(o) or not ((o["time"], o["prio"], o["seq"]) < (e["time"], e["prio"], e["seq"]))]
                    prev = clk
                    pos += 1
                    if is_step:
                        sh.nsteps += 1
                        if it[1] != sh.nsteps:
                            fail(f"C15/{cls}/step/steps-not-incremented-by-one", i, f"model.steps is {it[1]} in step number {sh.nsteps}")
                            break
                        if judged_clock and clk != sh.nsteps * S:
                            fail(f"C15/{cls}/step/not-once-per-tick", i, f"step number {sh.nsteps} ran at time {_d(clk)}")
                            break
                        nxt = sh.add_step(clk + S)      # the statement: step runs at every tick
                        pos = run_body(i, script.get(it[1], []), log, pos, clk, f"from model.step at {_d(clk)}")
                        nxt["seq2"] = sh.nseq()
                    else:
                        pos = run_body(i, e["body"], log, pos, clk, f"from event {it[1]} at {_d(clk)}")
                else:
                    fail(f"C14/{cls}/trace/stray-log-item", i, f"log item {it} outside any event: {log}")
            if fails:
                break
            clk_after = after[0]
            if aborted[0] or info.get("userexc"):
                # an exception escaped from a user callable: the run call must propagate it, the event that raised is
                # consumed, the clock stays at its time, nothing else is touched (checked below: pending, steps)
                if not info.get("userexc"):
                    fail(f"C14/{cls}/{k}/user-exception-swallowed", i, f"{op}: the user callable raised but the call returned normally")
                    if abm and k in ("until", "for") and after[1] * S != after[0]:
                        fail(f"C15/{cls}/{'run_until' if k == 'until' else 'run_for'}/steps-differ-from-clock", i,
                             f"{op} returned normally although user code raised: model.steps = {after[1]}, clock = {_d(after[0])}")
                    break
                if not aborted[0] or pos != len(log):
                    fail(f"C14/{cls}/{k}/continued-after-user-exception", i, f"{op}: user code raised, yet the log goes on: {log[pos:]}")
                    break
                if clk_after != prev:
                    fail(f"C14/{cls}/clock/after-user-exception", i, f"{op}: the callable raised at {_d(prev)}, the clock is left at {_d(clk_after)}")
                    break
            elif k in ("until", "for") and in_q:
                if clk_after != horizon:
                    fail(f"C14/{cls}/run_until/clock-not-at-horizon", i, f"after {op} from {_d(now0)} the clock is {_d(clk_after)}, not {_d(horizon)}")
                    break
                left = [e for e in sh.pend if sh.runnable(e) and e["time"] <= horizon]
                if left:
                    e = min(left, key=lambda e: (e["time"], e["prio"], e["seq"]))
                    if e["step"]:
                        fail(f"C15/{cls}/step/missed-tick", i, f"after {op} the clock is {_d(clk_after)} but model.step never ran at tick {_d(e['time'])} (model.steps = {after[1]})")
                    else:
                        fail(f"C14/{cls}/run_until/live-event-not-executed", i, f"event {e['tag']} at {_d(e['time'])} is live but was not run by {op}")
                    break
                sh.pend = [e for e in sh.pend if e["time"] > horizon or sh.runnable(e)]
            elif k in ("until", "for"):
                # outside the quantifier nothing is demanded; events that cannot run and are due were consumed silently
                sh.pend = [e for e in sh.pend if e["time"] > horizon or sh.runnable(e)]
            elif k == "next":
                if nexec == 0:
                    lv = sh.order("seq")
                    if lv:
                        m = lv[0]
                        if sh.runnable(m):
                            fail(f"C14/{cls}/run_next_event/live-event-not-executed", i, f"run_next_event ran nothing although event {m['tag']} at {_d(m['time'])} is pending")
                            break
                        sh.pend.remove(m)
                        if clk_after != m["time"]:
                            fail(f"C14/{cls}/clock/differs-from-event-time", i, f"run_next_event consumed event {m['tag']} (dead callable) at {_d(m['time'])}; clock is {_d(clk_after)}")
                            break
                    elif clk_after != now0:
                        fail(f"C14/{cls}/clock/moved-without-event", i, f"run_next_event on an empty list moved the clock to {_d(clk_after)}")
                        break
                elif clk_after != prev:
                    fail(f"C14/{cls}/clock/differs-from-event-time", i, f"after run_next_event the clock is {_d(clk_after)}, the event ran at {_d(prev)}")
                    break
            if clk_after < now0 and in_q:
                fail(f"C14/{cls}/clock/moved-backwards", i, f"clock went from {_d(now0)} to {_d(clk_after)} in {op}")
                break
            # C15: steps against the clock
            if abm and judged_clock:
                steps = after[1]
                if steps != sh.nsteps:
                    fail(f"C15/{cls}/step/steps-differ-from-step-calls", i, f"model.steps = {steps}, model.step ran {sh.nsteps} times")
                    break
                if k in ("until", "for") and not info.get("userexc") and steps * S != clk_after:
                    fail(f"C15/{cls}/{'run_until' if k == 'until' else 'run_for'}/steps-differ-from-clock", i, f"after {op}: model.steps = {steps}, clock = {_d(clk_after)}")
                    break
                if k == "next" and not (clk_after - S <= steps * S <= clk_after):
                    fail(f"C15/{cls}/run_next_event/steps-differ-from-clock", i, f"after run_next_event: model.steps = {steps}, clock = {_d(clk_after)}")
                    break
        elif k == "peek":
            n = op[1]
            if n >= 1:
                if info["peek"] is None:
                    if sh.live() and info["n_events"]:
                        fail("C14/EventList/peak_ahead/raised-on-non-empty-list", i, "peak_ahead raised IndexError although events are pending")
                else:
                    if any(info["peek_cancelled"]):
                        fail("C14/EventList/peak_ahead/shows-cancelled-event", i, f"peak_ahead({n}) returned a cancelled event")
                        break
                    exp1 = [[e["tag"], e["time"], e["prio"]] for e in sh.order("seq")[:n]]
                    exp2 = [[e["tag"], e["time"], e["prio"]] for e in sh.order("seq2")[:n]]
                    if info["peek"] != exp1 and info["peek"] != exp2:
                        fail("C14/EventList/peak_ahead/not-in-execution-order", i,
                             f"peak_ahead({n}) = {info['peek']} (tag, {_tu()}, priority); the live events in the order they will run are {exp1}")
                        break
        # after every op: nothing but the call may have changed the state; the pending live events are those scheduled
        if fails:
            break
        exp = [[e["tag"], e["time"], e["prio"]] for e in sh.live()]
        got = after[2]
        # (with hundreds of pending events the full comparison is made after run calls and every 37th operation, the count always)
        full = len(exp) <= 300 or k in ("until", "for", "next", "reset", "setup") or i % 37 == 0 or i == len(case["ops"]) - 1
        if (sorted(exp) != sorted(got)) if full else (len(exp) != len(got)):
            lost = [e for e in exp if e not in got]
            extra = [e for e in got if e not in exp]
            if any(e[0] == -1 for e in lost + extra):
                fail(f"C15/{cls}/step/next-step-not-pending", i, f"after {op}: model.step should be pending for the next tick; missing {lost}, unexpected {extra}")
            else:
                fail(f"C14/{cls}/pending/differs-from-what-was-scheduled", i, f"after {op}: events lost {lost}, unexpected {extra} (tag, {_tu()}, priority)")
            break
        if k in ("sched", "cancel", "drop", "peek", "idjump") and (after[0] != before[0] or after[1] != before[1]):
            fail(f"C14/{cls}/{k}/changed-clock-or-steps", i, f"{op}: clock/steps {before[:2]} -> {after[:2]}")
            break
    return fails


# ---------------------------------------------------------------- C15 chunking: implementation against implementation
def chunk_oracle(case, recs):
    """every maximal block of consecutive run calls that stays inside the quantifier and ends at a run_until/run_for
    horizon T is replayed on a fresh simulator as ONE run_until(T); log, clock, steps and pending events must agree"""
    cls = CLS[case["cls"]]
    abm = case["cls"] == "ABM"
    ops = case["ops"]
    merged = []
    groups = []         # (index in merged, [indices in ops])
    i = 0
    n = len(ops)
    while i < n:
        if ops[i][0] not in ("until", "for", "next"):
            merged.append(ops[i])
            groups.append([i])
            i += 1
            continue
        j = i
        while j < n and ops[j][0] in ("until", "for", "next"):
            j += 1
        # last horizon piece
        m = max((x for x in range(i, j) if ops[x][0] != "next"), default=None)
        ok = m is not None and m > i
        if ok:
            T = recs[m][1]["after"][0]
            for x in range(i, m + 1):
                b4, aft = recs[x][1]["before"][0], recs[x][1]["after"][0]
                if "exc" in recs[x][1] or recs[x][1].get("nosetup") or recs[x][1].get("userexc") or aft < b4 or aft > T:
                    ok = False
                if ops[x][0] == "until" and (ops[x][1] < b4 or aft != ops[x][1]):
                    ok = False
                if ops[x][0] == "for" and (ops[x][1] < 0 or aft != b4 + ops[x][1]):
                    ok = False
            if abm and T % S:
                ok = False
        if ok:
            merged.append(["until", T, False if (not _MODE["float"] and T % S == 0) else True])   # an int horizon stays an int (exact above 2^53)
            groups.append(list(range(i, m + 1)))
            for x in range(m + 1, j):
                merged.append(ops[x])
                groups.append([x])
        else:
            for x in range(i, j):
                merged.append(ops[x])
                groups.append([x])
        i = j
    if len(merged) == len(ops):
        return []
    recs2 = simulate(case, merged)
    fails = []
    for (ob2, info2), g in zip(recs2, groups):
        last = recs[g[-1]][1]
        log1 = [it for x in g for it in recs[x][1]["log"]]
        if info2["after"] != last["after"] or info2["log"] != log1:
            what = (f"ops {g[0]}..{g[-1]} {[ops[x] for x in g]} reach clock {_d(last['after'][0])} with steps={last['after'][1]}, "
                    f"log={log1}, pending={last['after'][2]}; the same history with run_until({_d(last['after'][0])}) in one piece "
                    f"gives clock {_d(info2['after'][0])}, steps={info2['after'][1]}, log={info2['log']}, pending={info2['after'][2]}")
            fails.append({"key": f"C15/{cls}/chunking/differs-from-one-piece", "op": g[-1], "what": what})
            break
    return fails


def nested_oracle(case, recs):
    """histories whose callables re-enter the simulator (run_next_event() / reset() from inside an event or model.step).  Demands
    what the statement says about what happens: every executed event is pending, live and the least live one at that moment, runs
    with the clock at its time, never twice; the clock only goes back through reset(); schedule calls made afterwards are judged
    against the clock the re-entrant call left; a completed run_until leaves nothing due behind and the clock at its horizon; under
    ABMSimulator model.step runs once per tick while a model is attached."""
    cls = CLS[case["cls"]]
    abm = case["cls"] == "ABM"
    script = {int(k): v for k, v in case.get("script", [])}
    fails = []
    pend = []
    st = {"seq": 0, "clock": 0, "setup": True, "nsteps": 0}

    def fail(key, i, what):
        fails.append({"key": key, "op": i, "what": what})

    def add(tag, t, prio, body, step=False):
        st["seq"] += 1
        pend.append({"tag": tag, "time": t, "prio": prio, "seq": st["seq"], "cancelled": False, "step": step, "body": body})

    if abm:
        add(-1, S, PVAL["H"], [], True)

    class Stop(Exception):
        pass

    def sched(i, a, rc, t_logged):
        _, kind, t, fl, prio, tag, h, body = a
        now = st["clock"]
        when = {"abs": t, "rel": now + t, "now": now, "tick": now + S}[kind]
        legal = when >= now and not (abm and when % S)
        if (rc == R_OK) != legal:
            fail(f"C14/{cls}/nested/{SITE[kind]}-wrong-verdict", i, f"{SITE[kind]} for {_d(when)} at clock {_d(now)} after a re-entrant call: outcome {rc}")
            raise Stop
        if rc == R_OK:
            if t_logged is not None and t_logged != when:
                fail(f"C14/{cls}/nested/wrong-event-time", i, f"event {tag} got time {_d(t_logged)}, not {_d(when)}")
                raise Stop
            add(tag, when, PVAL[prio], body)

    def walk(i, log, pos):
        """log[pos] is an execution item: check it, then interpret the callable's body against the following items"""
        it = log[pos]
        is_step = it[0] == 3
        clk = it[2]
        cands = [e for e in pend if (e["step"] if is_step else (e["tag"] == it[1] and not e["step"]))]
        if not cands:
            fail(f"C14/{cls}/nested/executed-twice-or-never-scheduled", i, f"{'model.step' if is_step else 'event ' + str(it[1])} ran at {_d(clk)} but is not pending")
            raise Stop
        e = min(cands, key=lambda x: x["time"])
        if e["cancelled"]:
            fail(f"C14/{cls}/nested/cancelled-event-executed", i, f"event {it[1]} was cancelled and ran")
            raise Stop
        if clk != e["time"]:
            fail(f"C14/{cls}/nested/clock-differs-from-event-time", i, f"event {it[1]} for {_d(e['time'])} ran with clock {_d(clk)}")
            raise Stop
        if clk < st["clock"]:
            fail(f"C14/{cls}/nested/clock-moved-backwards", i, f"clock {_d(st['clock'])} -> {_d(clk)}")
            raise Stop
        for o in pend:
            if o is e or o["cancelled"]:
                continue
            less = (o["time"], o["prio"]) < (e["time"], e["prio"]) if (o["step"] or e["step"]) else \
                (o["time"], o["prio"], o["seq"]) < (e["time"], e["prio"], e["seq"])
            if less:
                fail((f"C15/{cls}/nested/step-order" if o["step"] else f"C14/{cls}/nested/not-in-time-priority-fifo-order"), i,
                     f"{'model.step' if is_step else 'event ' + str(it[1])} at {_d(clk)} ran while {'model.step' if o['step'] else 'event ' + str(o['tag'])} at {_d(o['time'])} (priority {o['prio']}) was pending")
                raise Stop
        pend.remove(e)
        st["clock"] = clk
        pos += 1
        if is_step:
            st["nsteps"] += 1
            if it[1] != st["nsteps"] or clk != st["nsteps"] * S:
                fail(f"C15/{cls}/nested/step-not-once-per-tick", i, f"step call number {st['nsteps']}: model.steps = {it[1]}, clock {_d(clk)}")
                raise Stop
            add(-1, clk + S, PVAL["H"], [], True)
            body = script.get(it[1], [])
        else:
            body = e["body"]
        for a in body:
            if a[0] == "sched":
                if pos >= len(log) or log[pos][0] not in (1, 2, 4, 5) or log[pos][1] != a[5]:
                    fail(f"C14/{cls}/nested/trace", i, f"expected the outcome of scheduling {a[5]} at {pos}: {log[pos:pos + 3]}")
                    raise Stop
                code = log[pos][0]
                if code != 5:
                    sched(i, a, R_OK if code == 4 else code, log[pos][2] if code == 4 else None)
                pos += 1
            elif a[0] == "cancel":
                for o in pend:
                    if o["tag"] == a[1] and not o["step"]:
                        o["cancelled"] = True
            elif a[0] == "rnext":
                if pos >= len(log) or log[pos][0] != 8:
                    fail(f"C14/{cls}/nested/trace", i, f"expected the marker of a nested run_next_event at {pos}")
                    raise Stop
                pos += 1
                live = [o for o in pend if not o["cancelled"]]
                if pos < len(log) and log[pos][0] in (0, 3):
                    pos = walk(i, log, pos)
                elif live and st["setup"]:
                    fail(f"C14/{cls}/nested/run_next_event-ran-nothing", i, f"nested run_next_event ran nothing although {len(live)} live events are pending")
                    raise Stop
                if pos >= len(log) or log[pos][0] != 9 or log[pos][2] != st["clock"]:
                    fail(f"C14/{cls}/nested/clock-after-nested-run", i, f"after the nested run_next_event the clock is {log[pos][2] if pos < len(log) else '?'}, expected {st['clock']}")
                    raise Stop
                pos += 1
            elif a[0] == "rreset":
                if pos >= len(log) or log[pos][0] != 6:
                    fail(f"C14/{cls}/nested/trace", i, f"expected the marker of a nested reset at {pos}")
                    raise Stop
                pos += 1
                del pend[:]
                st["clock"] = 0
                st["setup"] = False
        return pos

    for i, (op, (ob, info)) in enumerate(zip(case["ops"], recs)):
        k = op[0]
        before, after = info["before"], info["after"]
        try:
            if "exc" in info:
                fail(f"C14/{cls}/nested/unexpected-exception", i, f"{op} raised {info['exc']}")
                raise Stop
            if k == "sched":
                if info["rc"] != R_SKIP:
                    st["clock"] = before[0]
                    sched(i, op, info["rc"], info["t"] if info["rc"] == R_OK else None)
            elif k == "cancel":
                for o in pend:
                    if o["tag"] == op[1] and not o["step"]:
                        o["cancelled"] = True
            elif k in ("until", "for", "next"):
                if info.get("nosetup"):
                    if st["setup"] or after != before:
                        fail(f"C14/{cls}/nested/raised-no-model", i, f"{op} raised 'no model' (model attached: {st['setup']}), state {before} -> {after}")
                        raise Stop
                    continue
                if not st["setup"]:
                    fail(f"C14/{cls}/nested/ran-without-setup", i, f"{op} ran although reset() had detached the model")
                    raise Stop
                st["clock"] = before[0]
                horizon = op[1] if k == "until" else before[0] + op[1] if k == "for" else None
                log = info["log"]
                pos = 0
                n_top = 0
                while pos < len(log):
                    if log[pos][0] not in (0, 3):
                        fail(f"C14/{cls}/nested/trace", i, f"stray log item {log[pos]} at {pos}")
                        raise Stop
                    if horizon is not None and log[pos][2] > horizon:
                        fail(f"C14/{cls}/nested/executed-beyond-horizon", i, f"{log[pos]} ran in {op}")
                        raise Stop
                    pos = walk(i, log, pos)
                    n_top += 1
                if k == "next" and n_top > 1:
                    fail(f"C14/{cls}/nested/run_next_event-more-than-one", i, f"run_next_event ran {n_top} events at the top level")
                    raise Stop
                # a nested run_next_event may run events BEYOND the horizon of the enclosing run_until, which afterwards puts the
                # clock (back) to its horizon: HEAD's behaviour for re-entrant runs, outside the statement - then steps / clock are not judged
                overshoot = horizon is not None and st["clock"] > horizon
                if horizon is not None and horizon >= before[0]:
                    if after[0] != horizon:
                        fail(f"C14/{cls}/nested/clock-not-at-horizon", i, f"after {op} the clock is {_d(after[0])}")
                        raise Stop
                    left = [o for o in pend if not o["cancelled"] and o["time"] <= horizon]
                    if left:
                        fail((f"C15/{cls}/nested/missed-tick" if left[0]["step"] else f"C14/{cls}/nested/live-event-not-executed"), i,
                             f"after {op}: {left[0]['tag']} at {_d(left[0]['time'])} is live and due but did not run")
                        raise Stop
                    st["clock"] = horizon
                    if overshoot:
                        st["ahead"] = True          # model.steps is ahead of the clock until the clock catches up again
                    if abm and st["setup"] and after[1] * S == after[0]:
                        st["ahead"] = False
                    if abm and st["setup"] and not st.get("ahead") and after[1] * S != after[0]:
                        fail(f"C15/{cls}/nested/steps-differ-from-clock", i, f"after {op}: model.steps = {after[1]}, clock {_d(after[0])}")
                        raise Stop
                elif horizon is not None:
                    st["ahead"] = True          # a horizon before now (outside the statement): the clock was put back
                    st["clock"] = after[0]
                elif k == "next" and after[0] != st["clock"]:
                    fail(f"C14/{cls}/nested/clock-after-run_next_event", i, f"clock {_d(after[0])}, expected {_d(st['clock'])}")
                    raise Stop
            exp = sorted([e["tag"], e["time"], e["prio"]] for e in pend if not e["cancelled"])
            if exp != sorted(after[2]):
                fail(f"C14/{cls}/nested/pending-differs", i, f"after {op}: pending {sorted(after[2])}, scheduled and not yet run {exp}")
                raise Stop
        except Stop:
            break
    return fails


def run_impl(case):
    if case.get("nested"):
        recs = simulate(case, case["ops"])
        return {"obs": [ob[:3] for ob, _ in recs], "failures": nested_oracle(case, recs), "model": False}
    _MODE["float"] = bool(case.get("float"))
    if _MODE["float"]:
        case = _decode(case)
    try:
        recs = simulate(case, case["ops"])
        fails = oracle(case, recs)
        try:
            fails += chunk_oracle(case, recs)
        except Exception as e:  # noqa: BLE001
            fails.append({"key": f"C15/{CLS[case['cls']]}/chunking/one-piece-run-raised", "op": -1, "what": f"{type(e).__name__}: {e}"})
        if _MODE["float"]:
            return {"obs": [[_obs_int(x) for x in ob] for ob, _ in recs], "failures": fails, "model": False}
        if case.get("nomodel"):     # too large to print for Coq (hundreds of events): implementation + oracle only
            return {"obs": [ob[:3] for ob, _ in recs], "failures": fails, "model": False}
        return {"obs": [ob for ob, _ in recs], "failures": fails}
    finally:
        _MODE["float"] = False


# ============================================================== model side
def coq_act(a):
    if a[0] == "sched":
        _, kind, t, _fl, prio, tag, h, body = a
        return f"ASched {KNAME[kind]} {L.z(t)} {PNAME[prio]} {L.z(tag)} {L.z(h)} {L.lst([coq_act(x) for x in body if x[0] != 'running'])}"
    if a[0] == "cancel":
        return f"ACancel {L.z(a[1])}"
    if a[0] == "raise":
        return "ARaise"
    return f"ADrop {L.z(a[1])}"


def coq_op(op):
    k = op[0]
    if k == "sched":
        return "O" + coq_act(op)[1:]
    if k == "cancel":
        return f"OCancel {L.z(op[1])}"
    if k == "drop":
        return f"ODrop {L.z(op[1])}"
    if k == "until":
        return f"ORunUntil {L.z(op[1])}"
    if k == "for":
        return f"ORunFor {L.z(op[1])}"
    if k == "next":
        return "ORunNext"
    return f"OPeek {L.z(op[1])}"


def coq_xop(op):
    if op[0] == "idjump":
        return "XOp (OCancel (-424242))"        # ids are unbounded and only compared in the model: a jump changes nothing
    if op[0] == "reset":
        return "XReset"
    if op[0] == "setup":
        return "XSetup"
    return f"XOp ({coq_op(op)})"


def coq_case(case):
    if case.get("float") or case.get("nomodel") or case.get("nested"):   # never evaluated by the model; only printed if a replay file asks for model observations
        return "{| x_cfg := {| c_abm := false; c_script := [] |}; x_setup := true; x_fuel := 1%nat; x_ops := [] |}"
    script = L.lst([L.pair(L.z(k), L.lst([coq_act(a) for a in acts if a[0] != 'running'])) for k, acts in case.get("script", [])])
    cfg = f"{{| c_abm := {L.b(case['cls'] == 'ABM')}; c_script := {script} |}}"
    return (f"{{| x_cfg := {cfg}; x_setup := {L.b(case.get('setup', True))}; x_fuel := {int(case.get('fuel', 300))}%nat; "
            f"x_ops := {L.lst([coq_xop(o) for o in case['ops']])} |}}")


def op_kinds(case):
    out = []
    for op in case["ops"]:
        out.append(case["cls"] + "/" + (op[0] + "-" + op[1] if op[0] == "sched" else op[0]))
    return out


def nontrivial(case):
    obs = case.get("_obs", [])
    runs = [o for op, o in zip(case["ops"], obs) if op[0] in ("until", "for", "next") and len(o) > 4 + 3 * (o[3] if len(o) > 3 else 0)]
    return len(case["ops"]) >= 3 and len(runs) >= 1


# ============================================================== generation helpers
def count_acts(body):
    return sum(1 + (count_acts(a[7]) if a[0] == "sched" else 0) for a in body)


class Gen:
    """structured random histories: mostly valid calls, ties in time and priority, user code that schedules /
    cancels / drops, plus the corner cases the quantifiers name.  `clk` is an upper bound of the simulator clock
    (exact until run_next_event is used), `tmax` an upper bound of every event time handed out so far."""

    def __init__(self, rng, cls):
        self.rng = rng
        self.cls = cls
        self.abm = cls == "ABM"
        self.tag = 0
        self.tags = []
        self.nh = rng.randint(1, 4)       # holders 0..3: the four kinds of callables of the driver
        self.clk = 0
        self.tmax = 0

    def new_tag(self):
        self.tag += 1
        self.tags.append(self.tag)
        return self.tag

    def time_abs(self, lo):
        r = self.rng
        if self.abm:
            t = (lo // S + r.choice([0, 0, 1, 1, 1, 2, 2, 3, 4])) * S
            if r.random() < 0.06:
                t += r.choice([2, 4, 6])        # not an integer: must be rejected
            return t
        return lo - (lo % 4) + r.choice([0, 0, 4, 4, 8, 8, 8, 12, 16, 20, 1, 3, 6, 10, 24])

    def delta(self):
        r = self.rng
        if self.abm:
            d = r.choice([0, 0, 1, 1, 1, 2, 2, 3]) * S
            if r.random() < 0.05:
                d += r.choice([4, 2])
            return d
        return r.choice([0, 0, 4, 4, 8, 8, 12, 16, 2, 6, 1, 24])

    def fl(self, t):
        if t % S:
            return True
        return self.rng.random() < (0.1 if self.abm else 0.8)

    def prio(self):
        return self.rng.choice(["D", "D", "D", "H", "H", "L"])

    def sched(self, depth, inside, p_bad=0.06):
        r = self.rng
        kinds = ["abs", "abs", "rel", "rel", "now"] + (["tick", "tick"] if self.abm else [])
        kind = r.choice(kinds)
        base = self.tmax if inside else self.clk
        if kind == "abs":
            t = self.time_abs(self.clk)
            if r.random() < p_bad and self.clk > 0:
                t = max(0, self.clk - r.choice([S, 2 * S, 4, 12]))
                if self.abm:
                    t -= t % S
            self.tmax = max(self.tmax, t)
        elif kind == "rel":
            t = self.delta()
            if r.random() < p_bad:
                t = -r.choice([S, 2 * S, 3 * S, 4] if not self.abm else [S, 2 * S, 3 * S])
            self.tmax = max(self.tmax, base + max(t, 0))
        else:
            t = 0
            self.tmax = max(self.tmax, base + S)
        tag = self.new_tag()
        body = self.body(depth - 1) if depth > 0 and r.random() < (0.5 if inside else 0.4) else []
        return ["sched", kind, t, self.fl(t), self.prio(), tag, r.randrange(self.nh), body]

    def body(self, depth):
        r = self.rng
        out = []
        for _ in range(r.choice([1, 1, 2, 2, 3])):
            x = r.random()
            if x < 0.7:
                out.append(self.sched(depth, True))
            elif x < 0.93 and self.tags:
                out.append(["cancel", r.choice(self.tags[-8:]) if r.random() < 0.8 else r.choice(self.tags)])
            elif x < 0.97:
                out.append(["drop", r.randrange(self.nh)])
            else:
                out.append(["cancel", self.tag + 1])      # the event scheduled next
        return out

    def script(self, ticks, p=0.35):
        r = self.rng
        out = []
        if not self.abm:
            return out
        save = self.clk
        for k in range(1, ticks + 1):
            if r.random() < p:
                self.clk = k * S
                self.tmax = max(self.tmax, self.clk)
                out.append([k, self.body(1)])
        self.clk = save
        return out

    def run_piece(self, T=None, p_next=0.2, p_outside=0.0):
        """one run call; stays within [clock, T] when T is given.  p_outside: horizons outside the statement's
        quantifier (before the current time; non-integer for ABMSimulator) - modelled and compared, not judged"""
        r = self.rng
        x = r.random()
        unit = S if self.abm else 4
        if T is None and r.random() < p_outside:
            if self.abm and r.random() < 0.5:
                self.clk += r.choice([2, 4, 12])
                return ["until", self.clk, True]
            back = r.choice([4, 8, 16])
            return ["until", max(0, self.clk - back), self.fl(max(0, self.clk - back))]
        if x < p_next and (T is None or (self.clk + S <= T if self.abm else self.tmax <= T)):
            # run_next_event moves the clock at most to the next tick (ABM) / to the last event time (DEVS)
            self.clk = self.clk + S if self.abm else max(self.clk, self.tmax)
            return ["next"]
        step = r.choice([0, 1, 1, 1, 2, 2, 3, 5]) * unit
        if not self.abm and r.random() < 0.2:
            step += r.choice([1, 2, 3])
        if T is not None:
            step = max(0, min(step, T - self.clk))
        self.clk += step
        if r.random() < 0.55:
            return ["until", self.clk, self.fl(self.clk)]
        return ["for", step, self.fl(step)]
