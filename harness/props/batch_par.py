"""Helper process for C13: runs one batch_run with number_processes > 1 (spawned workers re-import the main
module, so this must be a guarded script of its own, not the framework's main.py).
stdin: JSON {"objects": [...], "op": [...]}; stdout: JSON {"rows": [[int...]...]} or {"error": kind}"""
import json
import os
import sys

sys.path.insert(0, os.path.dirname(os.path.dirname(os.path.abspath(__file__))))

if __name__ == "__main__":
    from props import C13

    req = json.load(sys.stdin)
    if "seeded" in req:
        json.dump({"rows": C13.seeded_rows(req["seeded"], req["nproc"])}, sys.stdout)
        sys.exit(0)
    out = C13.call_batch(req["objects"], req["op"], req["op"][5])
    json.dump({"rows": [C13.enc_row(r, req["objects"]) for r in out["rows"]] if out["rows"] is not None else None,
               "error": out["error"]}, sys.stdout)
